//go:build verif
// +build verif

package app

// Snapshot of everything the chain monitors judge: the raw key/value content
// of the six akash stores, the objects decoded from it (classification by the
// documented key prefixes, re-stated here, not by calling the keepers), and
// the bank balances of all actors and of the escrow module account.

import (
	"bytes"
	"encoding/hex"
	"fmt"
	"sort"

	sdk "github.com/cosmos/cosmos-sdk/types"

	atypes "github.com/ovrclk/akash/x/audit/types"
	ctypes "github.com/ovrclk/akash/x/cert/types"
	dtypes "github.com/ovrclk/akash/x/deployment/types"
	etypes "github.com/ovrclk/akash/x/escrow/types"
	mtypes "github.com/ovrclk/akash/x/market/types"
	ptypes "github.com/ovrclk/akash/x/provider/types"
)

var vStores = []string{etypes.StoreKey, dtypes.StoreKey, mtypes.StoreKey, ptypes.StoreKey, atypes.StoreKey, ctypes.StoreKey}

type vKV struct {
	K []byte
	V []byte
}

type vSnap struct {
	Height int64
	Raw    map[string][]vKV // per store, in key order

	Accts  map[string]etypes.Account // "scope/xid"
	Pays   map[string]etypes.Payment // "scope/xid/pid"
	Deps   map[string]dtypes.Deployment
	Groups map[string]dtypes.Group
	Orders map[string]mtypes.Order
	Bids   map[string]mtypes.Bid
	Leases map[string]mtypes.Lease
	Provs  map[string]ptypes.Provider    // bech32 owner
	Audits map[string]atypes.Provider    // "owner|auditor"
	Certs  map[string]ctypes.Certificate // hex of raw key

	Bank        map[string]sdk.Int // bech32 -> uakt
	BankOther   map[string]sdk.Int // bech32 -> uother
	ModuleCoins sdk.Coins          // all coins of the escrow module account

	Undecodable []string // store:hexkey of entries that did not decode
}

func vAcctKey(id etypes.AccountID) string { return id.Scope + "/" + id.XID }
func vPayKey(id etypes.AccountID, pid string) string {
	return id.Scope + "/" + id.XID + "/" + pid
}
func vDepKey(id dtypes.DeploymentID) string { return fmt.Sprintf("%s/%d", id.Owner, id.DSeq) }
func vGroupKey(id dtypes.GroupID) string {
	return fmt.Sprintf("%s/%d/%d", id.Owner, id.DSeq, id.GSeq)
}
func vOrderKey(id mtypes.OrderID) string {
	return fmt.Sprintf("%s/%d/%d/%d", id.Owner, id.DSeq, id.GSeq, id.OSeq)
}
func vBidKey(id mtypes.BidID) string {
	return fmt.Sprintf("%s/%d/%d/%d/%s", id.Owner, id.DSeq, id.GSeq, id.OSeq, id.Provider)
}

func (c *vChain) snapshot() *vSnap {
	ctx := c.ctx()
	s := &vSnap{
		Height:    c.height,
		Raw:       map[string][]vKV{},
		Accts:     map[string]etypes.Account{},
		Pays:      map[string]etypes.Payment{},
		Deps:      map[string]dtypes.Deployment{},
		Groups:    map[string]dtypes.Group{},
		Orders:    map[string]mtypes.Order{},
		Bids:      map[string]mtypes.Bid{},
		Leases:    map[string]mtypes.Lease{},
		Provs:     map[string]ptypes.Provider{},
		Audits:    map[string]atypes.Provider{},
		Certs:     map[string]ctypes.Certificate{},
		Bank:      map[string]sdk.Int{},
		BankOther: map[string]sdk.Int{},
	}
	cdc := c.app.appCodec
	bad := func(store string, k []byte) {
		s.Undecodable = append(s.Undecodable, store+":"+hex.EncodeToString(k))
	}
	for _, name := range vStores {
		st := ctx.KVStore(c.app.keys[name])
		it := st.Iterator(nil, nil)
		var kvs []vKV
		for ; it.Valid(); it.Next() {
			k := append([]byte(nil), it.Key()...)
			v := append([]byte(nil), it.Value()...)
			kvs = append(kvs, vKV{K: k, V: v})
			switch name {
			case etypes.StoreKey:
				switch {
				case bytes.HasPrefix(k, []byte{0x01}):
					var o etypes.Account
					if err := cdc.UnmarshalBinaryBare(v, &o); err != nil {
						bad(name, k)
						continue
					}
					s.Accts[vAcctKey(o.ID)] = o
				case bytes.HasPrefix(k, []byte{0x02}):
					var o etypes.Payment
					if err := cdc.UnmarshalBinaryBare(v, &o); err != nil {
						bad(name, k)
						continue
					}
					s.Pays[vPayKey(o.AccountID, o.PaymentID)] = o
				default:
					bad(name, k)
				}
			case dtypes.StoreKey:
				switch {
				case bytes.HasPrefix(k, []byte{0x01}):
					var o dtypes.Deployment
					if err := cdc.UnmarshalBinaryBare(v, &o); err != nil {
						bad(name, k)
						continue
					}
					s.Deps[vDepKey(o.DeploymentID)] = o
				case bytes.HasPrefix(k, []byte{0x02}):
					var o dtypes.Group
					if err := cdc.UnmarshalBinaryBare(v, &o); err != nil {
						bad(name, k)
						continue
					}
					s.Groups[vGroupKey(o.GroupID)] = o
				default:
					bad(name, k)
				}
			case mtypes.StoreKey:
				switch {
				case bytes.HasPrefix(k, []byte{0x01, 0x00}):
					var o mtypes.Order
					if err := cdc.UnmarshalBinaryBare(v, &o); err != nil {
						bad(name, k)
						continue
					}
					s.Orders[vOrderKey(o.OrderID)] = o
				case bytes.HasPrefix(k, []byte{0x02, 0x00}):
					var o mtypes.Bid
					if err := cdc.UnmarshalBinaryBare(v, &o); err != nil {
						bad(name, k)
						continue
					}
					s.Bids[vBidKey(o.BidID)] = o
				case bytes.HasPrefix(k, []byte{0x03, 0x00}):
					var o mtypes.Lease
					if err := cdc.UnmarshalBinaryBare(v, &o); err != nil {
						bad(name, k)
						continue
					}
					s.Leases[vBidKey(mtypes.BidID(o.LeaseID))] = o
				default:
					bad(name, k)
				}
			case ptypes.StoreKey:
				var o ptypes.Provider
				if err := cdc.UnmarshalBinaryBare(v, &o); err != nil {
					bad(name, k)
					continue
				}
				s.Provs[o.Owner] = o
			case atypes.StoreKey:
				var o atypes.Provider
				if err := cdc.UnmarshalBinaryBare(v, &o); err != nil {
					bad(name, k)
					continue
				}
				s.Audits[o.Owner+"|"+o.Auditor] = o
			case ctypes.StoreKey:
				var o ctypes.Certificate
				if err := cdc.UnmarshalBinaryBare(v, &o); err != nil {
					bad(name, k)
					continue
				}
				s.Certs[hex.EncodeToString(k)] = o
			}
		}
		it.Close()
		s.Raw[name] = kvs
	}
	for _, a := range c.actors {
		s.Bank[a.Bech] = c.app.keeper.bank.GetBalance(ctx, a.Addr, vDenom).Amount
		s.BankOther[a.Bech] = c.app.keeper.bank.GetBalance(ctx, a.Addr, "uother").Amount
	}
	s.ModuleCoins = c.app.keeper.bank.GetAllBalances(ctx, c.escrowAddr)
	return s
}

func (s *vSnap) moduleBal() sdk.Int { return s.ModuleCoins.AmountOf(vDenom) }

// vRawDiff lists the keys of a store that were added, changed or removed.
type vKeyChange struct {
	Store string
	Key   []byte
	Old   []byte // nil = absent
	New   []byte // nil = absent
}

func vRawDiff(pre, post *vSnap) []vKeyChange {
	var out []vKeyChange
	for _, name := range vStores {
		a, b := pre.Raw[name], post.Raw[name]
		i, j := 0, 0
		for i < len(a) || j < len(b) {
			switch {
			case j >= len(b) || (i < len(a) && bytes.Compare(a[i].K, b[j].K) < 0):
				out = append(out, vKeyChange{Store: name, Key: a[i].K, Old: a[i].V})
				i++
			case i >= len(a) || bytes.Compare(a[i].K, b[j].K) > 0:
				out = append(out, vKeyChange{Store: name, Key: b[j].K, New: b[j].V})
				j++
			default:
				if !bytes.Equal(a[i].V, b[j].V) {
					out = append(out, vKeyChange{Store: name, Key: a[i].K, Old: a[i].V, New: b[j].V})
				}
				i++
				j++
			}
		}
	}
	return out
}

func vStateUnchanged(pre, post *vSnap) (bool, string) {
	if d := vRawDiff(pre, post); len(d) > 0 {
		return false, fmt.Sprintf("store %s key %x changed", d[0].Store, d[0].Key)
	}
	var names []string
	for k := range pre.Bank {
		names = append(names, k)
	}
	sort.Strings(names)
	for _, k := range names {
		if !pre.Bank[k].Equal(post.Bank[k]) {
			return false, fmt.Sprintf("balance of %s changed %s -> %s", k, pre.Bank[k], post.Bank[k])
		}
		if !pre.BankOther[k].Equal(post.BankOther[k]) {
			return false, fmt.Sprintf("uother balance of %s changed", k)
		}
	}
	if !pre.ModuleCoins.IsEqual(post.ModuleCoins) {
		return false, fmt.Sprintf("escrow module balance changed %s -> %s", pre.ModuleCoins, post.ModuleCoins)
	}
	return true, ""
}
