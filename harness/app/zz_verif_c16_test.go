//go:build verif
// +build verif

package app

// C16 — every lifecycle change is observable as a well-formed chain event.
// DESIGN.md §5 C16.  Transitions are computed from decoded pre/post
// snapshots; events are taken from ResponseDeliverTx.Events and decoded with
// the provider's own parser chain (sdkutil.ParseEvent + module ParseEvent).

import (
	"encoding/hex"
	"fmt"
	"sort"
	"strings"
	"testing"

	sdk "github.com/cosmos/cosmos-sdk/types"
	abci "github.com/tendermint/tendermint/abci/types"

	"github.com/ovrclk/akash/sdkutil"
	vs "github.com/ovrclk/akash/verifsupport"
	atypes "github.com/ovrclk/akash/x/audit/types"
	dtypes "github.com/ovrclk/akash/x/deployment/types"
	mtypes "github.com/ovrclk/akash/x/market/types"
	ptypes "github.com/ovrclk/akash/x/provider/types"
)

// vParseAkashEvent mirrors events.processEvent.
func vParseAkashEvent(bev abci.Event) (sdkutil.ModuleEvent, error) {
	ev, err := sdkutil.ParseEvent(sdk.StringifyEvent(bev))
	if err != nil {
		return nil, err
	}
	var last error
	if mev, err := dtypes.ParseEvent(ev); err == nil {
		return mev, nil
	} else if err != sdkutil.ErrUnknownModule {
		last = err
	}
	if mev, err := mtypes.ParseEvent(ev); err == nil {
		return mev, nil
	} else if err != sdkutil.ErrUnknownModule {
		last = err
	}
	if mev, err := ptypes.ParseEvent(ev); err == nil {
		return mev, nil
	} else if err != sdkutil.ErrUnknownModule {
		last = err
	}
	if mev, err := atypes.ParseEvent(ev); err == nil {
		return mev, nil
	} else if err != sdkutil.ErrUnknownModule {
		last = err
	}
	if last == nil {
		last = sdkutil.ErrUnknownModule
	}
	return nil, last
}

func vEventString(e abci.Event) string {
	var parts []string
	for _, a := range e.Attributes {
		parts = append(parts, string(a.Key)+"="+string(a.Value))
	}
	return e.Type + "{" + strings.Join(parts, ",") + "}"
}

func vAttrsEqual(a abci.Event, b sdk.Event) bool {
	if a.Type != b.Type || len(a.Attributes) != len(b.Attributes) {
		return false
	}
	for i := range a.Attributes {
		if string(a.Attributes[i].Key) != string(b.Attributes[i].Key) || string(a.Attributes[i].Value) != string(b.Attributes[i].Value) {
			return false
		}
	}
	return true
}

// vAttrsCovered: the typed event the parser produced says nothing the raw
// event does not say - every attribute of its re-encoding is an attribute of
// the raw event (same key, same value).  The raw event may carry further
// attributes the typed event has no field for; they do not make two typed
// events unequal.
func vAttrsCovered(raw abci.Event, re sdk.Event) bool {
	if raw.Type != re.Type {
		return false
	}
	have := map[string]int{}
	for _, a := range raw.Attributes {
		have[string(a.Key)+"\x00"+string(a.Value)]++
	}
	for _, a := range re.Attributes {
		k := string(a.Key) + "\x00" + string(a.Value)
		if have[k] == 0 {
			return false
		}
		have[k]--
	}
	return true
}

// vCanonEvent renders a typed event as "action|id|extra".
func vCanonEvent(ev sdkutil.ModuleEvent) string {
	switch e := ev.(type) {
	case dtypes.EventDeploymentCreated:
		return "deployment-created|" + vDepKey(e.ID) + "|" + hex.EncodeToString(e.Version)
	case dtypes.EventDeploymentUpdated:
		return "deployment-updated|" + vDepKey(e.ID) + "|" + hex.EncodeToString(e.Version)
	case dtypes.EventDeploymentClosed:
		return "deployment-closed|" + vDepKey(e.ID)
	case dtypes.EventGroupClosed:
		return "group-closed|" + vGroupKey(e.ID)
	case dtypes.EventGroupPaused:
		return "group-paused|" + vGroupKey(e.ID)
	case dtypes.EventGroupStarted:
		return "group-started|" + vGroupKey(e.ID)
	case mtypes.EventOrderCreated:
		return "order-created|" + vOrderKey(e.ID)
	case mtypes.EventOrderClosed:
		return "order-closed|" + vOrderKey(e.ID)
	case mtypes.EventBidCreated:
		return "bid-created|" + vBidKey(e.ID) + "|" + e.Price.String()
	case mtypes.EventBidClosed:
		return "bid-closed|" + vBidKey(e.ID) + "|" + e.Price.String()
	case mtypes.EventLeaseCreated:
		return "lease-created|" + vBidKey(mtypes.BidID(e.ID)) + "|" + e.Price.String()
	case mtypes.EventLeaseClosed:
		return "lease-closed|" + vBidKey(mtypes.BidID(e.ID)) + "|" + e.Price.String()
	case ptypes.EventProviderCreated:
		return "provider-created|" + e.Owner.String()
	case ptypes.EventProviderUpdated:
		return "provider-updated|" + e.Owner.String()
	case ptypes.EventProviderDeleted:
		return "provider-deleted|" + e.Owner.String()
	case atypes.EventTrustedAuditorCreated:
		return "attestation-created|" + e.Owner.String() + "|" + e.Auditor.String()
	case atypes.EventTrustedAuditorDeleted:
		return "attestation-deleted|" + e.Owner.String() + "|" + e.Auditor.String()
	}
	return fmt.Sprintf("unknown|%T", ev)
}

// vExpectedEvents: the transitions between two snapshots that the statement
// ties to events on orders, bids, leases, deployments and groups.
func vExpectedEvents(pre, post *vSnap) (required []string, forbiddenBidClosed []string) {
	// (used for coverage classification only; the verdict is judgeLifecycle)
	for _, k := range vSortedKeys(post.Orders) {
		n := post.Orders[k]
		o, had := pre.Orders[k]
		if !had {
			required = append(required, "order-created|"+k)
		}
		if n.State == mtypes.OrderClosed && (!had || o.State != mtypes.OrderClosed) {
			required = append(required, "order-closed|"+k)
		}
	}
	for _, k := range vSortedKeys(post.Bids) {
		n := post.Bids[k]
		o, had := pre.Bids[k]
		if !had {
			required = append(required, "bid-created|"+k+"|"+n.Price.String())
		}
		if n.State == mtypes.BidClosed && (!had || o.State != mtypes.BidClosed) {
			required = append(required, "bid-closed|"+k+"|"+n.Price.String())
		}
		if n.State == mtypes.BidLost && (!had || o.State != mtypes.BidLost) {
			forbiddenBidClosed = append(forbiddenBidClosed, k)
		}
	}
	for _, k := range vSortedKeys(post.Leases) {
		n := post.Leases[k]
		o, had := pre.Leases[k]
		if !had {
			required = append(required, "lease-created|"+k+"|"+n.Price.String())
		}
		if n.State != mtypes.LeaseActive && (!had || o.State == mtypes.LeaseActive) {
			required = append(required, "lease-closed|"+k+"|"+n.Price.String())
		}
	}
	for _, k := range vSortedKeys(post.Deps) {
		n := post.Deps[k]
		o, had := pre.Deps[k]
		if !had {
			required = append(required, "deployment-created|"+k+"|"+hex.EncodeToString(n.Version))
		}
		if n.State == dtypes.DeploymentClosed && (!had || o.State != dtypes.DeploymentClosed) {
			required = append(required, "deployment-closed|"+k)
		}
	}
	for _, k := range vSortedKeys(post.Groups) {
		n := post.Groups[k]
		o, had := pre.Groups[k]
		if !had || o.State == n.State {
			continue
		}
		switch n.State {
		case dtypes.GroupPaused:
			required = append(required, "group-paused|"+k)
		case dtypes.GroupOpen:
			required = append(required, "group-started|"+k)
		case dtypes.GroupClosed, dtypes.GroupInsufficientFunds:
			required = append(required, "group-closed|"+k)
		}
	}
	sort.Strings(required)
	return required, forbiddenBidClosed
}

type vMonC16 struct {
	res *vs.Result
}

func (m *vMonC16) AfterTx(h *vHist, o *vTxObs) {
	kind := vKindOf(o)
	// Events of one tx come in one segment per message, each introduced by
	// the SDK's own "message" event.  Known finding (D14): the akash message
	// handlers do not start a fresh event manager per message, so the segment
	// of message i begins with a repetition of the akash events of messages
	// 1..i-1.  That repetition is reported under its own rule and removed, so
	// that every other rule judges the events each message really emitted.
	var akash []abci.Event
	{
		var prevSeg, seg []abci.Event
		flush := func() {
			if len(prevSeg) > 0 && len(seg) >= len(prevSeg) {
				rep := true
				for i := range prevSeg {
					if vEventString(prevSeg[i]) != vEventString(seg[i]) {
						rep = false
						break
					}
				}
				if rep {
					if o.OK {
						h.Violation("event-emitted-exactly-once", "multi-message-tx-repeats-events-of-earlier-messages",
							fmt.Sprintf("%s: the events of a later message repeat the %d marketplace event(s) already emitted by the earlier message(s) of the same tx, e.g. %s", kind, len(prevSeg), vEventString(prevSeg[0])))
					}
					m.res.Count("multi_message_repetitions_removed", 1)
					akash = append(akash, seg[len(prevSeg):]...)
					prevSeg = seg
					seg = nil
					return
				}
			}
			akash = append(akash, seg...)
			if len(seg) > 0 {
				prevSeg = seg
			}
			seg = nil
		}
		for _, e := range o.Res.Events {
			if e.Type == sdk.EventTypeMessage {
				isMarker := false
				for _, a := range e.Attributes {
					if string(a.Key) == sdk.AttributeKeyAction && len(e.Attributes) == 1 {
						isMarker = true
					}
				}
				if isMarker {
					flush()
				}
				continue
			}
			if e.Type == sdkutil.EventTypeMessage {
				seg = append(seg, e)
			}
		}
		flush()
	}
	// the statement is about marketplace events: those of the deployment,
	// market, provider and audit modules (the ones events/publish.go hands to
	// the provider); akash.v1 events of any other module are counted only
	{
		var mk []abci.Event
		for _, e := range akash {
			mod := ""
			for _, a := range e.Attributes {
				if string(a.Key) == sdk.AttributeKeyModule {
					mod = string(a.Value)
				}
			}
			switch mod {
			case "deployment", "market", "provider", "audit":
				mk = append(mk, e)
			default:
				m.res.Count("akash_events_of_other_modules", 1)
			}
		}
		akash = mk
	}
	if !o.OK {
		if len(akash) > 0 {
			h.Violation("failed-tx-carries-no-marketplace-event", kind, fmt.Sprintf("failed %s carries %d akash events, first %s", kind, len(akash), vEventString(akash[0])))
		}
		return
	}
	// decode
	var lifecycle, action []string
	for _, e := range akash {
		mev, err := vParseAkashEvent(e)
		if err != nil {
			act := ""
			for _, a := range e.Attributes {
				if string(a.Key) == sdk.AttributeKeyAction {
					act = string(a.Value)
				}
			}
			h.Violation("every-marketplace-event-decodes", act, fmt.Sprintf("event %s emitted by %s does not decode through the provider's event parser: %v", vEventString(e), kind, err))
			// still judge emission from the raw attributes
			lifecycle = append(lifecycle, vCanonFromRaw(e))
			continue
		}
		if re := mev.ToSDKEvent(); !vAttrsCovered(e, re) {
			h.Violation("decoded-event-equals-emitted", kind, fmt.Sprintf("emitted %s, decoded event re-encodes to %s", vEventString(e), vEventString(abci.Event(re))))
		}
		c := vCanonEvent(mev)
		switch strings.SplitN(c, "|", 2)[0] {
		case "deployment-updated", "provider-created", "provider-updated", "provider-deleted", "attestation-created", "attestation-deleted":
			action = append(action, c)
		case "unknown":
			// a well-formed marketplace event of a kind the statement does not
			// speak of (it decodes, it re-encodes to what was emitted): not a
			// created / closed / paused / started event, nothing to judge
			m.res.Count("decoded_events_of_kinds_the_statement_does_not_name", 1)
		default:
			lifecycle = append(lifecycle, c)
		}
		m.res.Count("events_decoded", 1)
	}
	required, _ := vExpectedEvents(o.Pre, o.Post)
	m.judgeLifecycle(h, o, kind, lifecycle)
	// action events
	if len(o.Msgs) == 1 {
		want := ""
		switch mm := o.Msgs[0].(type) {
		case *dtypes.MsgUpdateDeployment:
			want = "deployment-updated|" + vDepKey(mm.ID) + "|" + hex.EncodeToString(o.Post.Deps[vDepKey(mm.ID)].Version)
			if pd, ok := o.Pre.Deps[vDepKey(mm.ID)]; ok && hex.EncodeToString(pd.Version) != hex.EncodeToString(o.Post.Deps[vDepKey(mm.ID)].Version) {
				m.res.Count("version_changes", 1)
			}
		case *ptypes.MsgCreateProvider:
			want = "provider-created|" + mm.Owner
		case *ptypes.MsgUpdateProvider:
			want = "provider-updated|" + mm.Owner
		case *atypes.MsgSignProviderAttributes:
			want = "attestation-created|" + mm.Owner + "|" + mm.Auditor
		case *atypes.MsgDeleteProviderAttributes:
			want = "attestation-deleted|" + mm.Owner + "|" + mm.Auditor
		}
		n := 0
		for _, a := range action {
			if a == want {
				n++
			} else {
				h.Violation("action-event-matches-message", kind, fmt.Sprintf("%s emitted %s (expected %q)", kind, a, want))
			}
		}
		if want != "" && n != 1 {
			h.Violation("action-emits-exactly-one-event", kind, fmt.Sprintf("%s emitted %d events %q", kind, n, want))
		}
	}
	if len(required) > 0 {
		var kinds []string
		for _, r := range required {
			kinds = append(kinds, strings.SplitN(r, "|", 2)[0])
		}
		m.res.Distinct(kind + "|" + strings.Join(kinds, ","))
		// indirect transitions inside another message
		tr := vTransitions(o.Pre, o.Post)
		if vHas(tr, "acct:deployment:open->overdrawn") {
			m.res.Count("indirect_overdraft_transitions", 1)
		}
		if (kind == dtypes.MsgTypeCloseGroup || kind == dtypes.MsgTypePauseGroup || kind == dtypes.MsgTypeCloseDeployment) && len(required) >= 3 {
			m.res.Count("indirect_group_close_fanout", 1)
		}
		for _, r := range kinds {
			m.res.Count("ev:"+r, 1)
		}
	}
}

// judgeLifecycle walks, per object, the ordered events of this tx through the
// object's state machine starting at its pre-state: every event must be
// enabled where it occurs (so no created/closed/paused/started event without
// the object changing in that way at that moment), and the walk must end in
// the post-state (so every change has its event).  Transient intermediate
// states inside one tx (e.g. close-bid pauses the group, the settlement that
// follows overdraws the account and closes it) are judged on the sequence.
func (m *vMonC16) judgeLifecycle(h *vHist, o *vTxObs, kind string, lifecycle []string) {
	pre, post := o.Pre, o.Post
	perObj := map[string][]string{}
	var order []string
	extra := map[string]string{}
	for _, c := range lifecycle {
		parts := strings.SplitN(c, "|", 3)
		if len(parts) < 2 {
			continue
		}
		if !strings.Contains(parts[0], "-") {
			continue
		}
		typ := strings.SplitN(parts[0], "-", 2)[0]
		key := typ + "|" + parts[1]
		if _, ok := perObj[key]; !ok {
			order = append(order, key)
		}
		perObj[key] = append(perObj[key], strings.SplitN(parts[0], "-", 2)[1])
		if len(parts) == 3 {
			extra[key+"|"+parts[0]] = parts[2]
		}
	}
	// objects that changed without any event must be visited too
	add := func(key string) {
		if _, ok := perObj[key]; !ok {
			perObj[key] = nil
			order = append(order, key)
		}
	}
	for _, k := range vSortedKeys(post.Orders) {
		if p, ok := pre.Orders[k]; !ok || p.State != post.Orders[k].State {
			add("order|" + k)
		}
	}
	for _, k := range vSortedKeys(post.Bids) {
		if p, ok := pre.Bids[k]; !ok || p.State != post.Bids[k].State {
			add("bid|" + k)
		}
	}
	for _, k := range vSortedKeys(post.Leases) {
		if p, ok := pre.Leases[k]; !ok || p.State != post.Leases[k].State {
			add("lease|" + k)
		}
	}
	for _, k := range vSortedKeys(post.Deps) {
		if p, ok := pre.Deps[k]; !ok || p.State != post.Deps[k].State {
			add("deployment|" + k)
		}
	}
	for _, k := range vSortedKeys(post.Groups) {
		if p, ok := pre.Groups[k]; ok && p.State != post.Groups[k].State {
			add("group|" + k)
		}
	}
	sort.Strings(order)
	missing := func(key, what string) {
		h.Violation("transition-has-its-event", kind+"/"+what, fmt.Sprintf("%s: %s changed (%s) without that event; its events in this tx: %v", kind, key, what, perObj[key]))
	}
	spurious := func(key, ev, why string) {
		h.Violation("event-has-its-transition", kind+"/"+ev, fmt.Sprintf("%s emitted %s for %s although %s; its events in this tx: %v", kind, ev, key, why, perObj[key]))
	}
	for _, key := range order {
		evs := perObj[key]
		typ, id := strings.SplitN(key, "|", 2)[0], strings.SplitN(key, "|", 2)[1]
		// simple objects: absent -created-> live -closed-> closed
		simple := func(preExists, preClosed, postExists, postClosed bool, priceOK func(ev string) bool) {
			exists, closed := preExists, preClosed
			for _, ev := range evs {
				switch ev {
				case "created":
					if exists {
						spurious(key, typ+"-created", "it already existed")
					}
					exists = true
				case "closed":
					if !exists || closed {
						spurious(key, typ+"-closed", "it was not live at that point")
					}
					closed = true
				default:
					spurious(key, typ+"-"+ev, "no such lifecycle event for this object")
				}
				// (the value an event carries is compared with the object after
				// the tx; in a multi-message tx a later message may have changed
				// it again, e.g. create-deployment + update-deployment)
				if priceOK != nil && len(o.Msgs) == 1 && !priceOK(typ+"-"+ev) {
					h.Violation("event-carries-object-price", kind+"/"+typ+"-"+ev, fmt.Sprintf("%s event for %s carries price %q", typ+"-"+ev, id, extra[key+"|"+typ+"-"+ev]))
				}
			}
			if postExists && !exists {
				missing(key, typ+"-created")
			}
			if postClosed && !closed {
				missing(key, typ+"-closed")
			}
			if closed && !postClosed {
				spurious(key, typ+"-closed", "it is not closed after the tx")
			}
		}
		switch typ {
		case "order":
			p, pe := pre.Orders[id]
			n, ne := post.Orders[id]
			simple(pe, pe && p.State == mtypes.OrderClosed, ne, ne && n.State == mtypes.OrderClosed, nil)
		case "bid":
			p, pe := pre.Bids[id]
			n, ne := post.Bids[id]
			simple(pe, pe && (p.State == mtypes.BidClosed || p.State == mtypes.BidLost), ne, ne && n.State == mtypes.BidClosed, func(ev string) bool {
				return !ne || extra[key+"|"+ev] == n.Price.String()
			})
			if ne && n.State == mtypes.BidLost {
				m.res.Count("lost_bid_without_event", 1)
			}
		case "lease":
			p, pe := pre.Leases[id]
			n, ne := post.Leases[id]
			simple(pe, pe && p.State != mtypes.LeaseActive, ne, ne && n.State != mtypes.LeaseActive, func(ev string) bool {
				return !ne || extra[key+"|"+ev] == n.Price.String()
			})
		case "deployment":
			p, pe := pre.Deps[id]
			n, ne := post.Deps[id]
			simple(pe, pe && p.State == dtypes.DeploymentClosed, ne, ne && n.State == dtypes.DeploymentClosed, func(ev string) bool {
				if ev != "deployment-created" || !ne {
					return true
				}
				return extra[key+"|"+ev] == hex.EncodeToString(n.Version)
			})
		case "group":
			p, pe := pre.Groups[id]
			n := post.Groups[id]
			if !pe {
				// groups are created with their deployment; no event of their own
				_, bornHere := post.Groups[id]
				if !(bornHere && len(o.Msgs) > 1) {
					for _, ev := range evs {
						spurious(key, "group-"+ev, "the group did not exist before this tx")
					}
					continue
				}
				// created by an earlier message of this tx (create-deployment) and
				// acted on by a later one: it starts its life open
				p = dtypes.Group{State: dtypes.GroupOpen}
			}
			st := p.State
			closedSeen := 0
			if p.State == dtypes.GroupInsufficientFunds {
				closedSeen = 1
			}
			for _, ev := range evs {
				switch ev {
				case "paused":
					if st != dtypes.GroupOpen {
						spurious(key, "group-paused", "it was "+st.String()+" at that point")
					}
					st = dtypes.GroupPaused
				case "started":
					if st != dtypes.GroupPaused {
						spurious(key, "group-started", "it was "+st.String()+" at that point")
					}
					st = dtypes.GroupOpen
				case "closed":
					// insufficient_funds -> closed is a transition of its own
					// (close-group on a group that an overdraft closed earlier in
					// the same tx); which of the two terminal states an earlier
					// closed event led to is not visible here, so a second closed
					// event is admitted exactly when the group ends up closed
					if st == dtypes.GroupClosed && (closedSeen >= 2 || n.State != dtypes.GroupClosed || p.State == dtypes.GroupClosed) {
						spurious(key, "group-closed", "it was already closed")
					}
					closedSeen++
					st = dtypes.GroupClosed
				}
			}
			term := func(s dtypes.Group_State) dtypes.Group_State {
				if s == dtypes.GroupInsufficientFunds {
					return dtypes.GroupClosed
				}
				return s
			}
			if term(st) != term(n.State) || (len(evs) == 0 && p.State != n.State) {
				what := "group-closed"
				switch n.State {
				case dtypes.GroupPaused:
					what = "group-paused"
				case dtypes.GroupOpen:
					what = "group-started"
				}
				missing(key, what)
			}
		}
	}
}

func vCanonFromRaw(e abci.Event) string {
	get := func(k string) string {
		for _, a := range e.Attributes {
			if string(a.Key) == k {
				return string(a.Value)
			}
		}
		return ""
	}
	act := get("action")
	switch act {
	case "group-paused", "group-started", "group-closed":
		return fmt.Sprintf("%s|%s/%s/%s", act, get("owner"), get("dseq"), get("gseq"))
	}
	return act + "|raw:" + vEventString(e)
}

func (m *vMonC16) End(h *vHist) {}

// ---- codec sweep ------------------------------------------------------------

func vC16CodecSweep(res *vs.Result) {
	if vs.ReplayFile() != "" {
		return
	}
	owner := sdk.AccAddress(make([]byte, 20)).String()
	prov := sdk.AccAddress([]byte("01234567890123456789"))
	dseqs := []uint64{0, 1, 1<<32 - 1, 1 << 32, 1 << 63, 1<<64 - 1}
	seqs := []uint32{0, 1, 1<<32 - 1}
	big30, _ := sdk.NewIntFromString("123456789012345678901234567890")
	amounts := []sdk.Int{sdk.ZeroInt(), sdk.OneInt(), sdk.NewInt(1<<62 + 7), big30}
	n := 0
	check := func(ev sdkutil.ModuleEvent, canon string) {
		n++
		sev := ev.ToSDKEvent()
		got, err := vParseAkashEvent(abci.Event(sev))
		if err != nil {
			res.AddViolation("codec-roundtrip-decodes", "C16/codec/"+strings.SplitN(canon, "|", 2)[0], fmt.Sprintf("event %s does not decode: %v", canon, err), map[string]string{"event": canon})
			return
		}
		if c := vCanonEvent(got); c != canon {
			res.AddViolation("codec-roundtrip-equal", "C16/codec/"+strings.SplitN(canon, "|", 2)[0], fmt.Sprintf("event %s decodes to %s", canon, c), map[string]string{"event": canon})
		}
		if !vAttrsEqual(abci.Event(sev), got.ToSDKEvent()) {
			res.AddViolation("codec-roundtrip-reencode", "C16/codec/"+strings.SplitN(canon, "|", 2)[0], fmt.Sprintf("event %s re-encodes differently", canon), map[string]string{"event": canon})
		}
	}
	for _, d := range dseqs {
		did := dtypes.DeploymentID{Owner: owner, DSeq: d}
		ver := make([]byte, 32)
		ver[0], ver[31] = byte(d), 0xff
		check(dtypes.NewEventDeploymentCreated(did, ver), vCanonEvent(dtypes.NewEventDeploymentCreated(did, ver)))
		check(dtypes.NewEventDeploymentUpdated(did, ver), vCanonEvent(dtypes.NewEventDeploymentUpdated(did, ver)))
		check(dtypes.NewEventDeploymentClosed(did), vCanonEvent(dtypes.NewEventDeploymentClosed(did)))
		for _, g := range seqs {
			gid := dtypes.GroupID{Owner: owner, DSeq: d, GSeq: g}
			check(dtypes.NewEventGroupClosed(gid), vCanonEvent(dtypes.NewEventGroupClosed(gid)))
			check(dtypes.NewEventGroupPaused(gid), vCanonEvent(dtypes.NewEventGroupPaused(gid)))
			check(dtypes.NewEventGroupStarted(gid), vCanonEvent(dtypes.NewEventGroupStarted(gid)))
			for _, os := range seqs {
				oid := mtypes.OrderID{Owner: owner, DSeq: d, GSeq: g, OSeq: os}
				check(mtypes.NewEventOrderCreated(oid), vCanonEvent(mtypes.NewEventOrderCreated(oid)))
				check(mtypes.NewEventOrderClosed(oid), vCanonEvent(mtypes.NewEventOrderClosed(oid)))
				bid := mtypes.MakeBidID(oid, prov)
				for _, a := range amounts {
					price := sdk.NewCoin(vDenom, a)
					check(mtypes.NewEventBidCreated(bid, price), vCanonEvent(mtypes.NewEventBidCreated(bid, price)))
					check(mtypes.NewEventBidClosed(bid, price), vCanonEvent(mtypes.NewEventBidClosed(bid, price)))
					check(mtypes.NewEventLeaseCreated(bid.LeaseID(), price), vCanonEvent(mtypes.NewEventLeaseCreated(bid.LeaseID(), price)))
					check(mtypes.NewEventLeaseClosed(bid.LeaseID(), price), vCanonEvent(mtypes.NewEventLeaseClosed(bid.LeaseID(), price)))
				}
			}
		}
	}
	check(ptypes.NewEventProviderCreated(prov), vCanonEvent(ptypes.NewEventProviderCreated(prov)))
	check(ptypes.NewEventProviderUpdated(prov), vCanonEvent(ptypes.NewEventProviderUpdated(prov)))
	check(atypes.NewEventTrustedAuditorCreated(prov, sdk.AccAddress(make([]byte, 20))), vCanonEvent(atypes.NewEventTrustedAuditorCreated(prov, sdk.AccAddress(make([]byte, 20)))))
	check(atypes.NewEventTrustedAuditorDeleted(prov, sdk.AccAddress(make([]byte, 20))), vCanonEvent(atypes.NewEventTrustedAuditorDeleted(prov, sdk.AccAddress(make([]byte, 20)))))
	res.Eval(n)
	res.Count("codec_roundtrips", n)
}

func TestVerif_C16(t *testing.T) {
	res := vs.NewResult("C16", "exploration",
		"signed-tx histories against the real app; for every successful tx the set of lifecycle transitions (orders, bids, leases, deployments, groups; direct or through escrow hooks) computed from decoded pre/post snapshots is compared as a multiset with the akash.v1 events of ResponseDeliverTx decoded by the provider's own parser chain; action events (deployment-updated, provider, attestation) exactly once per successful message; every event re-encodes to itself; failed txs carry none; plus a codec round-trip sweep over extreme ids and prices. distinct = (message kind, multiset of required event kinds)")
	res.Assume("chain driven at the ABCI boundary; events are read from ResponseDeliverTx.Events, the list events/publish.go consumes (RPC delivery itself is not exercised)")
	for _, f := range []string{"indirect_overdraft_transitions", "indirect_group_close_fanout"} {
		res.Floor(f, 20)
	}
	for _, f := range []string{"ev:order-created", "ev:order-closed", "ev:bid-created", "ev:bid-closed", "ev:lease-created", "ev:lease-closed", "ev:deployment-created", "ev:deployment-closed", "ev:group-paused", "ev:group-started", "ev:group-closed", "version_changes", "codec_roundtrips"} {
		res.Floor(f, 1)
	}
	vRunChainCheck(t, res, vChainOpts{Histories: [2]int{160, 5000}, Templates: 3, RandomSteps: 60, SmallNum: 2, SmallDen: 3,
		Tune: func(g *vGen) {
			g.W["pause-group"] = 7
			g.W["start-group"] = 7
			g.W["close-group"] = 5
			g.W["update-deployment"] = 5
		},
		Extra: vC16CodecSweep,
	}, func() []vMonitor {
		return []vMonitor{&vMonC16{res: res}}
	})
}
