//go:build verif
// +build verif

package app

// C02 — pay-per-block metering is exact and never overcharges.
// DESIGN.md §5 C02: shadow monitor over full-application histories plus the
// small-scope exhaustive direct-keeper sweep (E1b).

import (
	"fmt"
	"strings"
	"testing"

	sdk "github.com/cosmos/cosmos-sdk/types"

	vs "github.com/ovrclk/akash/verifsupport"
	dtypes "github.com/ovrclk/akash/x/deployment/types"
	etypes "github.com/ovrclk/akash/x/escrow/types"
	mtypes "github.com/ovrclk/akash/x/market/types"
)

type vMonC02 struct {
	res      *vs.Result
	created  map[string]int64   // payment key -> creation height
	ended    map[string]int64   // payment key -> height its lease stopped being active
	deposits map[string]sdk.Int // deployment account key -> deposited so far (from successful messages)
	frozen   map[string]sdk.Int // payment key -> credited at the moment it stopped being open
}

func vCredited(p etypes.Payment) sdk.Int { return p.Balance.Amount.Add(p.Withdrawn.Amount) }

func (m *vMonC02) AfterTx(h *vHist, o *vTxObs) {
	pre, post := o.Pre, o.Post
	kind := vKindOf(o)
	tr := vTransitions(pre, post)
	if m.created == nil {
		m.created, m.ended, m.deposits, m.frozen = map[string]int64{}, map[string]int64{}, map[string]sdk.Int{}, map[string]sdk.Int{}
	}
	// shadow: deposits from successful messages only
	if o.OK {
		for _, msg := range o.Msgs {
			switch mm := msg.(type) {
			case *dtypes.MsgCreateDeployment:
				m.deposits[vDepAcctKey(mm.ID)] = mm.Deposit.Amount
			case *dtypes.MsgDepositDeployment:
				k := vDepAcctKey(mm.ID)
				if cur, ok := m.deposits[k]; ok {
					// only coins of the account's own denomination are
					// deposits "into it"
					if a, oka := pre.Accts[k]; oka && a.Balance.Denom != mm.Amount.Denom {
						m.res.Count("accepted_deposit_in_another_denomination", 1)
					} else {
						m.deposits[k] = cur.Add(mm.Amount.Amount)
					}
				}
			}
		}
	}
	// shadow: creation and end heights from the market's own lease records
	for _, k := range vSortedKeys(post.Leases) {
		l := post.Leases[k]
		pk := vLeasePayKey(l.LeaseID)
		pl, existed := pre.Leases[k]
		if !existed {
			m.created[pk] = o.Height
		}
		if (existed && pl.State == mtypes.LeaseActive || !existed) && l.State != mtypes.LeaseActive {
			if _, done := m.ended[pk]; !done {
				m.ended[pk] = o.Height
			}
		}
	}

	singleMsg := len(o.Msgs) == 1
	nontrivial := false

	for _, ak := range vSortedKeys(post.Accts) {
		a := post.Accts[ak]
		if a.ID.Scope != "deployment" {
			continue
		}
		dep, known := m.deposits[ak]
		var pays []string
		for _, pk := range vSortedKeys(post.Pays) {
			if strings.HasPrefix(pk, ak+"/") && vAcctKey(post.Pays[pk].AccountID) == ak {
				pays = append(pays, pk)
			}
		}
		// (1) account arithmetic
		sum := sdk.ZeroInt()
		for _, pk := range pays {
			sum = sum.Add(vCredited(post.Pays[pk]))
		}
		if !sum.Equal(a.Transferred.Amount) {
			h.ViolationOnce(ak, "transferred-equals-total-credited", kind, fmt.Sprintf("account %s transferred %s, payees were credited %s in total", ak, a.Transferred.Amount, sum))
		}
		if a.Balance.Amount.IsNegative() {
			h.ViolationOnce(ak, "balance-non-negative", kind, fmt.Sprintf("account %s balance %s", ak, a.Balance))
		}
		if known {
			if a.Transferred.Amount.GT(dep) {
				h.ViolationOnce(ak, "never-transfers-more-than-deposited", kind, fmt.Sprintf("account %s transferred %s of %s deposited", ak, a.Transferred.Amount, dep))
			}
			if a.State == etypes.AccountOpen && !a.Balance.Amount.Add(a.Transferred.Amount).Equal(dep) {
				h.ViolationOnce(ak, "balance-plus-transferred-equals-deposits", kind, fmt.Sprintf("open account %s: balance %s + transferred %s != deposited %s", ak, a.Balance.Amount, a.Transferred.Amount, dep))
			}
		}

		pa, hadPre := pre.Accts[ak]
		overdraftNow := hadPre && pa.State == etypes.AccountOpen && a.State == etypes.AccountOverdrawn

		for _, pk := range pays {
			p := post.Pays[pk]
			c, okc := m.created[pk]
			if !okc {
				continue
			}
			cred := vCredited(p)
			// (2) exact accrual while open and funded
			if p.State == etypes.PaymentOpen && a.State == etypes.AccountOpen {
				want := p.Rate.Amount.MulRaw(a.SettledAt - c)
				if !cred.Equal(want) {
					h.ViolationOnce(pk, "accrual-exact", kind,
						fmt.Sprintf("payment %s (rate %s, created at %d) credited %s at settlement height %d, exact entitlement %s", pk, p.Rate.Amount, c, cred, a.SettledAt, want))
				}
				if a.SettledAt > c {
					nontrivial = true
				}
			}
			// (3) never more than rate x blocks-open
			end := o.Height
			if e, ok := m.ended[pk]; ok {
				end = e
			}
			if cred.GT(p.Rate.Amount.MulRaw(end - c)) {
				h.ViolationOnce(pk, "payee-never-above-rate-times-blocks-open", kind,
					fmt.Sprintf("payment %s credited %s, but rate %s x %d blocks open (created %d, lease ended/now %d) = %s", pk, cred, p.Rate.Amount, end-c, c, end, p.Rate.Amount.MulRaw(end-c)))
			}
			// (5) frozen after the payment stopped being open
			if f, ok := m.frozen[pk]; ok && !f.Equal(cred) {
				h.ViolationOnce(pk, "closed-payment-frozen", kind, fmt.Sprintf("payment %s was credited %s when it closed, now %s", pk, f, cred))
			}
			if p.State != etypes.PaymentOpen {
				if _, ok := m.frozen[pk]; !ok {
					m.frozen[pk] = cred
				}
			}
		}

		// withdraw really settles up to now
		if o.OK && singleMsg {
			if w, ok := o.Msgs[0].(*mtypes.MsgWithdrawLease); ok && vDepAcctKey(w.LeaseID.DeploymentID()) == ak && a.State == etypes.AccountOpen {
				pk := vLeasePayKey(w.LeaseID)
				if p, okp := post.Pays[pk]; okp && p.State == etypes.PaymentOpen {
					if c, okc := m.created[pk]; okc {
						want := p.Rate.Amount.MulRaw(o.Height - c)
						if !p.Withdrawn.Amount.Equal(want) || !p.Balance.IsZero() {
							h.Violation("withdraw-pays-all-elapsed-blocks", kind,
								fmt.Sprintf("after withdraw at height %d payment %s (rate %s, created %d) has withdrawn %s balance %s, entitlement %s", o.Height, pk, p.Rate.Amount, c, p.Withdrawn.Amount, p.Balance.Amount, want))
						}
						m.res.Count("withdraw_checked", 1)
						if o.Gap == 0 {
							m.res.Count("two_settle_triggers_in_one_block", 1)
						}
					}
				}
			}
		}

		// (4) overdraft split
		if overdraftNow && singleMsg {
			// A deposit may credit before or after the settlement it triggers
			// (the statement names deposits among the settle-triggering actions
			// without fixing that order): both readings of "the remaining
			// balance" are tried.
			Bs := []sdk.Int{pa.Balance.Amount}
			if dm, ok := o.Msgs[0].(*dtypes.MsgDepositDeployment); ok && o.OK && vDepAcctKey(dm.ID) == ak {
				Bs = append(Bs, pa.Balance.Amount.Add(dm.Amount.Amount))
				m.res.Count("overdrafts_found_by_a_deposit", 1)
			}
			B := Bs[0]
			R := sdk.ZeroInt()
			var open []string
			for _, pk := range vSortedKeys(pre.Pays) {
				pp := pre.Pays[pk]
				if vAcctKey(pp.AccountID) == ak && pp.State == etypes.PaymentOpen {
					open = append(open, pk)
					R = R.Add(pp.Rate.Amount)
				}
			}
			dh := o.Height - pa.SettledAt
			if R.IsPositive() {
				rates := map[string]bool{}
				judge := func(B sdk.Int) [][2]string {
					var vv [][2]string
					f := B.Quo(R)
					if f.GTE(sdk.NewInt(dh)) {
						vv = append(vv, [2]string{"overdrawn-only-when-funds-run-out",
							fmt.Sprintf("account %s went overdrawn with balance %s, block rate %s and %d blocks elapsed (funds cover %s blocks)", ak, B, R, dh, f)})
					}
					total := sdk.ZeroInt()
					for _, pk := range open {
						pp, np := pre.Pays[pk], post.Pays[pk]
						d := vCredited(np).Sub(vCredited(pp))
						total = total.Add(d)
						extra := d.Sub(pp.Rate.Amount.Mul(f))
						if extra.IsNegative() || extra.GT(pp.Rate.Amount) {
							vv = append(vv, [2]string{"overdraft-split-bounds",
								fmt.Sprintf("overdraft of %s: balance %s, block rate %s, %s full blocks; payment %s (rate %s) received %s = full-block entitlement %s %+d, admissible extra [0,%s]",
									ak, B, R, f, pk, pp.Rate.Amount, d, pp.Rate.Amount.Mul(f), extra.Int64(), pp.Rate.Amount)})
						}
						if np.State != etypes.PaymentOverdrawn {
							vv = append(vv, [2]string{"overdraft-marks-payments", fmt.Sprintf("account %s overdrawn but payment %s is %s", ak, pk, vPayState(np.State))})
						}
						rates[pp.Rate.Amount.String()] = true
					}
					if !total.Equal(B) {
						vv = append(vv, [2]string{"overdraft-distributes-whole-balance", fmt.Sprintf("overdraft of %s: balance %s, distributed %s", ak, B, total)})
					}
					return vv
				}
				vv := judge(Bs[0])
				for _, b2 := range Bs[1:] {
					if len(vv) == 0 {
						break
					}
					if v2 := judge(b2); len(v2) == 0 {
						vv, B = nil, b2
					}
				}
				for _, v := range vv {
					h.Violation(v[0], kind, v[1])
				}
				f := B.Quo(R)
				if !a.Balance.IsZero() {
					h.Violation("overdraft-leaves-zero", kind, fmt.Sprintf("overdrawn account %s keeps %s", ak, a.Balance))
				}
				m.res.Count("overdrafts_checked", 1)
				if len(open) >= 2 && len(rates) >= 2 {
					m.res.Count("overdraft_2plus_payments_different_rates", 1)
				}
				if !B.Sub(R.Mul(f)).IsZero() {
					m.res.Count("overdraft_remainder_nonzero", 1)
				}
				nontrivial = true
			}
		}
		// sibling created later
		if len(pays) >= 2 {
			first := m.created[pays[0]]
			for _, pk := range pays[1:] {
				if m.created[pk] != first {
					if _, isNew := pre.Pays[pk]; !isNew {
						m.res.Count("payment_created_later_than_sibling", 1)
					}
				}
			}
		}
	}
	if nontrivial || vHas(tr, "pay:withdrawn") {
		m.res.Distinct(vShape(o, tr))
	}
}

func (m *vMonC02) End(h *vHist) {}

// ---------------------------------------------------------------------------
// small-scope exhaustive sweep through the real keeper (E1b)

type vC02Scenario struct {
	B       int64
	Rates   []int64
	Offs    []int64 // offsets of payments 1.. relative to the previous one
	Gap     int64
	Trigger int  // 0 withdraw p0, 1 payclose p0, 2 close, 3 new payment / extra withdraw, 4 deposit+withdraw
	Often   bool // settle at every intermediate height
}

func (s vC02Scenario) ops() []vLabOp {
	ops := []vLabOp{{Kind: "create", DH: 1, Amt: s.B}}
	for i, r := range s.Rates {
		dh := int64(0)
		if i > 0 {
			dh = s.Offs[i-1]
		}
		ops = append(ops, vLabOp{Kind: "pay", DH: dh, Pay: i, Amt: r})
	}
	last := len(s.Rates) - 1
	gap := s.Gap
	if s.Often {
		for g := int64(1); g < s.Gap; g++ {
			ops = append(ops, vLabOp{Kind: "withdraw", DH: 1, Pay: int(g) % len(s.Rates)})
		}
		if gap > 0 {
			gap = 1
		}
	}
	switch s.Trigger {
	case 0:
		ops = append(ops, vLabOp{Kind: "withdraw", DH: gap, Pay: 0})
	case 1:
		ops = append(ops, vLabOp{Kind: "payclose", DH: gap, Pay: 0})
	case 2:
		ops = append(ops, vLabOp{Kind: "close", DH: gap})
	case 3:
		if len(s.Rates) < 3 {
			ops = append(ops, vLabOp{Kind: "pay", DH: gap, Pay: len(s.Rates), Amt: 2})
		} else {
			ops = append(ops, vLabOp{Kind: "withdraw", DH: gap, Pay: last}, vLabOp{Kind: "withdraw", DH: 0, Pay: 0})
		}
	case 4:
		ops = append(ops, vLabOp{Kind: "deposit", DH: gap, Amt: 5}, vLabOp{Kind: "withdraw", DH: 0, Pay: last})
	}
	// afterwards: two more blocks, then everybody settles once more
	ops = append(ops, vLabOp{Kind: "withdraw", DH: 2, Pay: last}, vLabOp{Kind: "withdraw", DH: 0, Pay: 0})
	return ops
}

func vC02Scenarios(maxB int64, maxRate int64, maxPays int) []vC02Scenario {
	var out []vC02Scenario
	var rec func(rates, offs []int64)
	rec = func(rates, offs []int64) {
		if len(rates) >= 1 {
			for B := int64(0); B <= maxB; B++ {
				for gap := int64(0); gap <= 6; gap++ {
					for trig := 0; trig < 5; trig++ {
						out = append(out, vC02Scenario{B: B, Rates: append([]int64(nil), rates...), Offs: append([]int64(nil), offs...), Gap: gap, Trigger: trig})
						if gap >= 2 {
							out = append(out, vC02Scenario{B: B, Rates: append([]int64(nil), rates...), Offs: append([]int64(nil), offs...), Gap: gap, Trigger: trig, Often: true})
						}
					}
				}
			}
		}
		if len(rates) == maxPays {
			return
		}
		for r := int64(1); r <= maxRate; r++ {
			if len(rates) == 0 {
				rec(append(rates, r), offs)
				continue
			}
			for off := int64(0); off <= 2; off++ {
				rec(append(rates, r), append(offs, off))
			}
		}
	}
	rec(nil, nil)
	return out
}

func vEscrowDirectC02(res *vs.Result) {
	if vs.ReplayFile() != "" {
		return
	}
	// quick: up to 2 concurrent payments exhaustively, 3 payments sampled;
	// thorough: the whole space of DESIGN.md §5 C02.
	scs := vC02Scenarios(12, 4, vs.Scale(2, 3))
	if !vs.Thorough() {
		all3 := vC02Scenarios(12, 4, 3)
		r := vs.NewRand(vs.Seed(), 0xC02)
		for i := 0; i < 30000; i++ {
			s := all3[r.Intn(len(all3))]
			if len(s.Rates) == 3 {
				scs = append(scs, s)
			}
		}
	}
	finals := map[string]string{}
	on := func(ops []vLabOp, out vLabOutcome) {
		if out.Overdraft {
			res.Count("lab_overdrafts", 1)
			if out.OdPayments >= 2 {
				res.Count("lab_overdraft_2plus_payments", 1)
			}
			if out.OdRemNZ {
				res.Count("lab_overdraft_remainder_nonzero", 1)
			}
		}
		if out.LaterPay {
			res.Count("lab_payment_created_later_than_sibling", 1)
		}
		if out.TwoSettle {
			res.Count("lab_two_settle_triggers_in_one_block", 1)
		}
		res.Distinct("lab:" + vOpsString(ops))
	}
	_ = finals
	vLabSweep(res, "c02-small-scope", len(scs), func(i int) []vLabOp { return scs[i].ops() }, on)
	res.Extra("lab_small_scope", fmt.Sprintf("balances 0..12 x up to %d concurrent payments (rates 1..4, creation offsets 0..2) x gaps 0..6 x 5 settle triggers x {settle once, settle at every height}: %d scenarios through the real escrow+bank keepers; complete for <=%d payments", vs.Scale(2, 3), len(scs), vs.Scale(2, 3)))

	// metamorphic: settle once vs settle at every height gives the same end state
	pairs := 0
	workers := 8
	labs := make(chan *vLab, workers)
	for w := 0; w < workers; w++ {
		labs <- vNewLab(int64(2000 + w))
	}
	var idx []int
	for i, s := range scs {
		if s.Often {
			idx = append(idx, i)
		}
	}
	vs.Parallel(len(idx), workers, func(j int) {
		s := scs[idx[j]]
		once := s
		once.Often = false
		l := <-labs
		a := l.run(once.ops())
		b := l.run(s.ops())
		labs <- l
		if len(a.Violations) == 0 && len(b.Violations) == 0 && !a.Overdraft && !b.Overdraft && a.Final != b.Final {
			res.AddViolation("settle-often-equals-settle-once", res.Property+"/lab/settle-often-equals-settle-once",
				fmt.Sprintf("settling once gives %s, settling at every height gives %s for %s", a.Final, b.Final, vOpsString(once.ops())), vLabCase{Lab: "c02-metamorphic", Ops: s.ops()})
		}
		res.Eval(1)
	})
	pairs = len(idx)
	res.Extra("lab_metamorphic_pairs", pairs)
}

func TestVerif_C02(t *testing.T) {
	res := vs.NewResult("C02", "exploration",
		"(a) signed-tx histories against the real app with a shadow of payment creation/lease end heights and deposits: exact accrual rate x (settled_at - created), upper bound rate x blocks-open, transferred == total credited <= deposited, overdraft split bounds, frozen after close; (b) small-scope exhaustive direct calls of the real escrow keeper (real bank keeper) on cache branches at arbitrary heights next to a per-block reference model; (c) settle-once vs settle-at-every-height. distinct = tx shapes that accrued/paid, plus distinct lab operation sequences")
	res.Assume("chain driven at the ABCI boundary without Tendermint; zero fees; the reference model settles block by block and leaves the overdraft remainder split free within the stated bounds")
	for _, f := range []string{"withdraw_checked", "overdrafts_checked", "overdraft_2plus_payments_different_rates", "overdraft_remainder_nonzero", "payment_created_later_than_sibling", "two_settle_triggers_in_one_block",
		"lab_overdrafts", "lab_overdraft_2plus_payments", "lab_overdraft_remainder_nonzero", "lab_payment_created_later_than_sibling", "lab_two_settle_triggers_in_one_block"} {
		res.Floor(f, 1)
	}
	vRunChainCheck(t, res, vChainOpts{Histories: [2]int{150, 6000}, Templates: 3, RandomSteps: 50, SmallNum: 2, SmallDen: 3,
		Tune: func(g *vGen) {
			g.W["withdraw-lease"] = 14
			g.W["create-lease"] = 14
			g.W["deposit-deployment"] = 6
		},
		Extra: func(res *vs.Result) { vEscrowDirectC02(res) },
	}, func() []vMonitor {
		return []vMonitor{&vMonC02{res: res}}
	})
}
