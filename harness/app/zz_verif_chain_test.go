//go:build verif
// +build verif

package app

// E1 "chainmon": the real AkashApp driven at the ABCI boundary by signed
// transactions, with a full observation of the akash stores and the bank
// balances after every DeliverTx.  See /verif/DESIGN.md §4.1.

import (
	"encoding/json"
	"fmt"
	"io/ioutil"
	"sort"
	"time"

	"github.com/cosmos/cosmos-sdk/client"
	"github.com/cosmos/cosmos-sdk/crypto/keys/secp256k1"
	cryptotypes "github.com/cosmos/cosmos-sdk/crypto/types"
	"github.com/cosmos/cosmos-sdk/simapp"
	sdk "github.com/cosmos/cosmos-sdk/types"
	"github.com/cosmos/cosmos-sdk/types/tx/signing"
	authsign "github.com/cosmos/cosmos-sdk/x/auth/signing"
	authtypes "github.com/cosmos/cosmos-sdk/x/auth/types"
	banktypes "github.com/cosmos/cosmos-sdk/x/bank/types"
	abci "github.com/tendermint/tendermint/abci/types"
	"github.com/tendermint/tendermint/libs/log"
	tmproto "github.com/tendermint/tendermint/proto/tendermint/types"
	dbm "github.com/tendermint/tm-db"

	"github.com/ovrclk/akash/sdkutil"
	dtypes "github.com/ovrclk/akash/x/deployment/types"
	etypes "github.com/ovrclk/akash/x/escrow/types"
	mtypes "github.com/ovrclk/akash/x/market/types"
)

const (
	vChainID = "verif-chain"
	vDenom   = "uakt"
	vGas     = uint64(50000000)
)

func init() {
	cfg := sdk.GetConfig()
	cfg.SetBech32PrefixForAccount(sdkutil.Bech32PrefixAccAddr, sdkutil.Bech32PrefixAccPub)
	cfg.SetBech32PrefixForValidator(sdkutil.Bech32PrefixValAddr, sdkutil.Bech32PrefixValPub)
	cfg.SetBech32PrefixForConsensusNode(sdkutil.Bech32PrefixConsAddr, sdkutil.Bech32PrefixConsPub)
}

// ---------------------------------------------------------------------------
// actors

type vActor struct {
	Idx  int
	Name string
	Role string // tenant | provider | auditor | outsider
	priv cryptotypes.PrivKey
	Addr sdk.AccAddress
	Bech string
}

func vMakeActors(seed int64) []*vActor {
	spec := []struct {
		role string
		n    int
	}{{"tenant", 3}, {"provider", 3}, {"auditor", 2}, {"outsider", 1}}
	var out []*vActor
	for _, s := range spec {
		for i := 0; i < s.n; i++ {
			name := fmt.Sprintf("%s%d", s.role, i)
			priv := secp256k1.GenPrivKeyFromSecret([]byte(fmt.Sprintf("verif/%d/%s", seed, name)))
			addr := sdk.AccAddress(priv.PubKey().Address())
			out = append(out, &vActor{Idx: len(out), Name: name, Role: s.role, priv: priv, Addr: addr, Bech: addr.String()})
		}
	}
	return out
}

// ---------------------------------------------------------------------------
// chain

type vProfile struct {
	Name          string `json:"name"`
	DepMinDeposit int64  `json:"dep_min_deposit"`
	BidMinDeposit int64  `json:"bid_min_deposit"`
	OrderMaxBids  uint32 `json:"order_max_bids"`
	Funds         int64  `json:"funds"`
}

var (
	vProfileDefault = vProfile{Name: "default", DepMinDeposit: 5000000, BidMinDeposit: 50000000, OrderMaxBids: 20, Funds: 1000000000000}
	vProfileSmall   = vProfile{Name: "small", DepMinDeposit: 10, BidMinDeposit: 20, OrderMaxBids: 3, Funds: 1000000000000}
)

type vChain struct {
	app     *AkashApp
	txcfg   client.TxConfig
	profile vProfile
	actors  []*vActor
	byAddr  map[string]*vActor

	height int64 // height of the open block; 0 before the first block
	open   bool
	now    time.Time

	escrowAddr sdk.AccAddress
	lastHash   []byte
	db         dbm.DB
	restarts   int
	logger     log.Logger
}

func vNewChain(actorSeed int64, prof vProfile) *vChain {
	return vNewChainLogging(actorSeed, prof, log.NewNopLogger())
}

// vVerboseLogger renders every line, debug included (a node run with
// log_level=debug), and throws the text away.
func vVerboseLogger() log.Logger {
	return log.NewTMLogger(log.NewSyncWriter(ioutil.Discard))
}

func vNewChainLogging(actorSeed int64, prof vProfile, logger log.Logger) *vChain {
	db := dbm.NewMemDB()
	a := NewApp(logger, db, nil, true, 0, map[int64]bool{}, DefaultHome, simapp.EmptyAppOptions{})
	c := &vChain{
		logger:  logger,
		db:      db,
		app:     a,
		txcfg:   MakeEncodingConfig().TxConfig,
		profile: prof,
		actors:  vMakeActors(actorSeed),
		byAddr:  map[string]*vActor{},
		now:     time.Unix(1600000000, 0).UTC(),
	}
	gs := NewDefaultGenesisState()

	var accs []authtypes.GenesisAccount
	var bals []banktypes.Balance
	supply := sdk.NewCoins()
	for _, ac := range c.actors {
		c.byAddr[ac.Bech] = ac
		accs = append(accs, authtypes.NewBaseAccount(ac.Addr, nil, 0, 0))
		coins := sdk.NewCoins(sdk.NewInt64Coin(vDenom, prof.Funds), sdk.NewInt64Coin("uother", 1000000))
		bals = append(bals, banktypes.Balance{Address: ac.Bech, Coins: coins})
		supply = supply.Add(coins...)
	}
	gs[authtypes.ModuleName] = a.appCodec.MustMarshalJSON(authtypes.NewGenesisState(authtypes.DefaultParams(), accs))
	gs[banktypes.ModuleName] = a.appCodec.MustMarshalJSON(banktypes.NewGenesisState(banktypes.DefaultGenesisState().Params, bals, supply, []banktypes.Metadata{}))
	gs[dtypes.ModuleName] = a.appCodec.MustMarshalJSON(&dtypes.GenesisState{
		Params: dtypes.Params{DeploymentMinDeposit: sdk.NewInt64Coin(vDenom, prof.DepMinDeposit)},
	})
	gs[mtypes.ModuleName] = a.appCodec.MustMarshalJSON(&mtypes.GenesisState{
		Params: mtypes.Params{BidMinDeposit: sdk.NewInt64Coin(vDenom, prof.BidMinDeposit), OrderMaxBids: prof.OrderMaxBids},
	})
	stateBytes, err := json.Marshal(gs)
	if err != nil {
		panic(err)
	}
	a.InitChain(abci.RequestInitChain{
		ChainId:    vChainID,
		Time:       c.now,
		Validators: []abci.ValidatorUpdate{},
		ConsensusParams: &abci.ConsensusParams{
			Block:     &abci.BlockParams{MaxBytes: 22020096, MaxGas: -1},
			Evidence:  &tmproto.EvidenceParams{MaxAgeNumBlocks: 302400, MaxAgeDuration: 504 * time.Hour, MaxBytes: 10000},
			Validator: &tmproto.ValidatorParams{PubKeyTypes: []string{"ed25519"}},
		},
		AppStateBytes: stateBytes,
	})
	c.escrowAddr = authtypes.NewModuleAddress(etypes.ModuleName)
	return c
}

// restart simulates a node restart between two blocks: a new application
// object is built over the same database and loads the last committed state.
func (c *vChain) restart() {
	if c.open {
		panic("restart inside a block")
	}
	if c.logger == nil {
		c.logger = log.NewNopLogger()
	}
	c.app = NewApp(c.logger, c.db, nil, true, 0, map[int64]bool{}, DefaultHome, simapp.EmptyAppOptions{})
	c.restarts++
}

// exportImport commits the open block, exports the application state the way
// `akash export` does and starts a new chain from it (fresh database,
// InitChain at the exported height).  The receiver is left as it is.
func (c *vChain) exportImport() (nc *vChain, err error) {
	defer func() {
		if r := recover(); r != nil {
			nc, err = nil, fmt.Errorf("panic: %v", r)
		}
	}()
	if c.open {
		c.endBlock()
	}
	exp, err := c.app.ExportAppStateAndValidators(false, nil)
	if err != nil {
		return nil, err
	}
	db := dbm.NewMemDB()
	a := NewApp(log.NewNopLogger(), db, nil, true, 0, map[int64]bool{}, DefaultHome, simapp.EmptyAppOptions{})
	nc = &vChain{db: db, app: a, txcfg: c.txcfg, profile: c.profile, actors: c.actors, byAddr: c.byAddr,
		now: c.now, escrowAddr: c.escrowAddr, height: exp.Height - 1}
	a.InitChain(abci.RequestInitChain{
		ChainId:       vChainID,
		Time:          c.now,
		InitialHeight: exp.Height,
		Validators:    []abci.ValidatorUpdate{},
		ConsensusParams: &abci.ConsensusParams{
			Block:     &abci.BlockParams{MaxBytes: 22020096, MaxGas: -1},
			Evidence:  &tmproto.EvidenceParams{MaxAgeNumBlocks: 302400, MaxAgeDuration: 504 * time.Hour, MaxBytes: 10000},
			Validator: &tmproto.ValidatorParams{PubKeyTypes: []string{"ed25519"}},
		},
		AppStateBytes: exp.AppState,
	})
	nc.beginBlock()
	return nc, nil
}

func (c *vChain) header() tmproto.Header {
	return tmproto.Header{ChainID: vChainID, Height: c.height, Time: c.now}
}

func (c *vChain) beginBlock() {
	if c.open {
		panic("block already open")
	}
	c.height++
	c.now = c.now.Add(6 * time.Second)
	c.app.BeginBlock(abci.RequestBeginBlock{Header: c.header()})
	c.open = true
}

func (c *vChain) endBlock() []byte {
	if !c.open {
		panic("no open block")
	}
	c.app.EndBlock(abci.RequestEndBlock{Height: c.height})
	res := c.app.Commit()
	c.open = false
	c.lastHash = res.Data
	return res.Data
}

// advance positions the chain so that the next tx lands `gap` blocks after
// the previous one (gap 0 = same block).  Returns the app hashes of the
// blocks committed on the way.
func (c *vChain) advance(gap int) [][]byte {
	var hashes [][]byte
	if !c.open {
		c.beginBlock()
		if gap > 0 {
			gap--
		}
	}
	for i := 0; i < gap; i++ {
		hashes = append(hashes, c.endBlock())
		c.beginBlock()
	}
	return hashes
}

// advanceRestarting is advance() with a node restart after the first block
// that gets committed on the way.
func (c *vChain) advanceRestarting(gap int) [][]byte {
	if !c.open || gap == 0 {
		return c.advance(gap)
	}
	hashes := [][]byte{c.endBlock()}
	c.restart()
	c.beginBlock()
	return append(hashes, c.advance(gap-1)...)
}

// ctx reads BaseApp's deliver state (between BeginBlock and Commit).
func (c *vChain) ctx() sdk.Context {
	if !c.open {
		c.beginBlock()
	}
	return c.app.NewContext(false, c.header())
}

// signTx builds and signs a tx; signer is the actor whose key is used, which
// may differ from msg.GetSigners() (wrong-signer probes).  If claim is not
// nil the tx names claim's public key, account number and sequence while
// the signature is still made with signer's key (forged-signature probe).
func (c *vChain) signTx(signer *vActor, claim *vActor, msgs []sdk.Msg) ([]byte, error) {
	ctx := c.ctx()
	who := signer
	if claim != nil {
		who = claim
	}
	acc := c.app.keeper.acct.GetAccount(ctx, who.Addr)
	if acc == nil {
		return nil, fmt.Errorf("no account for %s", who.Name)
	}
	accNum, seq := acc.GetAccountNumber(), acc.GetSequence()

	signMode := c.txcfg.SignModeHandler().DefaultMode()
	sig := signing.SignatureV2{
		PubKey:   who.priv.PubKey(),
		Data:     &signing.SingleSignatureData{SignMode: signMode},
		Sequence: seq,
	}
	b := c.txcfg.NewTxBuilder()
	if err := b.SetMsgs(msgs...); err != nil {
		return nil, err
	}
	if err := b.SetSignatures(sig); err != nil {
		return nil, err
	}
	b.SetMemo("")
	b.SetFeeAmount(sdk.NewCoins())
	b.SetGasLimit(vGas)
	sd := authsign.SignerData{ChainID: vChainID, AccountNumber: accNum, Sequence: seq}
	signBytes, err := c.txcfg.SignModeHandler().GetSignBytes(signMode, sd, b.GetTx())
	if err != nil {
		return nil, err
	}
	sigBytes, err := signer.priv.Sign(signBytes)
	if err != nil {
		return nil, err
	}
	sig.Data.(*signing.SingleSignatureData).Signature = sigBytes
	if err := b.SetSignatures(sig); err != nil {
		return nil, err
	}
	return c.txcfg.TxEncoder()(b.GetTx())
}

func (c *vChain) deliverBytes(bz []byte) abci.ResponseDeliverTx {
	if !c.open {
		c.beginBlock()
	}
	return c.app.DeliverTx(abci.RequestDeliverTx{Tx: bz})
}

// ---------------------------------------------------------------------------
// small utilities

func vSortedKeys(m interface{}) []string {
	var keys []string
	switch mm := m.(type) {
	case map[string]etypes.Account:
		for k := range mm {
			keys = append(keys, k)
		}
	case map[string]etypes.Payment:
		for k := range mm {
			keys = append(keys, k)
		}
	case map[string]dtypes.Deployment:
		for k := range mm {
			keys = append(keys, k)
		}
	case map[string]dtypes.Group:
		for k := range mm {
			keys = append(keys, k)
		}
	case map[string]mtypes.Order:
		for k := range mm {
			keys = append(keys, k)
		}
	case map[string]mtypes.Bid:
		for k := range mm {
			keys = append(keys, k)
		}
	case map[string]mtypes.Lease:
		for k := range mm {
			keys = append(keys, k)
		}
	case map[string]sdk.Int:
		for k := range mm {
			keys = append(keys, k)
		}
	case map[string]bool:
		for k := range mm {
			keys = append(keys, k)
		}
	case map[string]int:
		for k := range mm {
			keys = append(keys, k)
		}
	case map[string]string:
		for k := range mm {
			keys = append(keys, k)
		}
	default:
		panic(fmt.Sprintf("vSortedKeys: unsupported %T", m))
	}
	sort.Strings(keys)
	return keys
}
