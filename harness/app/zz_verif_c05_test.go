//go:build verif
// +build verif

package app

// C05 — money follows lifecycle: market/deployment records and escrow
// records agree.  DESIGN.md §5 C05.  The id mappings between the two worlds
// are re-stated here (vDepAcctKey, vBidAcctKey, vLeasePayKey).

import (
	"fmt"
	"strings"
	"testing"

	sdk "github.com/cosmos/cosmos-sdk/types"

	vs "github.com/ovrclk/akash/verifsupport"
	dtypes "github.com/ovrclk/akash/x/deployment/types"
	etypes "github.com/ovrclk/akash/x/escrow/types"
	mtypes "github.com/ovrclk/akash/x/market/types"
)

type vMonC05 struct {
	res *vs.Result
	// leases touched per block, for the "several actions on one lease in one
	// block" floor
	touched map[string]int
	blockH  int64
}

func (m *vMonC05) agree(h *vHist, s *vSnap, where string) {
	for _, k := range vSortedKeys(s.Leases) {
		l := s.Leases[k]
		p, ok := s.Pays[vLeasePayKey(l.LeaseID)]
		if !ok {
			h.ViolationOnce(k, "lease-has-payment", where, "lease "+k+" has no escrow payment")
			continue
		}
		if (l.State == mtypes.LeaseActive) != (p.State == etypes.PaymentOpen) {
			trig := where + "/lease-" + l.State.String() + "-payment-" + vPayState(p.State)
			h.Violation("lease-active-iff-payment-open", trig,
				fmt.Sprintf("lease %s is %s but its payment stream is %s (balance %s, withdrawn %s)", k, l.State, vPayState(p.State), p.Balance, p.Withdrawn))
		}
		if p.Owner != l.LeaseID.Provider {
			h.ViolationOnce(k, "payment-payee-is-provider", where, fmt.Sprintf("payment of lease %s pays %s", k, p.Owner))
		}
		if !p.Rate.IsEqual(l.Price) {
			h.ViolationOnce(k, "payment-rate-is-lease-price", where, fmt.Sprintf("lease %s price %s, payment rate %s", k, l.Price, p.Rate))
		}
	}
	for _, k := range vSortedKeys(s.Bids) {
		b := s.Bids[k]
		a, ok := s.Accts[vBidAcctKey(b.BidID)]
		if !ok {
			h.ViolationOnce(k, "bid-has-account", where, "bid "+k+" has no escrow account")
			continue
		}
		live := b.State == mtypes.BidOpen || b.State == mtypes.BidActive
		if live != (a.State == etypes.AccountOpen) {
			h.ViolationOnce(k, "bid-live-iff-account-open", where+"/bid-"+b.State.String()+"-account-"+vAcctState(a.State),
				fmt.Sprintf("bid %s is %s but its deposit account is %s (balance %s)", k, b.State, vAcctState(a.State), a.Balance))
		}
		if a.Owner != b.BidID.Provider {
			h.ViolationOnce(k, "bid-account-owner-is-provider", where, fmt.Sprintf("bid %s deposit account owned by %s", k, a.Owner))
		}
	}
	for _, k := range vSortedKeys(s.Deps) {
		d := s.Deps[k]
		a, ok := s.Accts[vDepAcctKey(d.DeploymentID)]
		if !ok {
			h.ViolationOnce(k, "deployment-has-account", where, "deployment "+k+" has no escrow account")
			continue
		}
		if (d.State == dtypes.DeploymentActive) != (a.State == etypes.AccountOpen) {
			h.ViolationOnce(k, "deployment-active-iff-account-open", where+"/deployment-"+d.State.String()+"-account-"+vAcctState(a.State),
				fmt.Sprintf("deployment %s is %s but its escrow account is %s", k, d.State, vAcctState(a.State)))
		}
		if a.Owner != d.DeploymentID.Owner {
			h.ViolationOnce(k, "deployment-account-owner-is-tenant", where, fmt.Sprintf("deployment %s account owned by %s", k, a.Owner))
		}
	}
	// no escrow record without its counterpart
	for _, k := range vSortedKeys(s.Accts) {
		switch {
		case strings.HasPrefix(k, "deployment/"):
			if _, ok := s.Deps[strings.TrimPrefix(k, "deployment/")]; !ok {
				h.ViolationOnce(k, "account-has-deployment", where, "escrow account "+k+" has no deployment")
			}
		case strings.HasPrefix(k, "bid/"):
			if _, ok := s.Bids[strings.TrimPrefix(k, "bid/")]; !ok {
				h.ViolationOnce(k, "account-has-bid", where, "escrow account "+k+" has no bid")
			}
		default:
			h.ViolationOnce(k, "account-scope-known", where, "escrow account "+k+" has an unknown scope")
		}
	}
	for _, k := range vSortedKeys(s.Pays) {
		if !strings.HasPrefix(k, "deployment/") {
			h.ViolationOnce(k, "payment-scope-known", where, "escrow payment "+k+" has an unknown scope")
			continue
		}
		if _, ok := s.Leases[strings.TrimPrefix(k, "deployment/")]; !ok {
			h.ViolationOnce(k, "payment-has-lease", where, "escrow payment "+k+" has no lease")
		}
	}
}

func (m *vMonC05) AfterTx(h *vHist, o *vTxObs) {
	pre, post := o.Pre, o.Post
	if o.PreFresh {
		m.agree(h, pre, "between-blocks")
	}
	kind := vKindOf(o)
	m.agree(h, post, "after:"+kind)
	tr := vTransitions(pre, post)

	if m.blockH != o.Height {
		m.blockH = o.Height
		m.touched = map[string]int{}
	}
	if o.OK {
		for _, msg := range o.Msgs {
			var lid *mtypes.LeaseID
			switch mm := msg.(type) {
			case *mtypes.MsgCreateLease:
				x := mm.BidID.LeaseID()
				lid = &x
			case *mtypes.MsgWithdrawLease:
				lid = &mm.LeaseID
			case *mtypes.MsgCloseLease:
				lid = &mm.LeaseID
			case *mtypes.MsgCloseBid:
				x := mm.BidID.LeaseID()
				lid = &x
			}
			if lid != nil {
				k := vBidKey(lid.BidID())
				m.touched[k]++
				if m.touched[k] >= 2 {
					m.res.Count("several_actions_on_one_lease_in_one_block", 1)
				}
			}
		}
	}

	// returned exactly when the bid / deployment ends: while live the bid
	// deposit stays whole; at the end the owner's bank balance rises by the
	// remaining balance (checked when that is the owner's only record moving
	// in this tx, which keeps the attribution unambiguous).
	moved := map[string]int{} // owner -> number of own escrow records that changed
	for _, k := range vSortedKeys(post.Accts) {
		n := post.Accts[k]
		if p, ok := pre.Accts[k]; !ok || !p.Balance.IsEqual(n.Balance) || !p.Transferred.IsEqual(n.Transferred) || p.State != n.State {
			moved[n.Owner]++
		}
	}
	for _, k := range vSortedKeys(post.Pays) {
		n := post.Pays[k]
		if p, ok := pre.Pays[k]; !ok || !p.Withdrawn.IsEqual(n.Withdrawn) {
			moved[n.Owner]++
		}
	}
	for _, k := range vSortedKeys(pre.Bids) {
		b := pre.Bids[k]
		nb := post.Bids[k]
		wasLive := b.State == mtypes.BidOpen || b.State == mtypes.BidActive
		isLive := nb.State == mtypes.BidOpen || nb.State == mtypes.BidActive
		pa, ok1 := pre.Accts[vBidAcctKey(b.BidID)]
		na, ok2 := post.Accts[vBidAcctKey(b.BidID)]
		if !ok1 || !ok2 {
			continue
		}
		if wasLive && isLive && !pa.Balance.IsEqual(na.Balance) {
			h.Violation("bid-deposit-whole-while-live", kind, fmt.Sprintf("bid %s still %s but deposit went %s -> %s", k, nb.State, pa.Balance, na.Balance))
		}
		if wasLive && !isLive {
			if nb.State == mtypes.BidLost {
				m.res.Count("bid_lost", 1)
			}
			if b.State == mtypes.BidActive {
				m.res.Count("bid_closed_while_matched", 1)
			}
			if moved[pa.Owner] == 1 && pa.State == etypes.AccountOpen && len(o.Msgs) == 1 {
				got := post.Bank[pa.Owner].Sub(pre.Bank[pa.Owner])
				if !got.Equal(pa.Balance.Amount) {
					h.Violation("bid-deposit-returned-when-bid-ends", kind+"/bid-"+nb.State.String(),
						fmt.Sprintf("bid %s went %s -> %s; provider's balance moved by %s, deposit was %s", k, b.State, nb.State, got, pa.Balance.Amount))
				}
				m.res.Count("bid_refund_checked", 1)
			}
		}
	}
	for _, k := range vSortedKeys(pre.Deps) {
		d := pre.Deps[k]
		nd := post.Deps[k]
		if d.State != dtypes.DeploymentActive || nd.State != dtypes.DeploymentClosed {
			continue
		}
		pa, ok1 := pre.Accts[vDepAcctKey(d.DeploymentID)]
		na, ok2 := post.Accts[vDepAcctKey(d.DeploymentID)]
		if !ok1 || !ok2 || pa.State != etypes.AccountOpen {
			continue
		}
		if moved[pa.Owner] == 1 && na.State == etypes.AccountClosed && len(o.Msgs) == 1 {
			// unspent = balance before minus what this tx's settlement moved to payees
			unspent := pa.Balance.Amount.Sub(na.Transferred.Amount.Sub(pa.Transferred.Amount))
			got := post.Bank[pa.Owner].Sub(pre.Bank[pa.Owner])
			if !got.Equal(unspent) {
				h.Violation("unspent-deposit-returned-when-deployment-ends", kind,
					fmt.Sprintf("deployment %s closed; tenant's balance moved by %s, unspent deposit was %s", k, got, unspent))
			}
			m.res.Count("deployment_refund_checked", 1)
		}
	}
	// a tenant stops paying the moment a lease ends: a payment of a
	// non-active lease never gains anything
	for _, k := range vSortedKeys(pre.Leases) {
		l := pre.Leases[k]
		if l.State == mtypes.LeaseActive {
			continue
		}
		pp, ok1 := pre.Pays[vLeasePayKey(l.LeaseID)]
		np, ok2 := post.Pays[vLeasePayKey(l.LeaseID)]
		if ok1 && ok2 {
			a, b := pp.Balance.Amount.Add(pp.Withdrawn.Amount), np.Balance.Amount.Add(np.Withdrawn.Amount)
			if !a.Equal(b) {
				h.Violation("ended-lease-earns-nothing", kind, fmt.Sprintf("lease %s is %s but its payee's credit went %s -> %s", k, l.State, a, b))
			}
		}
	}

	if len(tr) > 0 && (vHasPrefix(tr, "acct:") || vHasPrefix(tr, "pay:") || vHasPrefix(tr, "lease:") || vHasPrefix(tr, "bid:") || vHasPrefix(tr, "dep:")) {
		m.res.Distinct(vShape(o, tr))
	}
	_ = sdk.ZeroInt
}

func (m *vMonC05) End(h *vHist) {}

func TestVerif_C05(t *testing.T) {
	res := vs.NewResult("C05", "exploration",
		"signed-tx histories against the real app; after every tx the decoded market/deployment stores are joined with the escrow store through the re-stated id mappings: lease active <=> payment open, bid open/matched <=> deposit account open, deployment active <=> account open, no orphan on either side; deposits returned exactly when bid/deployment ends; ended leases earn nothing. distinct = (message kind, result, gap class, transition kinds) of txs changing a lifecycle or escrow state")
	res.Assume("chain driven at the ABCI boundary without Tendermint; zero fees")
	for _, f := range []string{"several_actions_on_one_lease_in_one_block", "bid_lost", "bid_closed_while_matched", "bid_refund_checked", "deployment_refund_checked"} {
		res.Floor(f, 1)
	}
	vRunChainCheck(t, res, vChainOpts{Histories: [2]int{160, 6000}, Templates: 3, RandomSteps: 60,
		Tune: func(g *vGen) {
			g.W["close-lease"] = 8
			g.W["withdraw-lease"] = 11
			g.W["close-bid"] = 7
		},
	}, func() []vMonitor {
		return []vMonitor{&vMonC05{res: res}}
	})
}
