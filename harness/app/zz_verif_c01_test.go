//go:build verif
// +build verif

package app

// C01 — escrow conserves funds.  DESIGN.md §5 C01.

import (
	"fmt"
	"testing"

	sdk "github.com/cosmos/cosmos-sdk/types"
	banktypes "github.com/cosmos/cosmos-sdk/x/bank/types"

	vs "github.com/ovrclk/akash/verifsupport"
	dtypes "github.com/ovrclk/akash/x/deployment/types"
	etypes "github.com/ovrclk/akash/x/escrow/types"
	mtypes "github.com/ovrclk/akash/x/market/types"
)

type vMonC01 struct {
	res *vs.Result
}

func (m *vMonC01) checkEquality(h *vHist, s *vSnap, where string) {
	sum := sdk.ZeroInt()
	for _, k := range vSortedKeys(s.Accts) {
		a := s.Accts[k]
		if a.Balance.Denom != vDenom {
			h.Violation("record-denom", where, fmt.Sprintf("account %s balance in %s", k, a.Balance.Denom))
		}
		sum = sum.Add(a.Balance.Amount)
	}
	for _, k := range vSortedKeys(s.Pays) {
		p := s.Pays[k]
		sum = sum.Add(p.Balance.Amount)
	}
	if !sum.Equal(s.moduleBal()) {
		h.Violation("module-balance-equals-recorded", where,
			fmt.Sprintf("escrow module holds %s uakt but recorded balances sum to %s (height %d)", s.moduleBal(), sum, s.Height))
	}
	for _, c := range s.ModuleCoins {
		if c.Denom != vDenom && !c.Amount.IsZero() {
			h.Violation("module-foreign-denom", where, fmt.Sprintf("escrow module holds %s", c))
		}
	}
}

func (m *vMonC01) AfterTx(h *vHist, o *vTxObs) {
	pre, post := o.Pre, o.Post
	if o.PreFresh {
		m.checkEquality(h, pre, "between-blocks")
	}
	m.checkEquality(h, post, "after-tx")

	tr := vTransitions(pre, post)
	kind := vKindOf(o)

	// expected bank deltas per actor from record deltas only
	exp := map[string]sdk.Int{}
	add := func(owner string, d sdk.Int) {
		if cur, ok := exp[owner]; ok {
			exp[owner] = cur.Add(d)
		} else {
			exp[owner] = d
		}
	}
	grew := []string{} // accounts whose Balance+Transferred grew (inflow)
	for _, k := range vSortedKeys(post.Accts) {
		n := post.Accts[k]
		tot := n.Balance.Amount.Add(n.Transferred.Amount)
		old := sdk.ZeroInt()
		if p, ok := pre.Accts[k]; ok {
			old = p.Balance.Amount.Add(p.Transferred.Amount)
			if p.Owner != n.Owner {
				h.Violation("account-owner-changed", kind, fmt.Sprintf("account %s owner %s -> %s", k, p.Owner, n.Owner))
			}
		}
		d := tot.Sub(old)
		if !d.IsZero() {
			add(n.Owner, d.Neg())
			if d.IsPositive() {
				grew = append(grew, k)
			}
		}
	}
	for _, k := range vSortedKeys(pre.Accts) {
		if _, ok := post.Accts[k]; !ok {
			h.Violation("account-record-removed", kind, "escrow account "+k+" disappeared")
		}
	}
	for _, k := range vSortedKeys(post.Pays) {
		n := post.Pays[k]
		old := sdk.ZeroInt()
		if p, ok := pre.Pays[k]; ok {
			old = p.Withdrawn.Amount
			if p.Owner != n.Owner {
				h.Violation("payment-owner-changed", kind, fmt.Sprintf("payment %s owner %s -> %s", k, p.Owner, n.Owner))
			}
		}
		d := n.Withdrawn.Amount.Sub(old)
		if d.IsNegative() {
			h.Violation("withdrawn-decreased", kind, fmt.Sprintf("payment %s withdrawn %s -> %s", k, old, n.Withdrawn.Amount))
		}
		if !d.IsZero() {
			add(n.Owner, d)
		}
	}
	for _, k := range vSortedKeys(pre.Pays) {
		if _, ok := post.Pays[k]; !ok {
			h.Violation("payment-record-removed", kind, "escrow payment "+k+" disappeared")
		}
	}
	// workload bank sends
	sendToModule := false
	if o.OK {
		for _, msg := range o.Msgs {
			if s, ok := msg.(*banktypes.MsgSend); ok {
				amt := s.Amount.AmountOf(vDenom)
				add(s.FromAddress, amt.Neg())
				add(s.ToAddress, amt)
			}
		}
	}
	for _, msg := range o.Msgs {
		if s, ok := msg.(*banktypes.MsgSend); ok && s.ToAddress == h.c.escrowAddr.String() {
			sendToModule = true
		}
	}
	if sendToModule {
		m.res.Count("bank_send_to_escrow_module", 1)
		if o.OK {
			h.Violation("send-to-module-blocked", "", "a bank MsgSend to the escrow module account succeeded")
		}
	}

	total := sdk.ZeroInt()
	for _, a := range h.c.actors {
		d := post.Bank[a.Bech].Sub(pre.Bank[a.Bech])
		total = total.Add(d)
		want, ok := exp[a.Bech]
		if !ok {
			want = sdk.ZeroInt()
		}
		if !d.Equal(want) {
			h.Violation("flow-attribution", kind,
				fmt.Sprintf("%s: bank balance of %s moved by %s, escrow records explain %s (tx ok=%v, transitions %v)", kind, a.Name, d, want, o.OK, tr))
		}
		if d.IsNegative() && a != o.Signer {
			h.Violation("only-signer-pays", kind, fmt.Sprintf("%s signed by %s lowered the balance of %s by %s", kind, o.Signer.Name, a.Name, d.Neg()))
		}
		if !post.BankOther[a.Bech].Equal(pre.BankOther[a.Bech]) {
			h.Violation("foreign-denom-moved", kind, fmt.Sprintf("uother balance of %s changed", a.Name))
		}
	}
	dm := post.moduleBal().Sub(pre.moduleBal())
	if !sendToModule || !o.OK {
		if !total.Add(dm).IsZero() {
			h.Violation("closed-system", kind, fmt.Sprintf("actors' balances moved by %s in total, module by %s", total, dm))
		}
	}

	// entry rule: inflows only through the three depositing messages, by
	// exactly the declared amount into exactly the named account.
	if !o.OK {
		if same, what := vStateUnchanged(pre, post); !same {
			h.Violation("failed-tx-no-effect", kind, "failed tx changed state: "+what)
		}
		for _, msg := range o.Msgs {
			switch msg.(type) {
			case *dtypes.MsgCreateDeployment, *dtypes.MsgDepositDeployment, *mtypes.MsgCreateBid:
				m.res.Count("failed_tx_with_attempted_deposit", 1)
			}
		}
	} else if len(o.Msgs) == 1 {
		wantKey, wantAmt := "", sdk.ZeroInt()
		switch msg := o.Msgs[0].(type) {
		case *dtypes.MsgCreateDeployment:
			wantKey, wantAmt = vDepAcctKey(msg.ID), msg.Deposit.Amount
		case *dtypes.MsgDepositDeployment:
			wantKey, wantAmt = vDepAcctKey(msg.ID), msg.Amount.Amount
		case *mtypes.MsgCreateBid:
			prov, _ := sdk.AccAddressFromBech32(msg.Provider)
			wantKey, wantAmt = vBidAcctKey(mtypes.MakeBidID(msg.Order, prov)), msg.Deposit.Amount
		}
		for _, k := range grew {
			if k != wantKey {
				h.Violation("inflow-only-into-named-account", kind, fmt.Sprintf("%s raised the deposits of account %s (message names %q)", kind, k, wantKey))
			}
		}
		if wantKey != "" {
			n, ok := post.Accts[wantKey]
			got := sdk.ZeroInt()
			if ok {
				got = n.Balance.Amount.Add(n.Transferred.Amount)
				if p, ok2 := pre.Accts[wantKey]; ok2 {
					got = got.Sub(p.Balance.Amount.Add(p.Transferred.Amount))
				}
			}
			if !got.Equal(wantAmt) {
				h.Violation("deposit-exact", kind, fmt.Sprintf("%s declared %s but account %s received %s", kind, wantAmt, wantKey, got))
			}
			if ok && n.Owner != o.Signer.Bech && o.RightSigner {
				h.Violation("depositor-is-owner", kind, fmt.Sprintf("account %s owned by %s, deposit debited from %s", wantKey, n.Owner, o.Signer.Bech))
			}
		}
	}

	// coverage
	nontrivial := false
	if vHas(tr, "acct:deployment:open->closed") && o.OK {
		for _, k := range vSortedKeys(post.Accts) {
			n := post.Accts[k]
			if p, ok := pre.Accts[k]; ok && p.State == etypes.AccountOpen && n.State == etypes.AccountClosed && n.ID.Scope == "deployment" && post.Bank[n.Owner].GT(pre.Bank[n.Owner]) {
				m.res.Count("refund_on_close", 1)
			}
		}
		nontrivial = true
	}
	if vHas(tr, "acct:deployment:open->overdrawn") {
		m.res.Count("overdraft_payout", 1)
		nontrivial = true
	}
	if vHas(tr, "pay:withdrawn") {
		m.res.Count("withdraw_or_payout", 1)
		nontrivial = true
	}
	if vHas(tr, "bid:open->lost") && vHas(tr, "acct:bid:open->closed") {
		m.res.Count("lost_bid_refund", 1)
		nontrivial = true
	}
	if o.Gap == 0 && o.OK && (vHas(tr, "pay:withdrawn") || vHasPrefix(tr, "acct:deployment:open->") || vHasPrefix(tr, "pay:open->")) {
		m.res.Count("same_block_settle", 1)
	}
	if len(grew) > 0 {
		nontrivial = true
	}
	if nontrivial {
		m.res.Distinct(vShape(o, tr))
	}
}

// End: the state the history ended in is exported and a new chain is started
// from it (the path of `akash export` + a genesis-based restart).  Bank and
// escrow are both carried by the genesis file in full, so the new chain must
// start with the module balance equal to its recorded balances, every escrow
// record and every actor's balance as it was.
func (m *vMonC01) End(h *vHist) {
	if h.stopped || len(h.last.Accts) == 0 {
		return
	}
	before := h.last
	c2, err := h.c.exportImport()
	if err != nil {
		m.res.Count("export_import_not_possible", 1)
		return
	}
	after := c2.snapshot()
	m.res.Count("export_import_round_trips", 1)
	if len(before.Accts)+len(before.Pays) >= 3 {
		m.res.Count("export_import_with_3plus_escrow_records", 1)
	}
	m.checkEquality(h, after, "after-export-import")
	diff := ""
	for _, k := range vSortedKeys(before.Accts) {
		b, a := before.Accts[k], after.Accts[k]
		if !b.Balance.IsEqual(a.Balance) || !b.Transferred.IsEqual(a.Transferred) || b.State != a.State || b.Owner != a.Owner {
			diff = fmt.Sprintf("account %s: %s/%s/%s before, %s/%s/%s after", k, vAcctState(b.State), b.Balance, b.Transferred, vAcctState(a.State), a.Balance, a.Transferred)
			break
		}
	}
	for _, k := range vSortedKeys(before.Pays) {
		b, a := before.Pays[k], after.Pays[k]
		if diff == "" && (!b.Balance.IsEqual(a.Balance) || !b.Withdrawn.IsEqual(a.Withdrawn) || !b.Rate.IsEqual(a.Rate) || b.State != a.State || b.Owner != a.Owner) {
			diff = fmt.Sprintf("payment %s: %s/%s/%s/%s before, %s/%s/%s/%s after", k, vPayState(b.State), b.Rate, b.Balance, b.Withdrawn, vPayState(a.State), a.Rate, a.Balance, a.Withdrawn)
		}
	}
	if diff == "" && (len(before.Accts) != len(after.Accts) || len(before.Pays) != len(after.Pays)) {
		diff = fmt.Sprintf("%d accounts / %d payments before, %d / %d after", len(before.Accts), len(before.Pays), len(after.Accts), len(after.Pays))
	}
	if diff != "" {
		h.Violation("escrow-records-survive-export-import", "export-import", diff)
	}
	for _, a := range h.c.actors {
		if !before.Bank[a.Bech].Equal(after.Bank[a.Bech]) {
			h.Violation("bank-balances-survive-export-import", "export-import", fmt.Sprintf("%s held %s before and %s after", a.Name, before.Bank[a.Bech], after.Bank[a.Bech]))
			break
		}
	}
}

func TestVerif_C01(t *testing.T) {
	res := vs.NewResult("C01", "exploration",
		"signed-tx histories (templates + state-aware random steps over all 20 message types, gaps 0..20, two money profiles) against the real app; after every tx: module balance == sum of recorded balances, per-actor bank delta == delta explained by escrow records, inflow only via the three depositing messages. distinct = (message kind, result, gap class, set of transition kinds) of txs that moved coins or changed escrow state")
	res.Assume("chain driven at the ABCI boundary (BeginBlock/DeliverTx/EndBlock/Commit) without Tendermint; zero fees")
	res.Assume("bank, auth and the ante handler are the production cosmos-sdk ones; actors are 9 funded secp256k1 accounts")
	for _, f := range []string{"refund_on_close", "overdraft_payout", "withdraw_or_payout", "lost_bid_refund", "same_block_settle", "failed_tx_with_attempted_deposit", "bank_send_to_escrow_module", "export_import_round_trips", "export_import_with_3plus_escrow_records"} {
		res.Floor(f, 1)
	}
	vRunChainCheck(t, res, vChainOpts{Histories: [2]int{150, 6000}, Templates: 2, RandomSteps: 60}, func() []vMonitor {
		return []vMonitor{&vMonC01{res: res}}
	})
}
