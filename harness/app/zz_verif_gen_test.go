//go:build verif
// +build verif

package app

// Workload generator for the chain engine: message constructors, a
// state-aware random step chooser over all message types, and the directed
// scenario templates that guarantee the coverage floors (DESIGN.md §4.1).

import (
	"crypto/ecdsa"
	"crypto/elliptic"
	"crypto/x509"
	"crypto/x509/pkix"
	"encoding/pem"
	"fmt"
	"math/big"
	"sort"
	"time"

	sdk "github.com/cosmos/cosmos-sdk/types"
	banktypes "github.com/cosmos/cosmos-sdk/x/bank/types"

	"github.com/ovrclk/akash/types"
	"github.com/ovrclk/akash/types/unit"
	vs "github.com/ovrclk/akash/verifsupport"
	atypes "github.com/ovrclk/akash/x/audit/types"
	ctypes "github.com/ovrclk/akash/x/cert/types"
	dtypes "github.com/ovrclk/akash/x/deployment/types"
	mtypes "github.com/ovrclk/akash/x/market/types"
	ptypes "github.com/ovrclk/akash/x/provider/types"
)

// dseq values that are prefixes of one another in decimal (escrow string
// keys) and in big-endian binary (market / deployment keys).
// 255 / 65535 / 2^32-1 / 2^64-1: the low bytes are 0xff, so a hand-made
// "end of prefix" key that mishandles the carry reaches their neighbours
// (256, 300, 65536, 2^32).
var vDSeqPool = []uint64{1, 12, 123, 255, 256, 257, 300, 65535, 65536, 65537, 1<<32 - 1, 1 << 32, 1<<32 + 1, 1 << 63, 1<<64 - 1}

var vAttrKeys = []string{"region", "tier", "arch"}

// the empty value is legal and must be matched like any other (a map lookup without the
// comma-ok form treats "key missing" as "value empty")
var vAttrVals = []string{"a", "b", ""}

func vCoin(n int64) sdk.Coin { return sdk.NewInt64Coin(vDenom, n) }

func vUnits(cpu, memMi, stoMi uint64) types.ResourceUnits {
	return types.ResourceUnits{
		CPU:     &types.CPU{Units: types.NewResourceValue(cpu)},
		Memory:  &types.Memory{Quantity: types.NewResourceValue(memMi * unit.Mi)},
		Storage: &types.Storage{Quantity: types.NewResourceValue(stoMi * unit.Mi)},
	}
}

type vUnitSpec struct {
	Price int64
	Count uint32
}

func vGroupSpec(name string, req types.PlacementRequirements, units ...vUnitSpec) dtypes.GroupSpec {
	g := dtypes.GroupSpec{Name: name, Requirements: req}
	for i, u := range units {
		g.Resources = append(g.Resources, dtypes.Resource{
			Resources: vUnits(uint64(100+10*i), uint64(16+i), uint64(8+i)),
			Count:     u.Count,
			Price:     vCoin(u.Price),
		})
	}
	return g
}

func vVersion(r *vs.Rand) []byte { return r.Bytes(32) }

func vRandAttrs(r *vs.Rand, max int) types.Attributes {
	n := r.Intn(max + 1)
	perm := r.Perm(len(vAttrKeys))
	var out types.Attributes
	for i := 0; i < n && i < len(perm); i++ {
		out = append(out, types.Attribute{Key: vAttrKeys[perm[i]], Value: vAttrVals[r.Intn(len(vAttrVals))]})
	}
	sort.Slice(out, func(i, j int) bool { return out[i].Key < out[j].Key })
	return out
}

// ---------------------------------------------------------------------------
// deterministic certificates (EC P-256, CN = owner)

type vZeroReader struct{}

func (vZeroReader) Read(p []byte) (int, error) {
	for i := range p {
		p[i] = 0
	}
	return len(p), nil
}

func vECKey(seed uint64) *ecdsa.PrivateKey {
	r := vs.NewRand(int64(seed), 0xC0FFEE)
	curve := elliptic.P256()
	d := new(big.Int).SetBytes(r.Bytes(32))
	n1 := new(big.Int).Sub(curve.Params().N, big.NewInt(1))
	d.Mod(d, n1)
	d.Add(d, big.NewInt(1))
	priv := &ecdsa.PrivateKey{D: d}
	priv.PublicKey.Curve = curve
	priv.PublicKey.X, priv.PublicKey.Y = curve.ScalarBaseMult(d.Bytes())
	return priv
}

func vMakeCert(cn string, serial *big.Int, key *ecdsa.PrivateKey, nb, na time.Time) (certPEM, pubPEM []byte, err error) {
	tmpl := x509.Certificate{
		SerialNumber:          serial,
		Subject:               pkix.Name{CommonName: cn},
		Issuer:                pkix.Name{CommonName: cn},
		NotBefore:             nb,
		NotAfter:              na,
		KeyUsage:              x509.KeyUsageDataEncipherment | x509.KeyUsageKeyEncipherment,
		ExtKeyUsage:           []x509.ExtKeyUsage{x509.ExtKeyUsageClientAuth},
		BasicConstraintsValid: true,
	}
	der, err := x509.CreateCertificate(vZeroReader{}, &tmpl, &tmpl, key.Public(), key)
	if err != nil {
		return nil, nil, err
	}
	pub, err := x509.MarshalPKIXPublicKey(key.Public())
	if err != nil {
		return nil, nil, err
	}
	return pem.EncodeToMemory(&pem.Block{Type: ctypes.PemBlkTypeCertificate, Bytes: der}),
		pem.EncodeToMemory(&pem.Block{Type: ctypes.PemBlkTypeECPublicKey, Bytes: pub}), nil
}

// ---------------------------------------------------------------------------
// views of the last snapshot used to aim messages at live objects

type vView struct {
	s *vSnap
}

func (v vView) deps(pred func(dtypes.Deployment) bool) []dtypes.Deployment {
	var out []dtypes.Deployment
	for _, k := range vSortedKeys(v.s.Deps) {
		if d := v.s.Deps[k]; pred == nil || pred(d) {
			out = append(out, d)
		}
	}
	return out
}
func (v vView) groups(pred func(dtypes.Group) bool) []dtypes.Group {
	var out []dtypes.Group
	for _, k := range vSortedKeys(v.s.Groups) {
		if g := v.s.Groups[k]; pred == nil || pred(g) {
			out = append(out, g)
		}
	}
	return out
}
func (v vView) orders(pred func(mtypes.Order) bool) []mtypes.Order {
	var out []mtypes.Order
	for _, k := range vSortedKeys(v.s.Orders) {
		if o := v.s.Orders[k]; pred == nil || pred(o) {
			out = append(out, o)
		}
	}
	return out
}
func (v vView) bids(pred func(mtypes.Bid) bool) []mtypes.Bid {
	var out []mtypes.Bid
	for _, k := range vSortedKeys(v.s.Bids) {
		if b := v.s.Bids[k]; pred == nil || pred(b) {
			out = append(out, b)
		}
	}
	return out
}
func (v vView) leases(pred func(mtypes.Lease) bool) []mtypes.Lease {
	var out []mtypes.Lease
	for _, k := range vSortedKeys(v.s.Leases) {
		if l := v.s.Leases[k]; pred == nil || pred(l) {
			out = append(out, l)
		}
	}
	return out
}

// ---------------------------------------------------------------------------
// random step

type vGenStep struct {
	Signer *vActor
	Msgs   []sdk.Msg
	Note   string
	Kind   string
}

type vGen struct {
	h *vHist
	r *vs.Rand
	// certificate serials used per owner (for revoke targets)
	certs   map[string][]*big.Int
	certSeq uint64
	// weights may be tuned per property
	W map[string]int
	// WrongSigner: probability (num/den) that a random step is signed by
	// somebody else
	WrongSigner [2]int
	// AtEnd runs after the random steps, AtStart before the templates
	AtEnd   func(g *vGen)
	AtStart func(g *vGen)
	// ForceTemplate is always run first in histories with an even index
	ForceTemplate string
}

var vKinds = []string{
	"create-deployment", "deposit-deployment", "update-deployment", "close-deployment",
	"close-group", "pause-group", "start-group",
	"create-bid", "close-bid", "create-lease", "withdraw-lease", "close-lease",
	"create-provider", "update-provider", "delete-provider",
	"sign-attrs", "delete-attrs", "create-cert", "revoke-cert", "bank-send",
}

func vDefaultWeights() map[string]int {
	return map[string]int{
		"create-deployment": 10, "deposit-deployment": 4, "update-deployment": 3, "close-deployment": 4,
		"close-group": 3, "pause-group": 4, "start-group": 4,
		"create-bid": 16, "close-bid": 5, "create-lease": 12, "withdraw-lease": 9, "close-lease": 5,
		"create-provider": 3, "update-provider": 3, "delete-provider": 1,
		"sign-attrs": 4, "delete-attrs": 2, "create-cert": 2, "revoke-cert": 1, "bank-send": 2,
	}
}

func vNewGen(h *vHist) *vGen {
	return &vGen{h: h, r: h.rng, certs: map[string][]*big.Int{}, W: vDefaultWeights(), WrongSigner: [2]int{1, 14}}
}

func (g *vGen) anyActor() *vActor { return g.h.c.actors[g.r.Intn(len(g.h.c.actors))] }

func (g *vGen) tenant() *vActor {
	if g.r.Chance(1, 10) {
		return g.anyActor()
	}
	ts := g.h.roleActors("tenant")
	return ts[g.r.Intn(len(ts))]
}

func (g *vGen) providerActor() *vActor {
	if g.r.Chance(1, 12) {
		return g.anyActor()
	}
	ps := g.h.roleActors("provider")
	return ps[g.r.Intn(len(ps))]
}

func (g *vGen) auditor() *vActor {
	if g.r.Chance(1, 12) {
		return g.anyActor()
	}
	as := g.h.roleActors("auditor")
	return as[g.r.Intn(len(as))]
}

func (g *vGen) otherThan(a *vActor) *vActor {
	for {
		b := g.anyActor()
		if b != a {
			return b
		}
	}
}

func (g *vGen) actorOf(bech string) *vActor {
	if a, ok := g.h.c.byAddr[bech]; ok {
		return a
	}
	return g.anyActor()
}

func (g *vGen) unitPrice() int64 {
	if g.h.c.profile.Name == "small" {
		return int64(g.r.Range(1, 7))
	}
	switch g.r.Intn(4) {
	case 0:
		return int64(g.r.Range(1, 50))
	case 1:
		return int64(g.r.Range(100, 5000))
	case 2:
		return int64(g.r.Range(400000, 3000000))
	default:
		return 10000000 - int64(g.r.Intn(3))
	}
}

func (g *vGen) requirements() types.PlacementRequirements {
	req := types.PlacementRequirements{}
	if g.r.Chance(1, 2) {
		req.Attributes = vRandAttrs(g.r, 2)
	}
	if g.r.Chance(1, 3) {
		auds := g.h.roleActors("auditor")
		pick := func() []string {
			var out []string
			n := g.r.Range(0, 2)
			for i := 0; i < n; i++ {
				out = append(out, auds[g.r.Intn(len(auds))].Bech)
			}
			return out
		}
		req.SignedBy.AllOf = pick()
		req.SignedBy.AnyOf = pick()
	}
	return req
}

func (g *vGen) deposit(min int64) sdk.Coin {
	switch g.r.Intn(10) {
	case 0:
		return vCoin(min - 1)
	case 1:
		return sdk.NewInt64Coin("uother", min)
	case 2, 3:
		return vCoin(min * int64(g.r.Range(2, 5)))
	case 4:
		return vCoin(min + int64(g.r.Range(1, 100)))
	default:
		return vCoin(min)
	}
}

func (g *vGen) createDeployment() vGenStep {
	t := g.tenant()
	used := map[uint64]bool{}
	for _, d := range (vView{g.h.last}).deps(nil) {
		if d.DeploymentID.Owner == t.Bech {
			used[d.DeploymentID.DSeq] = true
		}
	}
	var dseq uint64
	for tries := 0; tries < 20; tries++ {
		dseq = vDSeqPool[g.r.Intn(len(vDSeqPool))]
		if !used[dseq] || g.r.Chance(1, 8) {
			break
		}
	}
	ng := g.r.Pick([]int{5, 3, 2}) + 1
	var groups []dtypes.GroupSpec
	for i := 0; i < ng; i++ {
		nu := g.r.Pick([]int{6, 3, 1}) + 1
		var us []vUnitSpec
		for j := 0; j < nu; j++ {
			us = append(us, vUnitSpec{Price: g.unitPrice(), Count: uint32(g.r.Range(1, 3))})
		}
		groups = append(groups, vGroupSpec(fmt.Sprintf("g%d", i+1), g.requirements(), us...))
	}
	msg := &dtypes.MsgCreateDeployment{
		ID:      dtypes.DeploymentID{Owner: t.Bech, DSeq: dseq},
		Groups:  groups,
		Version: vVersion(g.r),
		Deposit: g.deposit(g.h.c.profile.DepMinDeposit),
	}
	return vGenStep{Signer: t, Msgs: []sdk.Msg{msg}, Kind: "create-deployment"}
}

func (g *vGen) pickDep(live bool) (dtypes.DeploymentID, bool) {
	v := vView{g.h.last}
	ds := v.deps(func(d dtypes.Deployment) bool { return !live || d.State == dtypes.DeploymentActive })
	if len(ds) == 0 {
		t := g.tenant()
		return dtypes.DeploymentID{Owner: t.Bech, DSeq: vDSeqPool[g.r.Intn(len(vDSeqPool))]}, false
	}
	return ds[g.r.Intn(len(ds))].DeploymentID, true
}

func (g *vGen) pickGroup(states ...dtypes.Group_State) (dtypes.GroupID, bool) {
	v := vView{g.h.last}
	gs := v.groups(func(x dtypes.Group) bool {
		if len(states) == 0 {
			return true
		}
		for _, s := range states {
			if x.State == s {
				return true
			}
		}
		return false
	})
	if len(gs) == 0 {
		id, _ := g.pickDep(false)
		return dtypes.GroupID{Owner: id.Owner, DSeq: id.DSeq, GSeq: uint32(g.r.Range(1, 3))}, false
	}
	return gs[g.r.Intn(len(gs))].GroupID, true
}

func (g *vGen) live() bool { return g.r.Chance(3, 4) }

func (g *vGen) step(kind string) vGenStep {
	v := vView{g.h.last}
	r := g.r
	switch kind {
	case "create-deployment":
		return g.createDeployment()
	case "deposit-deployment":
		id, _ := g.pickDep(g.live())
		amt := vCoin(int64(r.Range(1, 200)))
		if g.h.c.profile.Name != "small" && r.Bool() {
			amt = vCoin(int64(r.Range(1, 5)) * 1000000)
		}
		if r.Chance(1, 12) {
			amt = sdk.NewInt64Coin("uother", 5)
		}
		if r.Chance(1, 20) {
			amt = vCoin(0)
		}
		return vGenStep{Signer: g.actorOf(id.Owner), Msgs: []sdk.Msg{&dtypes.MsgDepositDeployment{ID: id, Amount: amt}}, Kind: kind}
	case "update-deployment":
		id, _ := g.pickDep(g.live())
		ver := vVersion(r)
		if d, ok := g.h.last.Deps[vDepKey(id)]; ok && r.Chance(1, 4) {
			ver = d.Version // identical version
		}
		if r.Chance(1, 15) {
			ver = ver[:31]
		}
		return vGenStep{Signer: g.actorOf(id.Owner), Msgs: []sdk.Msg{&dtypes.MsgUpdateDeployment{ID: id, Version: ver}}, Kind: kind}
	case "close-deployment":
		id, _ := g.pickDep(g.live())
		return vGenStep{Signer: g.actorOf(id.Owner), Msgs: []sdk.Msg{&dtypes.MsgCloseDeployment{ID: id}}, Kind: kind}
	case "close-group":
		var id dtypes.GroupID
		if g.live() {
			id, _ = g.pickGroup(dtypes.GroupOpen, dtypes.GroupPaused, dtypes.GroupInsufficientFunds)
		} else {
			id, _ = g.pickGroup()
		}
		return vGenStep{Signer: g.actorOf(id.Owner), Msgs: []sdk.Msg{&dtypes.MsgCloseGroup{ID: id}}, Kind: kind}
	case "pause-group":
		var id dtypes.GroupID
		if g.live() {
			id, _ = g.pickGroup(dtypes.GroupOpen, dtypes.GroupInsufficientFunds)
		} else {
			id, _ = g.pickGroup()
		}
		return vGenStep{Signer: g.actorOf(id.Owner), Msgs: []sdk.Msg{&dtypes.MsgPauseGroup{ID: id}}, Kind: kind}
	case "start-group":
		var id dtypes.GroupID
		if g.live() {
			id, _ = g.pickGroup(dtypes.GroupPaused, dtypes.GroupInsufficientFunds)
		} else {
			id, _ = g.pickGroup()
		}
		return vGenStep{Signer: g.actorOf(id.Owner), Msgs: []sdk.Msg{&dtypes.MsgStartGroup{ID: id}}, Kind: kind}
	case "create-bid":
		os := v.orders(func(o mtypes.Order) bool { return o.State == mtypes.OrderOpen })
		if !g.live() || len(os) == 0 {
			os = v.orders(nil)
		}
		p := g.providerActor()
		var oid mtypes.OrderID
		max := vCoin(10)
		if len(os) == 0 {
			id, _ := g.pickDep(false)
			oid = mtypes.OrderID{Owner: id.Owner, DSeq: id.DSeq, GSeq: 1, OSeq: 1}
		} else {
			o := os[r.Intn(len(os))]
			oid = o.OrderID
			max = o.Spec.Price()
		}
		if r.Chance(1, 25) {
			p = g.actorOf(oid.Owner) // self-bid
		}
		price := max
		switch r.Intn(8) {
		case 0:
			price = max.Add(vCoin(1))
		case 1:
			price = vCoin(0)
		case 2:
			price = sdk.NewInt64Coin("uother", max.Amount.Int64())
		case 3, 4:
			if max.Amount.GT(sdk.OneInt()) {
				price = vCoin(1 + r.Int63n(max.Amount.Int64()))
			}
		case 5:
			if max.Amount.GT(sdk.OneInt()) {
				price = max.Sub(vCoin(1))
			}
		}
		msg := &mtypes.MsgCreateBid{Order: oid, Provider: p.Bech, Price: price, Deposit: g.deposit(g.h.c.profile.BidMinDeposit)}
		return vGenStep{Signer: p, Msgs: []sdk.Msg{msg}, Kind: kind}
	case "close-bid":
		bs := v.bids(func(b mtypes.Bid) bool { return b.State == mtypes.BidOpen || b.State == mtypes.BidActive })
		if !g.live() || len(bs) == 0 {
			bs = v.bids(nil)
		}
		if len(bs) == 0 {
			id, _ := g.pickDep(false)
			p := g.providerActor()
			bid := mtypes.BidID{Owner: id.Owner, DSeq: id.DSeq, GSeq: 1, OSeq: 1, Provider: p.Bech}
			return vGenStep{Signer: p, Msgs: []sdk.Msg{&mtypes.MsgCloseBid{BidID: bid}}, Kind: kind}
		}
		b := bs[r.Intn(len(bs))]
		if r.Chance(1, 6) {
			// a lost bid, if there is one
			if ls := v.bids(func(b mtypes.Bid) bool { return b.State == mtypes.BidLost }); len(ls) > 0 {
				b = ls[r.Intn(len(ls))]
			}
		}
		return vGenStep{Signer: g.actorOf(b.BidID.Provider), Msgs: []sdk.Msg{&mtypes.MsgCloseBid{BidID: b.BidID}}, Kind: kind}
	case "create-lease":
		bs := v.bids(func(b mtypes.Bid) bool { return b.State == mtypes.BidOpen })
		if !g.live() || len(bs) == 0 {
			bs = v.bids(nil)
		}
		if len(bs) == 0 {
			id, _ := g.pickDep(false)
			bid := mtypes.BidID{Owner: id.Owner, DSeq: id.DSeq, GSeq: 1, OSeq: 1, Provider: g.providerActor().Bech}
			return vGenStep{Signer: g.actorOf(id.Owner), Msgs: []sdk.Msg{&mtypes.MsgCreateLease{BidID: bid}}, Kind: kind}
		}
		b := bs[r.Intn(len(bs))]
		return vGenStep{Signer: g.actorOf(b.BidID.Owner), Msgs: []sdk.Msg{&mtypes.MsgCreateLease{BidID: b.BidID}}, Kind: kind}
	case "withdraw-lease", "close-lease":
		ls := v.leases(func(l mtypes.Lease) bool { return l.State == mtypes.LeaseActive })
		if !g.live() || len(ls) == 0 {
			ls = v.leases(nil)
		}
		var lid mtypes.LeaseID
		if len(ls) == 0 {
			id, _ := g.pickDep(false)
			lid = mtypes.LeaseID{Owner: id.Owner, DSeq: id.DSeq, GSeq: 1, OSeq: 1, Provider: g.providerActor().Bech}
		} else {
			lid = ls[r.Intn(len(ls))].LeaseID
		}
		if kind == "withdraw-lease" {
			return vGenStep{Signer: g.actorOf(lid.Provider), Msgs: []sdk.Msg{&mtypes.MsgWithdrawLease{LeaseID: lid}}, Kind: kind}
		}
		return vGenStep{Signer: g.actorOf(lid.Owner), Msgs: []sdk.Msg{&mtypes.MsgCloseLease{LeaseID: lid}}, Kind: kind}
	case "create-provider", "update-provider":
		p := g.providerActor()
		attrs := vRandAttrs(r, 3)
		if r.Chance(1, 3) {
			// full attribute set: can serve every order
			attrs = nil
			for _, k := range vAttrKeys {
				attrs = append(attrs, types.Attribute{Key: k, Value: vAttrVals[r.Intn(len(vAttrVals))]})
			}
		}
		uri := fmt.Sprintf("https://%s.example.com", p.Name)
		if r.Chance(1, 20) {
			uri = "http://insecure.example.com"
		}
		if kind == "create-provider" {
			return vGenStep{Signer: p, Msgs: []sdk.Msg{&ptypes.MsgCreateProvider{Owner: p.Bech, HostURI: uri, Attributes: attrs}}, Kind: kind}
		}
		return vGenStep{Signer: p, Msgs: []sdk.Msg{&ptypes.MsgUpdateProvider{Owner: p.Bech, HostURI: uri, Attributes: attrs}}, Kind: kind}
	case "delete-provider":
		p := g.providerActor()
		return vGenStep{Signer: p, Msgs: []sdk.Msg{&ptypes.MsgDeleteProvider{Owner: p.Bech}}, Kind: kind}
	case "sign-attrs":
		a := g.auditor()
		p := g.providerActor()
		if r.Chance(1, 3) {
			// anybody may attest anybody: also the other way round, so that
			// two accounts hold attestations of each other
			a, p = p, a
		}
		attrs := vRandAttrs(r, 3)
		if len(attrs) == 0 {
			attrs = types.Attributes{{Key: vAttrKeys[r.Intn(3)], Value: vAttrVals[r.Intn(2)]}}
		}
		return vGenStep{Signer: a, Msgs: []sdk.Msg{&atypes.MsgSignProviderAttributes{Owner: p.Bech, Auditor: a.Bech, Attributes: attrs}}, Kind: kind}
	case "delete-attrs":
		a := g.auditor()
		p := g.providerActor()
		if r.Chance(1, 3) {
			a, p = p, a
		}
		var keys []string
		if rec, ok := g.h.last.Audits[p.Bech+"|"+a.Bech]; ok && r.Chance(2, 3) {
			all := r.Chance(1, 3) // every key by name: the record becomes empty
			for _, at := range rec.Attributes {
				if all || r.Bool() {
					keys = append(keys, at.Key)
				}
			}
		} else if r.Bool() {
			keys = []string{vAttrKeys[r.Intn(3)]}
		}
		return vGenStep{Signer: a, Msgs: []sdk.Msg{&atypes.MsgDeleteProviderAttributes{Owner: p.Bech, Auditor: a.Bech, Keys: keys}}, Kind: kind}
	case "create-cert":
		o := g.anyActor()
		serials := []int64{0, 1, 127, 128, 255, 256, 65535, 65536}
		serial := big.NewInt(serials[r.Intn(len(serials))])
		if r.Chance(1, 4) {
			serial = new(big.Int).Lsh(big.NewInt(1), uint(r.Range(60, 159)))
		}
		g.certSeq++
		cn := o.Bech
		if r.Chance(1, 10) {
			cn = g.otherThan(o).Bech
		}
		// validity windows of four shapes, fixed dates (never the wall clock):
		// around chain time only / from chain time to 2100 / 2015-2100 /
		// 2050-2100 (C07's skewed-clock process needs windows that contain one
		// wall-clock date and not the other)
		nb, na := g.h.c.now.Add(-time.Hour), g.h.c.now.Add(24*time.Hour)
		switch g.certSeq % 4 {
		case 1:
			na = time.Date(2100, 1, 1, 0, 0, 0, 0, time.UTC)
		case 2:
			nb, na = time.Date(2015, 1, 1, 0, 0, 0, 0, time.UTC), time.Date(2100, 1, 1, 0, 0, 0, 0, time.UTC)
		case 3:
			nb, na = time.Date(2050, 1, 1, 0, 0, 0, 0, time.UTC), time.Date(2100, 1, 1, 0, 0, 0, 0, time.UTC)
		}
		crt, pub, err := vMakeCert(cn, serial, vECKey(g.certSeq), nb, na)
		if err != nil {
			return g.step("bank-send")
		}
		g.certs[o.Bech] = append(g.certs[o.Bech], serial)
		return vGenStep{Signer: o, Msgs: []sdk.Msg{&ctypes.MsgCreateCertificate{Owner: o.Bech, Cert: crt, Pubkey: pub}}, Kind: kind}
	case "revoke-cert":
		o := g.anyActor()
		// prefer an owner that has registered certificates
		if r.Chance(4, 5) {
			var owners []*vActor
			for _, a := range g.h.c.actors {
				if len(g.certs[a.Bech]) > 0 {
					owners = append(owners, a)
				}
			}
			if len(owners) > 0 {
				o = owners[r.Intn(len(owners))]
			}
		}
		serial := "1"
		if ss := g.certs[o.Bech]; len(ss) > 0 && r.Chance(3, 4) {
			serial = ss[r.Intn(len(ss))].String()
		}
		return vGenStep{Signer: o, Msgs: []sdk.Msg{&ctypes.MsgRevokeCertificate{ID: ctypes.CertificateID{Owner: o.Bech, Serial: serial}}}, Kind: kind}
	case "bank-send":
		from := g.anyActor()
		to := g.otherThan(from).Addr
		if r.Chance(1, 2) {
			to = g.h.c.escrowAddr
		}
		msg := banktypes.NewMsgSend(from.Addr, to, sdk.NewCoins(vCoin(int64(r.Range(1, 1000)))))
		return vGenStep{Signer: from, Msgs: []sdk.Msg{msg}, Kind: kind}
	}
	panic("unknown kind " + kind)
}

// Gaps: 0 keeps the tx in the open block.
func (g *vGen) gap() int {
	switch g.r.Pick([]int{40, 25, 8, 6, 5, 4, 4}) {
	case 0:
		return 0
	case 1:
		return 1
	case 2:
		return 2
	case 3:
		return 3
	case 4:
		return 5
	case 5:
		return 8
	default:
		return 20
	}
}

// Next produces and executes one random step.
func (g *vGen) Next() *vTxObs {
	ws := make([]int, len(vKinds))
	for i, k := range vKinds {
		ws[i] = g.W[k]
	}
	kind := vKinds[g.r.Pick(ws)]
	st := g.step(kind)
	signer := st.Signer
	note := kind
	// sometimes two messages of the same signer travel in one transaction
	// (all-or-nothing execution)
	if g.r.Chance(1, 15) {
		for tries := 0; tries < 6; tries++ {
			k2 := vKinds[g.r.Pick(ws)]
			if k2 == kind {
				continue // two messages of one kind could emit identical events; keep segments distinguishable
			}
			st2 := g.step(k2)
			if st2.Signer == st.Signer {
				st.Msgs = append(st.Msgs, st2.Msgs...)
				note += "+" + k2
				break
			}
		}
	}
	if g.r.Chance(g.WrongSigner[0], g.WrongSigner[1]) {
		signer = g.otherThan(st.Signer)
		if g.r.Chance(1, 3) {
			return g.h.DoForged(note+"/forged-signature", g.gap(), signer, st.Signer, st.Msgs...)
		}
		note += "/wrong-signer"
	}
	return g.h.DoNote(note, g.gap(), signer, st.Msgs...)
}

// ---------------------------------------------------------------------------
// directed scenario templates

type vScenario struct {
	Name string
	Run  func(g *vGen)
}

// fullAttrs lets a provider serve any order without auditor requirements.
func vFullAttrs() types.Attributes {
	var out types.Attributes
	for _, k := range vAttrKeys {
		out = append(out, types.Attribute{Key: k, Value: "a"})
	}
	return out
}

func (g *vGen) ensureProvider(p *vActor) {
	if _, ok := g.h.last.Provs[p.Bech]; ok {
		return
	}
	g.h.DoNote("tpl/create-provider", g.r.Intn(2), p, &ptypes.MsgCreateProvider{Owner: p.Bech, HostURI: "https://" + p.Name + ".example.com", Attributes: vFullAttrs()})
}

func (g *vGen) freshDSeq(t *vActor) uint64 {
	used := map[uint64]bool{}
	for _, d := range (vView{g.h.last}).deps(nil) {
		if d.DeploymentID.Owner == t.Bech {
			used[d.DeploymentID.DSeq] = true
		}
	}
	perm := g.r.Perm(len(vDSeqPool))
	for _, i := range perm {
		if !used[vDSeqPool[i]] {
			return vDSeqPool[i]
		}
	}
	// pool exhausted for this tenant: any other number
	for n := uint64(1000); ; n++ {
		if !used[n] {
			return n
		}
	}
}

// tplDeploy creates a deployment with plain groups (no requirements).
func (g *vGen) tplDeploy(gap int, t *vActor, deposit int64, groups ...[]vUnitSpec) (dtypes.DeploymentID, bool) {
	id := dtypes.DeploymentID{Owner: t.Bech, DSeq: g.freshDSeq(t)}
	var specs []dtypes.GroupSpec
	for i, us := range groups {
		specs = append(specs, vGroupSpec(fmt.Sprintf("g%d", i+1), types.PlacementRequirements{}, us...))
	}
	o := g.h.DoNote("tpl/create-deployment", gap, t, &dtypes.MsgCreateDeployment{ID: id, Groups: specs, Version: vVersion(g.r), Deposit: vCoin(deposit)})
	return id, o.OK
}

func (g *vGen) tplBid(gap int, p *vActor, oid mtypes.OrderID, price int64) (mtypes.BidID, bool) {
	g.ensureProvider(p)
	o := g.h.DoNote("tpl/create-bid", gap, p, &mtypes.MsgCreateBid{Order: oid, Provider: p.Bech, Price: vCoin(price), Deposit: vCoin(g.h.c.profile.BidMinDeposit)})
	return mtypes.MakeBidID(oid, p.Addr), o.OK
}

func vOrderID(id dtypes.DeploymentID, gseq, oseq uint32) mtypes.OrderID {
	return mtypes.OrderID{Owner: id.Owner, DSeq: id.DSeq, GSeq: gseq, OSeq: oseq}
}

func (g *vGen) minDep() int64 { return g.h.c.profile.DepMinDeposit }

// rate that drains `deposit` in about `blocks` blocks (at least 1, bounded
// by the unit price limit).
func vRateFor(deposit int64, blocks int) int64 {
	r := deposit / int64(blocks)
	if r < 1 {
		r = 1
	}
	if r > 10000000 {
		r = 10000000
	}
	return r
}

func vScenarios() []vScenario {
	return []vScenario{
		// the deposit lasts for exactly k blocks: the account is acted on one
		// block before it is exhausted, in the block in which its balance
		// reaches zero (not overdrawn), and one block after
		{"exact-exhaustion", func(g *vGen) {
			t, t2, p := g.h.actor("tenant", g.r.Intn(3)), g.h.actor("tenant", g.r.Intn(3)), g.h.actor("provider", g.r.Intn(3))
			dep := g.minDep()
			var ks []int
			for _, k := range []int{4, 5, 8, 10, 16, 20} {
				if dep%int64(k) == 0 && dep/int64(k) >= 1 && dep/int64(k) <= 10000000 {
					ks = append(ks, k)
				}
			}
			if len(ks) == 0 {
				return
			}
			// somebody else's money is in the module too
			g.tplDeploy(1, t2, dep*2, []vUnitSpec{{g.unitPrice(), 1}})
			for _, delta := range g.r.Perm(3) {
				k := ks[g.r.Intn(len(ks))]
				rate := dep / int64(k)
				id, ok := g.tplDeploy(1, t, dep, []vUnitSpec{{rate, 1}})
				if !ok {
					return
				}
				bid, _ := g.tplBid(g.r.Intn(2), p, vOrderID(id, 1, 1), rate)
				if o := g.h.DoNote("tpl/create-lease", g.r.Intn(2), t, &mtypes.MsgCreateLease{BidID: bid}); !o.OK {
					continue
				}
				gap := k - 1 + delta // k-1, k, k+1 blocks after the lease (and the last settlement)
				switch g.r.Intn(4) {
				case 0:
					g.h.DoNote(fmt.Sprintf("tpl/close-deployment-at-exhaustion%+d", delta-1), gap, t, &dtypes.MsgCloseDeployment{ID: id})
				case 1:
					g.h.DoNote(fmt.Sprintf("tpl/close-lease-at-exhaustion%+d", delta-1), gap, t, &mtypes.MsgCloseLease{LeaseID: bid.LeaseID()})
				case 2:
					g.h.DoNote(fmt.Sprintf("tpl/withdraw-at-exhaustion%+d", delta-1), gap, p, &mtypes.MsgWithdrawLease{LeaseID: bid.LeaseID()})
				case 3:
					g.h.DoNote(fmt.Sprintf("tpl/close-bid-at-exhaustion%+d", delta-1), gap, p, &mtypes.MsgCloseBid{BidID: bid})
				}
				g.h.DoNote("tpl/close-deployment-after", g.r.Intn(3), t, &dtypes.MsgCloseDeployment{ID: id})
			}
		}},
		// a transaction that writes something, and then fails as a whole because
		// of a later message, leaves nothing behind - also not in memory; the
		// next transaction reads what the reverted one would have written
		{"reverted-tx-then-use", func(g *vGen) {
			t, p := g.h.actor("tenant", g.r.Intn(3)), g.h.actor("provider", g.r.Intn(3))
			price := g.unitPrice()
			nowhere := mtypes.OrderID{Owner: t.Bech, DSeq: 987654, GSeq: 1, OSeq: 1}
			failingBid := &mtypes.MsgCreateBid{Order: nowhere, Provider: p.Bech, Price: vCoin(price), Deposit: vCoin(g.h.c.profile.BidMinDeposit)}
			// (a) provider record: an attribute added by a reverted update admits nothing
			g.h.DoNote("tpl/provider-with-two-attributes", 1, p, &ptypes.MsgCreateProvider{Owner: p.Bech, HostURI: "https://" + p.Name + ".example.com",
				Attributes: types.Attributes{{Key: "region", Value: "a"}, {Key: "arch", Value: "a"}}})
			g.h.DoNote("tpl/provider-reset-to-two-attributes", 0, p, &ptypes.MsgUpdateProvider{Owner: p.Bech, HostURI: "https://" + p.Name + ".example.com",
				Attributes: types.Attributes{{Key: "region", Value: "a"}, {Key: "arch", Value: "a"}}})
			idA := dtypes.DeploymentID{Owner: t.Bech, DSeq: g.freshDSeq(t)}
			req := types.PlacementRequirements{Attributes: types.Attributes{{Key: "region", Value: "a"}, {Key: "tier", Value: "a"}}}
			if o := g.h.DoNote("tpl/create-deployment-requiring-tier", 1, t, &dtypes.MsgCreateDeployment{ID: idA,
				Groups: []dtypes.GroupSpec{vGroupSpec("g1", req, vUnitSpec{price, 1})}, Version: vVersion(g.r), Deposit: vCoin(g.minDep())}); o.OK {
				// (the record is updated, read by a bid that succeeds, and the tx then
				// fails on its last message: nothing of it may remain)
				okBid := &mtypes.MsgCreateBid{Order: vOrderID(idA, 1, 1), Provider: p.Bech, Price: vCoin(price), Deposit: vCoin(g.h.c.profile.BidMinDeposit)}
				g.h.DoNote("tpl/reverted-provider-update+bid+failing-bid", g.r.Intn(2), p,
					&ptypes.MsgUpdateProvider{Owner: p.Bech, HostURI: "https://" + p.Name + ".example.com", Attributes: vFullAttrs()}, okBid, failingBid)
				g.h.DoNote("tpl/bid-needing-the-reverted-attribute", g.r.Intn(2), p,
					&mtypes.MsgCreateBid{Order: vOrderID(idA, 1, 1), Provider: p.Bech, Price: vCoin(price), Deposit: vCoin(g.h.c.profile.BidMinDeposit)})
			}
			// (b) escrow: a reverted withdraw in the block of a close takes no earnings away
			idB, ok := g.tplDeploy(1, t, g.minDep()*2, []vUnitSpec{{price, 1}})
			if !ok {
				return
			}
			bid, _ := g.tplBid(g.r.Intn(2), p, vOrderID(idB, 1, 1), price)
			g.h.DoNote("tpl/create-lease", g.r.Intn(2), t, &mtypes.MsgCreateLease{BidID: bid})
			g.h.DoNote("tpl/reverted-withdraw+failing-bid", g.r.Range(2, 6), p, &mtypes.MsgWithdrawLease{LeaseID: bid.LeaseID()}, failingBid)
			if g.r.Bool() {
				g.h.DoNote("tpl/close-lease-in-the-block-of-the-reverted-withdraw", 0, t, &mtypes.MsgCloseLease{LeaseID: bid.LeaseID()})
			} else {
				g.h.DoNote("tpl/close-bid-in-the-block-of-the-reverted-withdraw", 0, p, &mtypes.MsgCloseBid{BidID: bid})
			}
			// (c) escrow: a reverted close leaves the account open
			idC, ok := g.tplDeploy(1, t, g.minDep(), []vUnitSpec{{price, 1}})
			if !ok {
				return
			}
			g.h.DoNote("tpl/reverted-close-deployment+failing-deposit", g.r.Intn(3), t,
				&dtypes.MsgCloseDeployment{ID: idC}, &dtypes.MsgDepositDeployment{ID: dtypes.DeploymentID{Owner: t.Bech, DSeq: 987655}, Amount: vCoin(1)})
			g.h.DoNote("tpl/deposit-after-reverted-close", g.r.Intn(2), t, &dtypes.MsgDepositDeployment{ID: idC, Amount: vCoin(1000)})
			g.h.DoNote("tpl/close-deployment", g.r.Intn(3), t, &dtypes.MsgCloseDeployment{ID: idC})
			g.h.DoNote("tpl/close-deployment-b", g.r.Intn(3), t, &dtypes.MsgCloseDeployment{ID: idB})
		}},
		// one provider holds the leases (gseq 1, oseq 2) and (gseq 2, oseq 1) of a
		// deployment - the sequence numbers of one are the other's, swapped -
		// and each is then acted on by itself
		{"mirrored-lease-ids", func(g *vGen) {
			t, p := g.h.actor("tenant", g.r.Intn(3)), g.h.actor("provider", g.r.Intn(3))
			price := g.unitPrice()
			id, ok := g.tplDeploy(1, t, g.minDep()*2, []vUnitSpec{{price, 1}}, []vUnitSpec{{price, 1}})
			if !ok {
				return
			}
			b11, _ := g.tplBid(g.r.Intn(2), p, vOrderID(id, 1, 1), price)
			g.h.DoNote("tpl/create-lease-1-1", g.r.Intn(2), t, &mtypes.MsgCreateLease{BidID: b11})
			b21, _ := g.tplBid(g.r.Intn(2), p, vOrderID(id, 2, 1), price)
			g.h.DoNote("tpl/create-lease-2-1", g.r.Intn(2), t, &mtypes.MsgCreateLease{BidID: b21})
			g.h.DoNote("tpl/close-lease-1-1", g.r.Range(1, 3), t, &mtypes.MsgCloseLease{LeaseID: b11.LeaseID()})
			b12, _ := g.tplBid(g.r.Intn(2), p, vOrderID(id, 1, 2), price)
			g.h.DoNote("tpl/create-lease-1-2", g.r.Intn(2), t, &mtypes.MsgCreateLease{BidID: b12})
			first, second := b21, b12
			if g.r.Bool() {
				first, second = b12, b21
			}
			switch g.r.Intn(3) {
			case 0:
				g.h.DoNote("tpl/close-lease-mirrored", g.r.Range(1, 3), t, &mtypes.MsgCloseLease{LeaseID: first.LeaseID()})
			case 1:
				g.h.DoNote("tpl/close-bid-mirrored", g.r.Range(1, 3), p, &mtypes.MsgCloseBid{BidID: first})
			case 2:
				g.h.DoNote("tpl/close-group-mirrored", g.r.Range(1, 3), t, &dtypes.MsgCloseGroup{ID: first.GroupID()})
			}
			g.h.DoNote("tpl/withdraw-the-other", g.r.Range(1, 3), p, &mtypes.MsgWithdrawLease{LeaseID: second.LeaseID()})
			g.h.DoNote("tpl/close-the-other", g.r.Intn(3), t, &mtypes.MsgCloseLease{LeaseID: second.LeaseID()})
			g.h.DoNote("tpl/close-deployment", g.r.Intn(3), t, &dtypes.MsgCloseDeployment{ID: id})
		}},
		// actions that name an object in a terminal state (lost / closed) next
		// to live objects of other parties: every one must be refused or stay
		// inside what it names
		{"stale-object-ops", func(g *vGen) {
			t := g.h.actor("tenant", g.r.Intn(3))
			pa := g.h.actor("provider", g.r.Intn(3))
			pb := g.h.actor("provider", (pa.Idx+1+g.r.Intn(2))%3)
			price := g.unitPrice()
			id, ok := g.tplDeploy(1, t, g.minDep()*2, []vUnitSpec{{price, 1}})
			if !ok {
				return
			}
			oid := vOrderID(id, 1, 1)
			bidA, _ := g.tplBid(g.r.Intn(2), pa, oid, price)
			bidB, _ := g.tplBid(g.r.Intn(2), pb, oid, price)
			win, lose, pw, pl := bidA, bidB, pa, pb
			if g.r.Bool() {
				win, lose, pw, pl = bidB, bidA, pb, pa
			}
			g.h.DoNote("tpl/create-lease", g.r.Intn(2), t, &mtypes.MsgCreateLease{BidID: win})
			ops := []func(){
				func() { g.h.DoNote("tpl/close-lost-bid", g.r.Intn(3), pl, &mtypes.MsgCloseBid{BidID: lose}) },
				func() {
					g.h.DoNote("tpl/withdraw-on-lost-bid", g.r.Intn(3), pl, &mtypes.MsgWithdrawLease{LeaseID: lose.LeaseID()})
				},
				func() {
					g.h.DoNote("tpl/close-lease-of-lost-bid", g.r.Intn(3), t, &mtypes.MsgCloseLease{LeaseID: lose.LeaseID()})
				},
				func() {
					g.h.DoNote("tpl/create-lease-on-lost-bid", g.r.Intn(3), t, &mtypes.MsgCreateLease{BidID: lose})
				},
				func() {
					g.h.DoNote("tpl/bid-again-after-loss", g.r.Intn(3), pl, &mtypes.MsgCreateBid{Order: oid, Provider: pl.Bech, Price: vCoin(price), Deposit: vCoin(g.h.c.profile.BidMinDeposit)})
				},
			}
			for _, i := range g.r.Perm(len(ops)) {
				ops[i]()
			}
			// the winner's lease is still there and still earns
			g.h.DoNote("tpl/withdraw-winner", g.r.Range(1, 4), pw, &mtypes.MsgWithdrawLease{LeaseID: win.LeaseID()})
			g.h.DoNote("tpl/close-winner-lease", g.r.Intn(3), t, &mtypes.MsgCloseLease{LeaseID: win.LeaseID()})
			// the same actions once everything under the order is closed
			g.h.DoNote("tpl/close-closed-bid", g.r.Intn(2), pw, &mtypes.MsgCloseBid{BidID: win})
			g.h.DoNote("tpl/close-lost-bid-late", g.r.Intn(2), pl, &mtypes.MsgCloseBid{BidID: lose})
			g.h.DoNote("tpl/close-deployment", g.r.Intn(3), t, &dtypes.MsgCloseDeployment{ID: id})
		}},
		{"lease-then-close-lease-same-block", func(g *vGen) {
			t, p := g.h.actor("tenant", g.r.Intn(3)), g.h.actor("provider", g.r.Intn(3))
			price := g.unitPrice()
			id, ok := g.tplDeploy(1, t, g.minDep(), []vUnitSpec{{price, 1}})
			if !ok {
				return
			}
			bid, _ := g.tplBid(g.r.Intn(2), p, vOrderID(id, 1, 1), price)
			g.h.DoNote("tpl/create-lease", g.r.Intn(2), t, &mtypes.MsgCreateLease{BidID: bid})
			g.h.DoNote("tpl/close-lease-same-block", 0, t, &mtypes.MsgCloseLease{LeaseID: bid.LeaseID()})
			g.h.DoNote("tpl/withdraw-after-close", g.r.Range(1, 6), p, &mtypes.MsgWithdrawLease{LeaseID: bid.LeaseID()})
			g.h.DoNote("tpl/close-deployment", g.r.Intn(3), t, &dtypes.MsgCloseDeployment{ID: id})
		}},
		{"lease-then-close-deployment-same-block", func(g *vGen) {
			t, p := g.h.actor("tenant", g.r.Intn(3)), g.h.actor("provider", g.r.Intn(3))
			price := g.unitPrice()
			id, ok := g.tplDeploy(1, t, g.minDep(), []vUnitSpec{{price, 1}}, []vUnitSpec{{price, 2}})
			if !ok {
				return
			}
			bid, _ := g.tplBid(0, p, vOrderID(id, 1, 1), price)
			p2 := g.h.actor("provider", (p.Idx+1)%3)
			bid2, _ := g.tplBid(0, p2, vOrderID(id, 2, 1), price*2)
			g.h.DoNote("tpl/create-lease", g.r.Intn(2), t, &mtypes.MsgCreateLease{BidID: bid})
			g.h.DoNote("tpl/create-lease-2", 0, t, &mtypes.MsgCreateLease{BidID: bid2})
			g.h.DoNote("tpl/close-deployment-same-block", 0, t, &dtypes.MsgCloseDeployment{ID: id})
			g.h.DoNote("tpl/withdraw-after-close", g.r.Range(1, 4), p, &mtypes.MsgWithdrawLease{LeaseID: bid.LeaseID()})
		}},
		{"withdraw-twice-same-block", func(g *vGen) {
			t, p := g.h.actor("tenant", g.r.Intn(3)), g.h.actor("provider", g.r.Intn(3))
			price := int64(g.r.Range(1, 7))
			id, ok := g.tplDeploy(1, t, g.minDep()*2, []vUnitSpec{{price, 1}})
			if !ok {
				return
			}
			bid, _ := g.tplBid(1, p, vOrderID(id, 1, 1), price)
			g.h.DoNote("tpl/create-lease", 1, t, &mtypes.MsgCreateLease{BidID: bid})
			g.h.DoNote("tpl/withdraw-1", g.r.Range(1, 3), p, &mtypes.MsgWithdrawLease{LeaseID: bid.LeaseID()})
			g.h.DoNote("tpl/withdraw-2-same-block", 0, p, &mtypes.MsgWithdrawLease{LeaseID: bid.LeaseID()})
			g.h.DoNote("tpl/close-lease-after-withdraw-same-block", 0, t, &mtypes.MsgCloseLease{LeaseID: bid.LeaseID()})
		}},
		{"overdraft-through-withdraw", func(g *vGen) {
			t, p := g.h.actor("tenant", g.r.Intn(3)), g.h.actor("provider", g.r.Intn(3))
			dep := g.minDep()
			rate := vRateFor(dep, g.r.Range(2, 4))
			id, ok := g.tplDeploy(1, t, dep, []vUnitSpec{{rate, 1}}, []vUnitSpec{{1, 1}})
			if !ok {
				return
			}
			bid, _ := g.tplBid(0, p, vOrderID(id, 1, 1), rate)
			g.h.DoNote("tpl/create-lease", 1, t, &mtypes.MsgCreateLease{BidID: bid})
			if g.r.Bool() {
				g.h.DoNote("tpl/pause-sibling", 0, t, &dtypes.MsgPauseGroup{ID: dtypes.GroupID{Owner: id.Owner, DSeq: id.DSeq, GSeq: 2}})
			}
			g.h.DoNote("tpl/withdraw-overdraft", g.r.Range(5, 9), p, &mtypes.MsgWithdrawLease{LeaseID: bid.LeaseID()})
			// D3 territory: group is insufficient_funds
			gid := dtypes.GroupID{Owner: id.Owner, DSeq: id.DSeq, GSeq: 1}
			g.h.DoNote("tpl/pause-after-overdraft", g.r.Intn(2), t, &dtypes.MsgPauseGroup{ID: gid})
			g.h.DoNote("tpl/start-after-overdraft", g.r.Intn(2), t, &dtypes.MsgStartGroup{ID: gid})
			g.h.DoNote("tpl/deposit-after-overdraft", g.r.Intn(2), t, &dtypes.MsgDepositDeployment{ID: id, Amount: vCoin(dep)})
		}},
		{"overdraft-multi-payment", func(g *vGen) {
			t := g.h.actor("tenant", g.r.Intn(3))
			ps := g.h.roleActors("provider")
			dep := g.minDep() + int64(g.r.Intn(7))
			r1 := vRateFor(dep, g.r.Range(3, 6))
			r2 := r1/2 + 1
			r3 := r1/3 + 2
			id, ok := g.tplDeploy(1, t, dep, []vUnitSpec{{r1, 1}}, []vUnitSpec{{r2, 1}}, []vUnitSpec{{r3, 1}})
			if !ok {
				return
			}
			b1, _ := g.tplBid(0, ps[0], vOrderID(id, 1, 1), r1)
			b2, _ := g.tplBid(0, ps[1], vOrderID(id, 2, 1), r2)
			b3, _ := g.tplBid(0, ps[2], vOrderID(id, 3, 1), r3)
			g.h.DoNote("tpl/lease-1", 1, t, &mtypes.MsgCreateLease{BidID: b1})
			g.h.DoNote("tpl/lease-2", g.r.Intn(2), t, &mtypes.MsgCreateLease{BidID: b2})
			g.h.DoNote("tpl/lease-3", g.r.Intn(2), t, &mtypes.MsgCreateLease{BidID: b3})
			switch g.r.Intn(3) {
			case 0:
				g.h.DoNote("tpl/withdraw-overdraft", g.r.Range(4, 9), ps[1], &mtypes.MsgWithdrawLease{LeaseID: b2.LeaseID()})
			case 1:
				g.h.DoNote("tpl/close-lease-overdraft", g.r.Range(4, 9), t, &mtypes.MsgCloseLease{LeaseID: b3.LeaseID()})
			default:
				g.h.DoNote("tpl/close-deployment-overdraft", g.r.Range(4, 9), t, &dtypes.MsgCloseDeployment{ID: id})
			}
			g.h.DoNote("tpl/withdraw-after-overdraft", g.r.Intn(3), ps[0], &mtypes.MsgWithdrawLease{LeaseID: b1.LeaseID()})
		}},
		{"overdraft-through-create-lease", func(g *vGen) {
			t := g.h.actor("tenant", g.r.Intn(3))
			ps := g.h.roleActors("provider")
			dep := g.minDep()
			rate := vRateFor(dep, 2)
			id, ok := g.tplDeploy(1, t, dep, []vUnitSpec{{rate, 1}}, []vUnitSpec{{3, 1}})
			if !ok {
				return
			}
			b1, _ := g.tplBid(0, ps[0], vOrderID(id, 1, 1), rate)
			b2, _ := g.tplBid(0, ps[1], vOrderID(id, 2, 1), 3)
			g.h.DoNote("tpl/lease-1", 1, t, &mtypes.MsgCreateLease{BidID: b1})
			g.h.DoNote("tpl/lease-2-overdraft", g.r.Range(4, 7), t, &mtypes.MsgCreateLease{BidID: b2})
			g.h.DoNote("tpl/close-bid-after", g.r.Intn(2), ps[1], &mtypes.MsgCloseBid{BidID: b2})
		}},
		{"pause-start-lease", func(g *vGen) {
			t, p := g.h.actor("tenant", g.r.Intn(3)), g.h.actor("provider", g.r.Intn(3))
			price := g.unitPrice()
			id, ok := g.tplDeploy(1, t, g.minDep()*3, []vUnitSpec{{price, 1}})
			if !ok {
				return
			}
			gid := dtypes.GroupID{Owner: id.Owner, DSeq: id.DSeq, GSeq: 1}
			bid, _ := g.tplBid(g.r.Intn(2), p, vOrderID(id, 1, 1), price)
			g.h.DoNote("tpl/pause", g.r.Intn(2), t, &dtypes.MsgPauseGroup{ID: gid})
			g.h.DoNote("tpl/lease-on-paused", 0, t, &mtypes.MsgCreateLease{BidID: bid})
			g.h.DoNote("tpl/start", g.r.Intn(2), t, &dtypes.MsgStartGroup{ID: gid})
			bid2, _ := g.tplBid(g.r.Intn(2), p, vOrderID(id, 1, 2), price)
			g.h.DoNote("tpl/lease-after-start", g.r.Intn(2), t, &mtypes.MsgCreateLease{BidID: bid2})
			g.h.DoNote("tpl/close-lease", g.r.Intn(3), t, &mtypes.MsgCloseLease{LeaseID: bid2.LeaseID()})
			// re-ordered group: order 3
			bid3, _ := g.tplBid(g.r.Intn(2), p, vOrderID(id, 1, 3), price)
			g.h.DoNote("tpl/lease-on-reorder", g.r.Intn(2), t, &mtypes.MsgCreateLease{BidID: bid3})
		}},
		{"bids-lost-then-closed", func(g *vGen) {
			t := g.h.actor("tenant", g.r.Intn(3))
			ps := g.h.roleActors("provider")
			price := g.unitPrice() + 2
			id, ok := g.tplDeploy(1, t, g.minDep(), []vUnitSpec{{price, 1}})
			if !ok {
				return
			}
			b1, _ := g.tplBid(0, ps[0], vOrderID(id, 1, 1), price)
			b2, _ := g.tplBid(g.r.Intn(2), ps[1], vOrderID(id, 1, 1), price-1)
			b3, _ := g.tplBid(g.r.Intn(2), ps[2], vOrderID(id, 1, 1), price-2)
			g.h.DoNote("tpl/lease", g.r.Intn(2), t, &mtypes.MsgCreateLease{BidID: b2})
			g.h.DoNote("tpl/close-lost-bid", g.r.Intn(2), ps[0], &mtypes.MsgCloseBid{BidID: b1})
			g.h.DoNote("tpl/lease-on-lost-bid", 0, t, &mtypes.MsgCreateLease{BidID: b3})
			g.h.DoNote("tpl/close-matched-bid", g.r.Intn(3), ps[1], &mtypes.MsgCloseBid{BidID: b2})
			g.h.DoNote("tpl/close-bid-again", g.r.Intn(2), ps[1], &mtypes.MsgCloseBid{BidID: b2})
			g.h.DoNote("tpl/start-after-bid-close", g.r.Intn(2), t, &dtypes.MsgStartGroup{ID: dtypes.GroupID{Owner: id.Owner, DSeq: id.DSeq, GSeq: 1}})
		}},
		{"deposit-underwater", func(g *vGen) {
			t, p := g.h.actor("tenant", g.r.Intn(3)), g.h.actor("provider", g.r.Intn(3))
			dep := g.minDep()
			rate := vRateFor(dep, 2)
			id, ok := g.tplDeploy(1, t, dep, []vUnitSpec{{rate, 1}})
			if !ok {
				return
			}
			bid, _ := g.tplBid(0, p, vOrderID(id, 1, 1), rate)
			g.h.DoNote("tpl/lease", 1, t, &mtypes.MsgCreateLease{BidID: bid})
			// account is under water after the gap but nobody settled yet
			g.h.DoNote("tpl/deposit-underwater", g.r.Range(4, 8), t, &dtypes.MsgDepositDeployment{ID: id, Amount: vCoin(dep * 2)})
			g.h.DoNote("tpl/withdraw", g.r.Intn(3), p, &mtypes.MsgWithdrawLease{LeaseID: bid.LeaseID()})
			g.h.DoNote("tpl/close-group", g.r.Intn(3), t, &dtypes.MsgCloseGroup{ID: dtypes.GroupID{Owner: id.Owner, DSeq: id.DSeq, GSeq: 1}})
		}},
		{"exact-exhaustion", func(g *vGen) {
			// balance is an exact multiple of the rate: zero balance, still open
			t, p := g.h.actor("tenant", g.r.Intn(3)), g.h.actor("provider", g.r.Intn(3))
			blocks := g.r.Range(2, 5)
			dep := g.minDep()
			rate := dep / int64(blocks)
			if rate < 1 || rate > 10000000 || rate*int64(blocks) != dep {
				rate = 5
				dep = g.minDep()
				for dep%rate != 0 {
					dep++
				}
				blocks = int(dep / rate)
				if blocks > 40 {
					return
				}
			}
			id, ok := g.tplDeploy(1, t, dep, []vUnitSpec{{rate, 1}})
			if !ok {
				return
			}
			bid, _ := g.tplBid(0, p, vOrderID(id, 1, 1), rate)
			g.h.DoNote("tpl/lease", 1, t, &mtypes.MsgCreateLease{BidID: bid})
			g.h.DoNote("tpl/withdraw-at-exact-zero", blocks, p, &mtypes.MsgWithdrawLease{LeaseID: bid.LeaseID()})
			switch g.r.Intn(3) {
			case 0:
				g.h.DoNote("tpl/close-lease-zero-balance", 0, t, &mtypes.MsgCloseLease{LeaseID: bid.LeaseID()})
			case 1:
				g.h.DoNote("tpl/close-deployment-zero-balance", 0, t, &dtypes.MsgCloseDeployment{ID: id})
			default:
				g.h.DoNote("tpl/withdraw-next-block", 1, p, &mtypes.MsgWithdrawLease{LeaseID: bid.LeaseID()})
			}
			g.h.DoNote("tpl/withdraw-later", g.r.Range(1, 3), p, &mtypes.MsgWithdrawLease{LeaseID: bid.LeaseID()})
		}},
		{"collision-dseqs", func(g *vGen) {
			// same provider holds leases on dseq 1 and 12 (and 123) of one owner
			t, p := g.h.actor("tenant", g.r.Intn(3)), g.h.actor("provider", g.r.Intn(3))
			var ids []dtypes.DeploymentID
			for _, dseq := range []uint64{1, 12, 123} {
				if _, ok := g.h.last.Deps[vDepKey(dtypes.DeploymentID{Owner: t.Bech, DSeq: dseq})]; ok {
					return
				}
				id := dtypes.DeploymentID{Owner: t.Bech, DSeq: dseq}
				price := g.unitPrice()
				o := g.h.DoNote("tpl/create-deployment", g.r.Intn(2), t, &dtypes.MsgCreateDeployment{ID: id,
					Groups:  []dtypes.GroupSpec{vGroupSpec("g1", types.PlacementRequirements{}, vUnitSpec{price, 1}), vGroupSpec("g2", types.PlacementRequirements{}, vUnitSpec{price, 1})},
					Version: vVersion(g.r), Deposit: vCoin(g.minDep() * 4)})
				if !o.OK {
					return
				}
				bid, _ := g.tplBid(0, p, vOrderID(id, 1, 1), price)
				g.h.DoNote("tpl/lease", 0, t, &mtypes.MsgCreateLease{BidID: bid})
				ids = append(ids, id)
			}
			// now act on dseq 1 only
			lid := mtypes.LeaseID{Owner: t.Bech, DSeq: 1, GSeq: 1, OSeq: 1, Provider: p.Bech}
			g.h.DoNote("tpl/withdraw-dseq1", g.r.Range(1, 3), p, &mtypes.MsgWithdrawLease{LeaseID: lid})
			g.h.DoNote("tpl/deposit-dseq1", g.r.Intn(2), t, &dtypes.MsgDepositDeployment{ID: ids[0], Amount: vCoin(7)})
			g.h.DoNote("tpl/pause-dseq1-g2", g.r.Intn(2), t, &dtypes.MsgPauseGroup{ID: dtypes.GroupID{Owner: t.Bech, DSeq: 1, GSeq: 2}})
			switch g.r.Intn(3) {
			case 0:
				g.h.DoNote("tpl/close-lease-dseq1", g.r.Intn(2), t, &mtypes.MsgCloseLease{LeaseID: lid})
			case 1:
				g.h.DoNote("tpl/close-bid-dseq1", g.r.Intn(2), p, &mtypes.MsgCloseBid{BidID: lid.BidID()})
			default:
				g.h.DoNote("tpl/close-group-dseq1", g.r.Intn(2), t, &dtypes.MsgCloseGroup{ID: dtypes.GroupID{Owner: t.Bech, DSeq: 1, GSeq: 1}})
			}
			g.h.DoNote("tpl/close-deployment-dseq1", g.r.Intn(3), t, &dtypes.MsgCloseDeployment{ID: ids[0]})
		}},
		// two accounts attest each other (and a third pair shares one of them);
		// one of the records is then emptied key by key, emptied without keys,
		// partly emptied, signed again: each message names one (owner, auditor)
		// pair and nothing else may move
		{"mutual-attestations", func(g *vGen) {
			as := g.h.c.actors
			x, y, z := as[g.r.Intn(len(as))], as[g.r.Intn(len(as))], as[g.r.Intn(len(as))]
			if x == y || y == z || x == z {
				x, y, z = g.h.actor("auditor", 0), g.h.actor("provider", 0), g.h.actor("auditor", 1)
			}
			at := func(keys ...string) types.Attributes {
				var out types.Attributes
				for _, k := range keys {
					out = append(out, types.Attribute{Key: k, Value: vAttrVals[g.r.Intn(2)]})
				}
				return out
			}
			g.h.DoNote("tpl/x-attests-y", g.r.Intn(2), x, &atypes.MsgSignProviderAttributes{Owner: y.Bech, Auditor: x.Bech, Attributes: at("region", "tier")})
			g.h.DoNote("tpl/y-attests-x", g.r.Intn(2), y, &atypes.MsgSignProviderAttributes{Owner: x.Bech, Auditor: y.Bech, Attributes: at("arch")})
			g.h.DoNote("tpl/z-attests-y", g.r.Intn(2), z, &atypes.MsgSignProviderAttributes{Owner: y.Bech, Auditor: z.Bech, Attributes: at("region")})
			g.h.DoNote("tpl/y-attests-z", g.r.Intn(2), y, &atypes.MsgSignProviderAttributes{Owner: z.Bech, Auditor: y.Bech, Attributes: at("tier", "arch")})
			switch g.r.Intn(3) {
			case 0:
				g.h.DoNote("tpl/x-deletes-part-of-y", g.r.Intn(2), x, &atypes.MsgDeleteProviderAttributes{Owner: y.Bech, Auditor: x.Bech, Keys: []string{"tier"}})
				g.h.DoNote("tpl/x-deletes-rest-of-y-by-key", g.r.Intn(2), x, &atypes.MsgDeleteProviderAttributes{Owner: y.Bech, Auditor: x.Bech, Keys: []string{"region"}})
			case 1:
				g.h.DoNote("tpl/x-deletes-all-of-y-by-keys", g.r.Intn(2), x, &atypes.MsgDeleteProviderAttributes{Owner: y.Bech, Auditor: x.Bech, Keys: []string{"region", "tier"}})
			default:
				g.h.DoNote("tpl/x-deletes-y", g.r.Intn(2), x, &atypes.MsgDeleteProviderAttributes{Owner: y.Bech, Auditor: x.Bech})
			}
			g.h.DoNote("tpl/y-deletes-all-of-z-by-keys", g.r.Intn(2), y, &atypes.MsgDeleteProviderAttributes{Owner: z.Bech, Auditor: y.Bech, Keys: []string{"arch", "tier"}})
			g.h.DoNote("tpl/x-attests-y-again", g.r.Intn(2), x, &atypes.MsgSignProviderAttributes{Owner: y.Bech, Auditor: x.Bech, Attributes: at("arch")})
			g.h.DoNote("tpl/y-deletes-x-by-key", g.r.Intn(2), y, &atypes.MsgDeleteProviderAttributes{Owner: x.Bech, Auditor: y.Bech, Keys: []string{"arch"}})
		}},
		{"audited-bids", func(g *vGen) {
			t, p := g.h.actor("tenant", g.r.Intn(3)), g.h.actor("provider", g.r.Intn(3))
			a0, a1 := g.h.actor("auditor", 0), g.h.actor("auditor", 1)
			g.ensureProvider(p)
			req := types.PlacementRequirements{Attributes: types.Attributes{{Key: "region", Value: "a"}, {Key: "tier", Value: "b"}}}
			switch g.r.Intn(4) {
			case 0:
				req.SignedBy.AllOf = []string{a0.Bech}
			case 1:
				req.SignedBy.AnyOf = []string{a0.Bech, a1.Bech}
			case 2:
				req.SignedBy.AllOf = []string{a0.Bech, a1.Bech}
				req.SignedBy.AnyOf = []string{a1.Bech}
			default:
				req.SignedBy.AllOf = []string{a0.Bech, a0.Bech}
				req.SignedBy.AnyOf = []string{a1.Bech, a1.Bech}
			}
			id := dtypes.DeploymentID{Owner: t.Bech, DSeq: g.freshDSeq(t)}
			price := g.unitPrice()
			o := g.h.DoNote("tpl/create-deployment-audited", 1, t, &dtypes.MsgCreateDeployment{ID: id,
				Groups: []dtypes.GroupSpec{vGroupSpec("g1", req, vUnitSpec{price, 1})}, Version: vVersion(g.r), Deposit: vCoin(g.minDep())})
			if !o.OK {
				return
			}
			oid := vOrderID(id, 1, 1)
			bidmsg := func(note string) {
				g.h.DoNote(note, g.r.Intn(2), p, &mtypes.MsgCreateBid{Order: oid, Provider: p.Bech, Price: vCoin(price), Deposit: vCoin(g.h.c.profile.BidMinDeposit)})
			}
			bidmsg("tpl/bid-unsigned")
			// partial attestation: auditor present but attributes incomplete
			g.h.DoNote("tpl/sign-partial", g.r.Intn(2), a0, &atypes.MsgSignProviderAttributes{Owner: p.Bech, Auditor: a0.Bech, Attributes: types.Attributes{{Key: "region", Value: "a"}}})
			bidmsg("tpl/bid-partial")
			g.h.DoNote("tpl/sign-a1-partial", g.r.Intn(2), a1, &atypes.MsgSignProviderAttributes{Owner: p.Bech, Auditor: a1.Bech, Attributes: types.Attributes{{Key: "tier", Value: "b"}}})
			bidmsg("tpl/bid-partial-both")
			g.h.DoNote("tpl/sign-a0-rest", g.r.Intn(2), a0, &atypes.MsgSignProviderAttributes{Owner: p.Bech, Auditor: a0.Bech, Attributes: types.Attributes{{Key: "tier", Value: "b"}}})
			bidmsg("tpl/bid-a0-full")
			g.h.DoNote("tpl/sign-a1-rest", g.r.Intn(2), a1, &atypes.MsgSignProviderAttributes{Owner: p.Bech, Auditor: a1.Bech, Attributes: types.Attributes{{Key: "region", Value: "a"}, {Key: "arch", Value: "a"}}})
			bidmsg("tpl/bid-both-full")
			g.h.DoNote("tpl/delete-a0-attr", g.r.Intn(2), a0, &atypes.MsgDeleteProviderAttributes{Owner: p.Bech, Auditor: a0.Bech, Keys: []string{"tier"}})
			g.h.DoNote("tpl/lease-audited", g.r.Intn(2), t, &mtypes.MsgCreateLease{BidID: mtypes.MakeBidID(oid, p.Addr)})
		}},
		{"provider-update-guard", func(g *vGen) {
			t, p := g.h.actor("tenant", g.r.Intn(3)), g.h.actor("provider", g.r.Intn(3))
			g.ensureProvider(p)
			g.h.DoNote("tpl/update-provider-full", 0, p, &ptypes.MsgUpdateProvider{Owner: p.Bech, HostURI: "https://" + p.Name + ".example.com", Attributes: vFullAttrs()})
			req := types.PlacementRequirements{Attributes: types.Attributes{{Key: "region", Value: "a"}, {Key: "arch", Value: "a"}}}
			id := dtypes.DeploymentID{Owner: t.Bech, DSeq: g.freshDSeq(t)}
			price := g.unitPrice()
			// which of the two groups (= which of the provider's leases in store
			// order) carries the requirement varies
			groups := []dtypes.GroupSpec{vGroupSpec("g1", types.PlacementRequirements{}, vUnitSpec{price, 1}), vGroupSpec("g2", req, vUnitSpec{price, 1})}
			if g.r.Bool() {
				groups = []dtypes.GroupSpec{vGroupSpec("g1", req, vUnitSpec{price, 1}), vGroupSpec("g2", types.PlacementRequirements{}, vUnitSpec{price, 1})}
			}
			o := g.h.DoNote("tpl/create-deployment-attrs", 1, t, &dtypes.MsgCreateDeployment{ID: id,
				Groups:  groups,
				Version: vVersion(g.r), Deposit: vCoin(g.minDep() * 2)})
			if !o.OK {
				return
			}
			b1, _ := g.tplBid(0, p, vOrderID(id, 1, 1), price)
			b2, _ := g.tplBid(0, p, vOrderID(id, 2, 1), price)
			g.h.DoNote("tpl/lease-g1", g.r.Intn(2), t, &mtypes.MsgCreateLease{BidID: b1})
			g.h.DoNote("tpl/lease-g2", g.r.Intn(2), t, &mtypes.MsgCreateLease{BidID: b2})
			g.h.DoNote("tpl/update-provider-drop-attr", g.r.Intn(2), p, &ptypes.MsgUpdateProvider{Owner: p.Bech, HostURI: "https://" + p.Name + ".example.com",
				Attributes: types.Attributes{{Key: "region", Value: "a"}}})
			g.h.DoNote("tpl/update-provider-change-value", g.r.Intn(2), p, &ptypes.MsgUpdateProvider{Owner: p.Bech, HostURI: "https://" + p.Name + ".example.com",
				Attributes: types.Attributes{{Key: "region", Value: "b"}, {Key: "arch", Value: "a"}}})
			g.h.DoNote("tpl/update-provider-superset", g.r.Intn(2), p, &ptypes.MsgUpdateProvider{Owner: p.Bech, HostURI: "https://" + p.Name + ".example.com",
				Attributes: types.Attributes{{Key: "region", Value: "a"}, {Key: "arch", Value: "a"}, {Key: "tier", Value: "b"}}})
			g.h.DoNote("tpl/close-lease-g2", g.r.Intn(2), t, &mtypes.MsgCloseLease{LeaseID: b2.LeaseID()})
			g.h.DoNote("tpl/update-provider-after-close", g.r.Intn(2), p, &ptypes.MsgUpdateProvider{Owner: p.Bech, HostURI: "https://" + p.Name + ".example.com",
				Attributes: types.Attributes{{Key: "tier", Value: "a"}}})
		}},
		{"attestation-merges", func(g *vGen) {
			a := g.h.actor("auditor", g.r.Intn(2))
			p := g.h.actor("provider", g.r.Intn(3))
			keys := []string{"region", "tier", "arch", "zone", "gpu", "net"}
			n := g.r.Range(3, 6)
			var attrs types.Attributes
			for _, i := range g.r.Perm(len(keys))[:n] {
				attrs = append(attrs, types.Attribute{Key: keys[i], Value: vAttrVals[g.r.Intn(2)]})
			}
			g.h.DoNote("tpl/sign-many", g.r.Intn(2), a, &atypes.MsgSignProviderAttributes{Owner: p.Bech, Auditor: a.Bech, Attributes: attrs})
			for k := 0; k < 3; k++ {
				var more types.Attributes
				for _, i := range g.r.Perm(len(keys))[:g.r.Range(1, 3)] {
					more = append(more, types.Attribute{Key: keys[i], Value: vAttrVals[g.r.Intn(2)]})
				}
				g.h.DoNote("tpl/sign-merge", g.r.Intn(2), a, &atypes.MsgSignProviderAttributes{Owner: p.Bech, Auditor: a.Bech, Attributes: more})
			}
			g.h.DoNote("tpl/delete-subset", g.r.Intn(2), a, &atypes.MsgDeleteProviderAttributes{Owner: p.Bech, Auditor: a.Bech, Keys: []string{attrs[0].Key}})
			g.h.DoNote("tpl/delete-missing", g.r.Intn(2), a, &atypes.MsgDeleteProviderAttributes{Owner: p.Bech, Auditor: a.Bech, Keys: []string{"nonexistent"}})
			if g.r.Bool() {
				g.h.DoNote("tpl/delete-all", g.r.Intn(2), a, &atypes.MsgDeleteProviderAttributes{Owner: p.Bech, Auditor: a.Bech})
			}
		}},
	}
}

// vRunRandomHistory: a few templates, then random steps, on one chain.
// vOperationalStep: now and then something happens to the node or the
// network between two transactions that is not a transaction - the node is
// restarted, or an accepted proposal changes a marketplace parameter.
func vOperationalStep(h *vHist) {
	r := h.rng
	switch {
	case r.Chance(1, 30):
		h.Restart()
		h.res.Count("node_restarts_in_histories", 1)
	case r.Chance(1, 30) && h.c.open && len(h.pendingHashes) == 0:
		p := h.c.profile
		var err error
		switch r.Intn(3) {
		case 0:
			n := p.DepMinDeposit * 2
			if r.Bool() && p.DepMinDeposit >= 4 {
				n = p.DepMinDeposit / 2
			}
			err = h.Gov(0, dtypes.ModuleName, "DeploymentMinDeposit", fmt.Sprintf(`{"denom":%q,"amount":"%d"}`, vDenom, n))
		case 1:
			n := p.BidMinDeposit * 2
			if r.Bool() && p.BidMinDeposit >= 4 {
				n = p.BidMinDeposit / 2
			}
			err = h.Gov(0, mtypes.ModuleName, "BidMinDeposit", fmt.Sprintf(`{"denom":%q,"amount":"%d"}`, vDenom, n))
		default:
			err = h.Gov(0, mtypes.ModuleName, "OrderMaxBids", fmt.Sprintf("%d", []int{1, 2, 3, 20}[r.Intn(4)]))
		}
		if err != nil {
			h.res.Count("parameter_changes_refused", 1)
		} else {
			h.res.Count("parameter_changes_in_histories", 1)
		}
	}
}

func vRunRandomHistory(h *vHist, nTemplates, nRandom int, tune func(g *vGen)) {
	g := vNewGen(h)
	if tune != nil {
		tune(g)
	}
	// providers first, most of the time
	for _, p := range h.roleActors("provider") {
		if h.rng.Chance(4, 5) {
			g.ensureProvider(p)
		}
	}
	if g.AtStart != nil {
		g.AtStart(g)
	}
	scs := vScenarios()
	if g.ForceTemplate != "" && h.rng.Bool() {
		for _, sc := range scs {
			if sc.Name == g.ForceTemplate {
				h.shape = append(h.shape, sc.Name)
				sc.Run(g)
			}
		}
	}
	for i := 0; i < nTemplates; i++ {
		sc := scs[h.rng.Intn(len(scs))]
		h.shape = append(h.shape, sc.Name)
		sc.Run(g)
	}
	for i := 0; i < nRandom && !h.stopped; i++ {
		g.Next()
		vOperationalStep(h)
	}
	if g.AtEnd != nil {
		g.AtEnd(g)
	}
}
