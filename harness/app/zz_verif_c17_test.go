//go:build verif
// +build verif

package app

// C17 — certificates: unique per owner+serial, revocation permanent, always
// listable.  DESIGN.md §5 C17.  An append-only reference model of
// (owner, serial) -> {state, pem} is compared with the keeper and with the
// real gRPC querier (all filter shapes, page sizes, both pagination modes)
// after every transaction.

import (
	"bytes"
	"context"
	"crypto/x509"
	"encoding/pem"
	"fmt"
	"math/big"
	"sort"
	"strings"
	"testing"
	"time"

	sdk "github.com/cosmos/cosmos-sdk/types"
	sdkquery "github.com/cosmos/cosmos-sdk/types/query"

	vs "github.com/ovrclk/akash/verifsupport"
	ctypes "github.com/ovrclk/akash/x/cert/types"
)

type vCertRec struct {
	Owner  string
	Serial string // decimal
	State  ctypes.Certificate_State
	Cert   []byte
}

type vMonC17 struct {
	res   *vs.Result
	model map[string]*vCertRec // "owner/serial"
	tried map[string]bool      // every (owner, serial) ever named
}

func vCertSerialOfPEM(p []byte) (string, string, bool) {
	blk, _ := pem.Decode(p)
	if blk == nil {
		return "", "", false
	}
	c, err := x509.ParseCertificate(blk.Bytes)
	if err != nil {
		return "", "", false
	}
	return c.SerialNumber.String(), c.Subject.CommonName, true
}

func (m *vMonC17) AfterTx(h *vHist, o *vTxObs) {
	if m.model == nil {
		m.model, m.tried = map[string]*vCertRec{}, map[string]bool{}
	}
	kind := vKindOf(o)
	// --- what the tx may legitimately have done
	var created, revoked string
	if len(o.Msgs) == 1 {
		switch mm := o.Msgs[0].(type) {
		case *ctypes.MsgCreateCertificate:
			serial, cn, ok := vCertSerialOfPEM(mm.Cert)
			if ok {
				key := mm.Owner + "/" + serial
				m.tried[key] = true
				if o.OK {
					_, dup := m.model[key]
					switch {
					case !o.RightSigner || cn != mm.Owner:
						h.Violation("registered-only-by-the-named-account", "", fmt.Sprintf("certificate with CN %s registered for owner %s by signer %s", cn, mm.Owner, o.Signer.Bech))
					case dup:
						h.Violation("at-most-once-per-owner-and-serial", "serial="+vSerialClass(serial), fmt.Sprintf("certificate %s registered a second time", key))
					}
					if !dup {
						m.model[key] = &vCertRec{Owner: mm.Owner, Serial: serial, State: ctypes.CertificateValid, Cert: mm.Cert}
						created = key
						m.res.Count("created", 1)
						m.res.Count("created_serial_class:"+vSerialClass(serial), 1)
					}
				} else if _, dup := m.model[key]; dup {
					m.res.Count("duplicate_create_rejected", 1)
				} else if o.RightSigner && cn == mm.Owner {
					m.res.Count("create_rejected_although_fresh", 1)
				} else {
					m.res.Count("foreign_create_rejected", 1)
				}
			} else if o.OK {
				h.Violation("registered-certificate-is-wellformed", "", "a create-certificate tx with an unparsable certificate was accepted")
			}
		case *ctypes.MsgRevokeCertificate:
			n, okn := new(big.Int).SetString(mm.ID.Serial, 10)
			if okn {
				key := mm.ID.Owner + "/" + n.String()
				m.tried[key] = true
				rec, exists := m.model[key]
				if o.OK {
					switch {
					case !o.RightSigner:
						h.Violation("revoked-only-at-owners-request", "", fmt.Sprintf("revocation of %s accepted from %s", key, o.Signer.Bech))
					case !exists:
						h.Violation("revoke-names-a-registered-certificate", "", fmt.Sprintf("revocation of unknown certificate %s accepted", key))
					case rec.State == ctypes.CertificateRevoked:
						m.res.Count("double_revoke_accepted", 1)
					}
					if exists {
						rec.State = ctypes.CertificateRevoked
						revoked = key
						m.res.Count("revoked", 1)
					}
				} else if exists && rec.State == ctypes.CertificateRevoked {
					m.res.Count("double_revoke_rejected", 1)
				} else if !exists {
					m.res.Count("revoke_unknown_rejected", 1)
				} else if !o.RightSigner {
					m.res.Count("foreign_revoke_rejected", 1)
				}
			}
		}
	}
	_ = created
	_ = revoked

	// --- the store must equal the model (nothing removed, nothing else changed)
	ctx := h.c.ctx()
	k := h.c.app.keeper.cert
	storeCount := len(o.Post.Certs)
	if storeCount != len(m.model) {
		h.Violation("store-equals-model", kind, fmt.Sprintf("cert store holds %d records, %d were registered", storeCount, len(m.model)))
	}
	keys := make([]string, 0, len(m.tried))
	for key := range m.tried {
		keys = append(keys, key)
	}
	sort.Strings(keys)
	for _, key := range keys {
		parts := strings.SplitN(key, "/", 2)
		addr, _ := sdk.AccAddressFromBech32(parts[0])
		serial, _ := new(big.Int).SetString(parts[1], 10)
		got, found := k.GetCertificateByID(ctx, ctypes.CertID{Owner: addr, Serial: *serial})
		rec, want := m.model[key]
		if found != want {
			h.Violation("found-by-owner-and-serial", "serial="+vSerialClass(parts[1]), fmt.Sprintf("certificate %s: registered=%v, lookup found=%v", key, want, found))
			continue
		}
		if !found {
			continue
		}
		if got.Certificate.State != rec.State {
			rule := "state-matches"
			if rec.State == ctypes.CertificateRevoked && got.Certificate.State == ctypes.CertificateValid {
				rule = "revocation-is-permanent"
			}
			h.Violation(rule, kind, fmt.Sprintf("certificate %s is %s, model says %s", key, got.Certificate.State, rec.State))
		}
		if !bytes.Equal(got.Certificate.Cert, rec.Cert) || got.Serial != rec.Serial {
			h.Violation("lookup-returns-the-registered-certificate", kind, fmt.Sprintf("certificate %s: lookup returned serial %s / different pem=%v", key, got.Serial, !bytes.Equal(got.Certificate.Cert, rec.Cert)))
		}
	}

	// --- listings through the real querier
	m.listings(h, kind)
	m.keeperListings(h, kind)
	if len(o.Msgs) == 1 {
		m.res.Distinct(fmt.Sprintf("%s|ok=%v|n=%d|right=%v", kind, o.OK, len(m.model), o.RightSigner))
	}
}

func vSerialClass(dec string) string {
	n, _ := new(big.Int).SetString(dec, 10)
	switch {
	case n == nil:
		return "invalid"
	case n.Sign() == 0:
		return "zero"
	case n.BitLen() <= 8:
		return "1byte"
	case n.BitLen() <= 64:
		return "upto64bit"
	case n.BitLen() > 160:
		return "above160bit"
	default:
		return "above64bit"
	}
}

type vCertFilter struct {
	Owner, Serial, State string
}

func (m *vMonC17) expected(f vCertFilter) []string {
	var out []string
	for key, rec := range m.model {
		if f.Owner != "" && rec.Owner != f.Owner {
			continue
		}
		if f.Serial != "" && rec.Serial != f.Serial {
			continue
		}
		if f.State == "valid" && rec.State != ctypes.CertificateValid {
			continue
		}
		if f.State == "revoked" && rec.State != ctypes.CertificateRevoked {
			continue
		}
		out = append(out, fmt.Sprintf("%s|%s|%x", key, rec.State, sha8(rec.Cert)))
	}
	sort.Strings(out)
	return out
}

func sha8(b []byte) []byte {
	h := uint64(1469598103934665603)
	for _, c := range b {
		h ^= uint64(c)
		h *= 1099511628211
	}
	return []byte{byte(h >> 56), byte(h >> 48), byte(h >> 40), byte(h >> 32), byte(h >> 24), byte(h >> 16), byte(h >> 8), byte(h)}
}

func (m *vMonC17) listings(h *vHist, kind string) {
	q := h.c.app.keeper.cert.Querier()
	gctx := sdk.WrapSDKContext(h.c.ctx())
	zeroRegistered := false
	owners := map[string]bool{}
	for _, rec := range m.model {
		owners[rec.Owner] = true
		if rec.Serial == "0" {
			zeroRegistered = true
		}
	}
	var filters []vCertFilter
	filters = append(filters, vCertFilter{}, vCertFilter{State: "valid"}, vCertFilter{State: "revoked"})
	var os []string
	for o := range owners {
		os = append(os, o)
	}
	sort.Strings(os)
	for _, o := range os {
		filters = append(filters, vCertFilter{Owner: o}, vCertFilter{Owner: o, State: "valid"}, vCertFilter{Owner: o, State: "revoked"})
	}
	var keys []string
	for key := range m.tried {
		keys = append(keys, key)
	}
	sort.Strings(keys)
	for _, key := range keys {
		parts := strings.SplitN(key, "/", 2)
		filters = append(filters, vCertFilter{Owner: parts[0], Serial: parts[1]}, vCertFilter{Owner: parts[0], Serial: parts[1], State: "valid"}, vCertFilter{Owner: parts[0], Serial: parts[1], State: "revoked"})
	}
	trig := func(f vCertFilter) string {
		shape := "all"
		switch {
		case f.Owner != "" && f.Serial != "":
			shape = "owner+serial"
		case f.Owner != "":
			shape = "owner"
		}
		if f.State != "" {
			shape += "+state"
		}
		if zeroRegistered {
			shape += "/zero-serial-registered"
		}
		return shape
	}
	for _, f := range filters {
		want := m.expected(f)
		// (page sizes: small ones that cut the result into pages, and the ways
		// of asking for "everything": 1000, 2^63-1, 2^63, 2^64-1)
		for _, limit := range []uint64{0, 1, 2, 3, 1000, 1<<63 - 1, 1 << 63, 1<<64 - 1} {
			for _, mode := range []string{"key", "offset"} {
				if f.Serial != "" && (limit > 1 || mode == "offset") {
					continue // single lookup: pagination does not apply
				}
				got, err := vListAll(q.Certificates, gctx, f, limit, mode)
				m.res.Count("listings", 1)
				if err != nil {
					h.ViolationOnce(trig(f), "listings-never-fail", trig(f), fmt.Sprintf("listing filter=%+v limit=%d mode=%s failed after %s: %v", f, limit, mode, kind, err))
					continue
				}
				sort.Strings(got)
				if strings.Join(got, "\n") != strings.Join(want, "\n") {
					h.ViolationOnce(trig(f)+fmt.Sprint(limit, mode), "listing-equals-registered-set", trig(f)+fmt.Sprintf("/limit=%d/%s", limit, mode),
						fmt.Sprintf("listing filter=%+v limit=%d mode=%s returned %d entries %v, registered and matching: %d %v", f, limit, mode, len(got), vTruncList(got), len(want), vTruncList(want)))
				}
			}
		}
	}
}

// keeperListings: the keeper's own iteration entry points (what the genesis
// export and in-process callers list certificates with) must show the same
// sets as the model.  Their results carry serial, state and content but not
// the owner, so unfiltered walks are compared without it.
func (m *vMonC17) keeperListings(h *vHist, kind string) {
	k := h.c.app.keeper.cert
	ctx := h.c.ctx()
	strip := func(want []string) []string {
		var out []string
		for _, w := range want {
			if i := strings.Index(w, "/"); i >= 0 {
				w = w[i+1:]
			}
			out = append(out, w)
		}
		sort.Strings(out)
		return out
	}
	collect := func(walk func(fn func(ctypes.CertificateResponse) bool)) (out []string, perr interface{}) {
		defer func() { perr = recover() }()
		walk(func(c ctypes.CertificateResponse) bool {
			out = append(out, fmt.Sprintf("%s|%s|%x", c.Serial, c.Certificate.State, sha8(c.Certificate.Cert)))
			return false
		})
		return out, nil
	}
	check := func(name string, f vCertFilter, walk func(fn func(ctypes.CertificateResponse) bool)) {
		got, perr := collect(walk)
		m.res.Count("keeper_listings", 1)
		if perr != nil {
			h.ViolationOnce("keeper/"+name, "listings-never-fail", "keeper/"+name, fmt.Sprintf("keeper listing %s panicked after %s: %v", name, kind, perr))
			return
		}
		sort.Strings(got)
		want := strip(m.expected(f))
		if strings.Join(got, "\n") != strings.Join(want, "\n") {
			h.ViolationOnce("keeper/"+name+f.Owner, "listing-equals-registered-set", "keeper/"+name,
				fmt.Sprintf("keeper listing %s filter=%+v returned %d entries %v, registered and matching: %d %v", name, f, len(got), vTruncList(got), len(want), vTruncList(want)))
		}
	}
	states := map[string]ctypes.Certificate_State{"valid": ctypes.CertificateValid, "revoked": ctypes.CertificateRevoked}
	check("all", vCertFilter{}, func(fn func(ctypes.CertificateResponse) bool) { k.WithCertificates(ctx, fn) })
	for _, sn := range []string{"valid", "revoked"} {
		st := states[sn]
		check("state", vCertFilter{State: sn}, func(fn func(ctypes.CertificateResponse) bool) { k.WithCertificatesState(ctx, st, fn) })
	}
	owners := map[string]bool{}
	for _, rec := range m.model {
		owners[rec.Owner] = true
	}
	var os []string
	for o := range owners {
		os = append(os, o)
	}
	sort.Strings(os)
	for _, o := range os {
		addr, err := sdk.AccAddressFromBech32(o)
		if err != nil {
			continue
		}
		check("owner", vCertFilter{Owner: o}, func(fn func(ctypes.CertificateResponse) bool) { k.WithOwner(ctx, addr, fn) })
		for _, sn := range []string{"valid", "revoked"} {
			st := states[sn]
			check("owner+state", vCertFilter{Owner: o, State: sn}, func(fn func(ctypes.CertificateResponse) bool) { k.WithOwnerState(ctx, addr, st, fn) })
		}
	}
}

func vTruncList(ss []string) []string {
	var out []string
	for i, s := range ss {
		if i >= 6 {
			out = append(out, "…")
			break
		}
		if j := strings.Index(s, "/"); j > 8 {
			s = s[:8] + "…" + s[j:]
		}
		out = append(out, s)
	}
	return out
}

type vCertQueryFn func(c context.Context, req *ctypes.QueryCertificatesRequest) (*ctypes.QueryCertificatesResponse, error)

// vListAll follows the pagination to the end; a panic is turned into an error.
func vListAll(fn vCertQueryFn, gctx context.Context, f vCertFilter, limit uint64, mode string) (out []string, err error) {
	defer func() {
		if r := recover(); r != nil {
			err = fmt.Errorf("panic: %v", r)
		}
	}()
	page := &sdkquery.PageRequest{Limit: limit}
	for rounds := 0; rounds < 1000; rounds++ {
		res, qerr := fn(gctx, &ctypes.QueryCertificatesRequest{Filter: ctypes.CertificateFilter{Owner: f.Owner, Serial: f.Serial, State: f.State}, Pagination: page})
		if qerr != nil {
			return nil, qerr
		}
		for _, c := range res.Certificates {
			serial, cn, ok := vCertSerialOfPEM(c.Certificate.Cert)
			if !ok {
				return nil, fmt.Errorf("listing returned an unparsable certificate")
			}
			if serial != c.Serial {
				return nil, fmt.Errorf("listing reports serial %s for a certificate whose serial is %s", c.Serial, serial)
			}
			out = append(out, fmt.Sprintf("%s/%s|%s|%x", cn, c.Serial, c.Certificate.State, sha8(c.Certificate.Cert)))
		}
		if f.Serial != "" {
			return out, nil
		}
		eff := limit
		if eff == 0 {
			eff = 100
		}
		if mode == "key" {
			if res.Pagination == nil || len(res.Pagination.NextKey) == 0 {
				return out, nil
			}
			page = &sdkquery.PageRequest{Key: res.Pagination.NextKey, Limit: limit}
		} else {
			if uint64(len(res.Certificates)) < eff {
				return out, nil
			}
			page = &sdkquery.PageRequest{Offset: page.Offset + eff, Limit: limit}
		}
	}
	return nil, fmt.Errorf("pagination did not terminate")
}

func (m *vMonC17) End(h *vHist) {}

// ---- workload --------------------------------------------------------------

func vC17Serials(r *vs.Rand) *big.Int {
	two := big.NewInt(2)
	fixed := []*big.Int{
		big.NewInt(0), big.NewInt(1), big.NewInt(127), big.NewInt(128), big.NewInt(255), big.NewInt(256), big.NewInt(65535), big.NewInt(65536),
		new(big.Int).Exp(two, big.NewInt(63), nil), new(big.Int).Exp(two, big.NewInt(64), nil),
		new(big.Int).Add(new(big.Int).Exp(two, big.NewInt(64), nil), big.NewInt(1)), new(big.Int).Exp(two, big.NewInt(159), nil),
		// longer than 20 octets; several share their 20 most significant octets
		new(big.Int).Exp(two, big.NewInt(160), nil), new(big.Int).Add(new(big.Int).Exp(two, big.NewInt(160), nil), big.NewInt(1)),
		new(big.Int).Add(new(big.Int).Exp(two, big.NewInt(160), nil), big.NewInt(256)), new(big.Int).Exp(two, big.NewInt(200), nil),
	}
	switch {
	case r.Chance(1, 8):
		return new(big.Int).SetBytes(r.Bytes(20))
	case r.Chance(1, 10):
		// 21..24 octets behind one fixed 20-octet head
		b := bytes.Repeat([]byte{0xA5}, 20)
		return new(big.Int).SetBytes(append(b, r.Bytes(1+r.Intn(4))...))
	case r.Chance(1, 16):
		return new(big.Int).SetBytes(r.Bytes(32))
	}
	return fixed[r.Intn(len(fixed))]
}

func vRunC17History(h *vHist, steps int, allowZero bool) {
	r := h.rng
	owners := []*vActor{h.actor("tenant", 0), h.actor("provider", 0), h.actor("auditor", 0)}
	type made struct {
		owner  *vActor
		serial *big.Int
		msg    *ctypes.MsgCreateCertificate
	}
	var all []made
	var seq uint64
	mk := func(owner *vActor, cn string, serial *big.Int) *ctypes.MsgCreateCertificate {
		seq++
		crt, pub, err := vMakeCert(cn, serial, vECKey(uint64(h.actorSeed)*1000+seq), h.c.now.Add(-time.Hour), h.c.now.Add(24*time.Hour))
		if err != nil {
			return nil
		}
		return &ctypes.MsgCreateCertificate{Owner: owner.Bech, Cert: crt, Pubkey: pub}
	}
	for i := 0; i < steps && !h.stopped; i++ {
		o := owners[r.Intn(len(owners))]
		gap := r.Intn(3)
		switch r.Pick([]int{10, 3, 2, 2, 6, 2, 2, 2, 3}) {
		case 8: // a certificate another account has registered (or merely tried), byte for byte, under the own name
			if len(all) == 0 {
				continue
			}
			x := all[r.Intn(len(all))]
			other := owners[(x.owner.Idx+1+r.Intn(2))%len(owners)]
			if other == x.owner {
				other = h.actor("outsider", 0)
			}
			msg := &ctypes.MsgCreateCertificate{Owner: other.Bech, Cert: x.msg.Cert, Pubkey: x.msg.Pubkey}
			h.DoNote("cert/create-identical-bytes-of-another-account", gap, other, msg)
		case 0: // create
			s := vC17Serials(r)
			if s.Sign() == 0 && !allowZero {
				s = big.NewInt(1)
			}
			if msg := mk(o, o.Bech, s); msg != nil {
				h.DoNote("cert/create", gap, o, msg)
				all = append(all, made{o, s, msg})
			}
		case 1: // duplicate create (same serial, new key or identical message)
			if len(all) == 0 {
				continue
			}
			x := all[r.Intn(len(all))]
			if r.Bool() {
				h.DoNote("cert/create-identical-again", gap, x.owner, x.msg)
			} else if msg := mk(x.owner, x.owner.Bech, x.serial); msg != nil {
				h.DoNote("cert/create-same-serial-new-key", gap, x.owner, msg)
			}
		case 2: // CN != signer / owner field
			other := owners[(r.Intn(2)+1+o.Idx)%len(owners)]
			if other == o {
				continue
			}
			if msg := mk(o, other.Bech, vC17Serials(r)); msg != nil {
				h.DoNote("cert/create-cn-of-another-account", gap, o, msg)
			}
		case 3: // signed by another account
			other := h.actor("outsider", 0)
			if msg := mk(o, o.Bech, vC17Serials(r)); msg != nil {
				if r.Bool() {
					h.DoNote("cert/create-signed-by-another", gap, other, msg)
				} else {
					h.DoForged("cert/create-forged-signature", gap, other, o, msg)
				}
			}
		case 4: // revoke
			if len(all) == 0 {
				continue
			}
			x := all[r.Intn(len(all))]
			h.DoNote("cert/revoke", gap, x.owner, &ctypes.MsgRevokeCertificate{ID: ctypes.CertificateID{Owner: x.owner.Bech, Serial: x.serial.String()}})
		case 5: // revoke unknown
			h.DoNote("cert/revoke-unknown", gap, o, &ctypes.MsgRevokeCertificate{ID: ctypes.CertificateID{Owner: o.Bech, Serial: new(big.Int).Add(vC17Serials(r), big.NewInt(7)).String()}})
		case 6: // revoke signed by another account
			if len(all) == 0 {
				continue
			}
			x := all[r.Intn(len(all))]
			h.DoNote("cert/revoke-signed-by-another", gap, h.actor("outsider", 0), &ctypes.MsgRevokeCertificate{ID: ctypes.CertificateID{Owner: x.owner.Bech, Serial: x.serial.String()}})
		case 7: // revoke another owner's serial under own name
			if len(all) == 0 {
				continue
			}
			x := all[r.Intn(len(all))]
			h.DoNote("cert/revoke-foreign-serial-under-own-name", gap, o, &ctypes.MsgRevokeCertificate{ID: ctypes.CertificateID{Owner: o.Bech, Serial: x.serial.String()}})
		}
	}
}

func TestVerif_C17(t *testing.T) {
	res := vs.NewResult("C17", "exploration",
		"create/revoke histories by 3 owners with serials {0,1,127,128,255,256,65535,65536,2^63,2^64,2^64+1,2^159, random 160-bit, 2^160,2^160+1,2^160+256,2^200, 21..24 octets behind one common 20-octet head, random 256-bit} (big-endian encodings prefix one another), duplicates, foreign CNs, certificates of another account resubmitted byte for byte under the own name, foreign and forged signers; after every tx an append-only model is compared with keeper lookups for every (owner,serial) ever named and with the real gRPC querier for every filter shape (none/owner/owner+serial x state) x page sizes {0,1,2,3,1000,2^63-1,2^63,2^64-1} x {key,offset} pagination followed to the end, and with the keeper's own iteration entry points (all / by state / by owner / by owner and state). distinct = (message kind, result, registry size, right signer)")
	res.Assume("chain driven at the ABCI boundary; the querier is called in-process with the deliver-state context (no gRPC transport)")
	for _, f := range []string{"created", "revoked", "duplicate_create_rejected", "foreign_create_rejected", "double_revoke_rejected", "revoke_unknown_rejected", "foreign_revoke_rejected", "listings", "keeper_listings",
		"created_serial_class:zero", "created_serial_class:1byte", "created_serial_class:upto64bit", "created_serial_class:above64bit", "created_serial_class:above160bit"} {
		res.Floor(f, 1)
	}
	defer func() {
		if err := res.Write(); err != nil {
			t.Fatalf("cannot write result: %v", err)
		}
		if n := res.Violations(); n > 0 {
			t.Errorf("%d violation(s) recorded", n)
		}
	}()
	mk := func() []vMonitor { return []vMonitor{&vMonC17{res: res}} }
	if rp := vs.ReplayFile(); rp != "" {
		var c vHistCase
		if err := vs.LoadReplay(rp, &c); err != nil {
			t.Fatalf("replay: %v", err)
		}
		vReplayHist(res, c, mk())
		return
	}
	n := vs.Scale(96, 3000)
	seed := vs.Seed()
	vs.Parallel(n, 16, func(i int) {
		rng := vs.NewRand(seed, uint64(170000+i))
		origin := fmt.Sprintf("seed=%d/certhist=%d", seed, i)
		vRunHist(res, origin, seed*1000003+int64(i%5), vProfileDefault, rng, mk(), func(h *vHist) {
			vRunC17History(h, 36, true)
		})
	})
}
