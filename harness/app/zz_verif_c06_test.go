//go:build verif
// +build verif

package app

// C06 — right signer, and a transaction touches only what it names.
// DESIGN.md §5 C06.  Key layouts are decoded by this monitor itself.

import (
	"bytes"
	"crypto/x509"
	"encoding/binary"
	"encoding/pem"
	"fmt"
	"math/big"
	"strconv"
	"strings"
	"testing"

	sdk "github.com/cosmos/cosmos-sdk/types"
	banktypes "github.com/cosmos/cosmos-sdk/x/bank/types"

	vs "github.com/ovrclk/akash/verifsupport"
	atypes "github.com/ovrclk/akash/x/audit/types"
	ctypes "github.com/ovrclk/akash/x/cert/types"
	dtypes "github.com/ovrclk/akash/x/deployment/types"
	etypes "github.com/ovrclk/akash/x/escrow/types"
	mtypes "github.com/ovrclk/akash/x/market/types"
	ptypes "github.com/ovrclk/akash/x/provider/types"
)

// vTableSigner: the party the protocol assigns to each action (from the
// property statement), and the class of that party.
func vTableSigner(msg sdk.Msg) (addr, class string) {
	switch m := msg.(type) {
	case *dtypes.MsgCreateDeployment:
		return m.ID.Owner, "tenant"
	case *dtypes.MsgDepositDeployment:
		return m.ID.Owner, "tenant"
	case *dtypes.MsgUpdateDeployment:
		return m.ID.Owner, "tenant"
	case *dtypes.MsgCloseDeployment:
		return m.ID.Owner, "tenant"
	case *dtypes.MsgCloseGroup:
		return m.ID.Owner, "tenant"
	case *dtypes.MsgPauseGroup:
		return m.ID.Owner, "tenant"
	case *dtypes.MsgStartGroup:
		return m.ID.Owner, "tenant"
	case *mtypes.MsgCreateLease:
		return m.BidID.Owner, "tenant"
	case *mtypes.MsgCloseLease:
		return m.LeaseID.Owner, "tenant"
	case *mtypes.MsgCreateBid:
		return m.Provider, "provider"
	case *mtypes.MsgCloseBid:
		return m.BidID.Provider, "provider"
	case *mtypes.MsgWithdrawLease:
		return m.LeaseID.Provider, "provider"
	case *ptypes.MsgCreateProvider:
		return m.Owner, "provider"
	case *ptypes.MsgUpdateProvider:
		return m.Owner, "provider"
	case *ptypes.MsgDeleteProvider:
		return m.Owner, "provider"
	case *atypes.MsgSignProviderAttributes:
		return m.Auditor, "auditor"
	case *atypes.MsgDeleteProviderAttributes:
		return m.Auditor, "auditor"
	case *ctypes.MsgCreateCertificate:
		return m.Owner, "owner"
	case *ctypes.MsgRevokeCertificate:
		return m.ID.Owner, "owner"
	case *banktypes.MsgSend:
		return m.FromAddress, "sender"
	}
	return "", ""
}

// ---- key decoders (documented layouts, restated) ---------------------------

type vKeyID struct {
	Kind     string // dep | group | order | bid | lease | acct-dep | acct-bid | pay | provider | audit | cert
	Owner    string
	DSeq     uint64
	Provider string // bid / lease / bid account / payment
	Addr     string // provider record / audit owner / cert owner (bech32)
	Auditor  string
	Serial   string
}

const vBechLen = 44

func vDecodeKey(store string, k []byte) (vKeyID, error) {
	bad := func(why string) (vKeyID, error) {
		return vKeyID{}, fmt.Errorf("%s key %x: %s", store, k, why)
	}
	owner := func(b []byte) (string, bool) {
		if len(b) < vBechLen {
			return "", false
		}
		s := string(b[:vBechLen])
		if _, err := sdk.AccAddressFromBech32(s); err != nil {
			return "", false
		}
		return s, true
	}
	// A first byte outside the documented set of a store is a record kind this
	// monitor does not know (a later version of the module may add one): such a
	// write cannot be attributed to anybody and is counted, not judged.
	known := map[string]string{dtypes.StoreKey: "\x01\x02", mtypes.StoreKey: "\x01\x02\x03", etypes.StoreKey: "\x01\x02", atypes.StoreKey: "\x01", ctypes.StoreKey: "\x01"}
	if set, ok := known[store]; ok && len(k) > 0 && !strings.ContainsRune(set, rune(k[0])) {
		return vKeyID{Kind: "unknown-kind"}, nil
	}
	switch store {
	case dtypes.StoreKey:
		if len(k) < 1 {
			return bad("empty")
		}
		o, ok := owner(k[1:])
		if !ok {
			return bad("owner")
		}
		rest := k[1+vBechLen:]
		switch {
		case k[0] == 0x01 && len(rest) == 8:
			return vKeyID{Kind: "dep", Owner: o, DSeq: binary.BigEndian.Uint64(rest)}, nil
		case k[0] == 0x02 && len(rest) == 12:
			return vKeyID{Kind: "group", Owner: o, DSeq: binary.BigEndian.Uint64(rest)}, nil
		}
		return bad("length/prefix")
	case mtypes.StoreKey:
		if len(k) < 2 || k[1] != 0x00 {
			return bad("prefix")
		}
		o, ok := owner(k[2:])
		if !ok {
			return bad("owner")
		}
		rest := k[2+vBechLen:]
		switch {
		case k[0] == 0x01 && len(rest) == 16:
			return vKeyID{Kind: "order", Owner: o, DSeq: binary.BigEndian.Uint64(rest)}, nil
		case (k[0] == 0x02 || k[0] == 0x03) && len(rest) == 16+vBechLen:
			p, okp := owner(rest[16:])
			if !okp {
				return bad("provider")
			}
			kind := "bid"
			if k[0] == 0x03 {
				kind = "lease"
			}
			return vKeyID{Kind: kind, Owner: o, DSeq: binary.BigEndian.Uint64(rest), Provider: p}, nil
		}
		return bad("length/prefix")
	case etypes.StoreKey:
		if len(k) < 2 || k[1] != '/' {
			return bad("prefix")
		}
		parts := strings.Split(string(k[2:]), "/")
		pdseq := func(s string) (uint64, bool) {
			n, err := strconv.ParseUint(s, 10, 64)
			return n, err == nil && strconv.FormatUint(n, 10) == s
		}
		switch {
		case k[0] == 0x01 && len(parts) == 3 && parts[0] == "deployment":
			d, ok := pdseq(parts[2])
			if _, err := sdk.AccAddressFromBech32(parts[1]); err != nil || !ok {
				return bad("deployment account id")
			}
			return vKeyID{Kind: "acct-dep", Owner: parts[1], DSeq: d}, nil
		case k[0] == 0x01 && len(parts) == 6 && parts[0] == "bid":
			d, ok := pdseq(parts[2])
			if _, err := sdk.AccAddressFromBech32(parts[1]); err != nil || !ok {
				return bad("bid account id")
			}
			return vKeyID{Kind: "acct-bid", Owner: parts[1], DSeq: d, Provider: parts[5]}, nil
		case k[0] == 0x02 && len(parts) == 6 && parts[0] == "deployment":
			d, ok := pdseq(parts[2])
			if _, err := sdk.AccAddressFromBech32(parts[1]); err != nil || !ok {
				return bad("payment id")
			}
			return vKeyID{Kind: "pay", Owner: parts[1], DSeq: d, Provider: parts[5]}, nil
		}
		return bad("shape")
	case ptypes.StoreKey:
		if len(k) != 20 {
			return bad("length")
		}
		return vKeyID{Kind: "provider", Addr: sdk.AccAddress(k).String()}, nil
	case atypes.StoreKey:
		if len(k) != 41 || k[0] != 0x01 {
			return bad("length/prefix")
		}
		return vKeyID{Kind: "audit", Addr: sdk.AccAddress(k[1:21]).String(), Auditor: sdk.AccAddress(k[21:]).String()}, nil
	case ctypes.StoreKey:
		if len(k) < 21 || k[0] != 0x01 {
			return bad("length/prefix")
		}
		return vKeyID{Kind: "cert", Addr: sdk.AccAddress(k[1:21]).String(), Serial: new(big.Int).SetBytes(k[21:]).String()}, nil
	}
	return bad("unknown store")
}

// ---- scope named by a message ----------------------------------------------

type vScope struct {
	Kind     string // deployment | provider | audit | cert | none
	Owner    string
	DSeq     uint64
	Provider string // when the message acts for one provider only (create-bid)
	Addr     string
	Auditor  string
	Serial   string
}

func vMsgScope(msg sdk.Msg) vScope {
	switch m := msg.(type) {
	case *dtypes.MsgCreateDeployment:
		return vScope{Kind: "deployment", Owner: m.ID.Owner, DSeq: m.ID.DSeq}
	case *dtypes.MsgDepositDeployment:
		return vScope{Kind: "deployment", Owner: m.ID.Owner, DSeq: m.ID.DSeq}
	case *dtypes.MsgUpdateDeployment:
		return vScope{Kind: "deployment", Owner: m.ID.Owner, DSeq: m.ID.DSeq}
	case *dtypes.MsgCloseDeployment:
		return vScope{Kind: "deployment", Owner: m.ID.Owner, DSeq: m.ID.DSeq}
	case *dtypes.MsgCloseGroup:
		return vScope{Kind: "deployment", Owner: m.ID.Owner, DSeq: m.ID.DSeq}
	case *dtypes.MsgPauseGroup:
		return vScope{Kind: "deployment", Owner: m.ID.Owner, DSeq: m.ID.DSeq}
	case *dtypes.MsgStartGroup:
		return vScope{Kind: "deployment", Owner: m.ID.Owner, DSeq: m.ID.DSeq}
	case *mtypes.MsgCreateLease:
		return vScope{Kind: "deployment", Owner: m.BidID.Owner, DSeq: m.BidID.DSeq}
	case *mtypes.MsgCloseLease:
		return vScope{Kind: "deployment", Owner: m.LeaseID.Owner, DSeq: m.LeaseID.DSeq}
	case *mtypes.MsgWithdrawLease:
		return vScope{Kind: "deployment", Owner: m.LeaseID.Owner, DSeq: m.LeaseID.DSeq}
	case *mtypes.MsgCloseBid:
		return vScope{Kind: "deployment", Owner: m.BidID.Owner, DSeq: m.BidID.DSeq}
	case *mtypes.MsgCreateBid:
		return vScope{Kind: "deployment", Owner: m.Order.Owner, DSeq: m.Order.DSeq, Provider: m.Provider}
	case *ptypes.MsgCreateProvider:
		return vScope{Kind: "provider", Addr: m.Owner}
	case *ptypes.MsgUpdateProvider:
		return vScope{Kind: "provider", Addr: m.Owner}
	case *ptypes.MsgDeleteProvider:
		return vScope{Kind: "provider", Addr: m.Owner}
	case *atypes.MsgSignProviderAttributes:
		return vScope{Kind: "audit", Addr: m.Owner, Auditor: m.Auditor}
	case *atypes.MsgDeleteProviderAttributes:
		return vScope{Kind: "audit", Addr: m.Owner, Auditor: m.Auditor}
	case *ctypes.MsgCreateCertificate:
		sc := vScope{Kind: "cert", Addr: m.Owner, Serial: "?"}
		if blk, _ := pem.Decode(m.Cert); blk != nil {
			if c, err := x509.ParseCertificate(blk.Bytes); err == nil {
				sc.Serial = c.SerialNumber.String()
			}
		}
		return sc
	case *ctypes.MsgRevokeCertificate:
		sc := vScope{Kind: "cert", Addr: m.ID.Owner, Serial: m.ID.Serial}
		if n, ok := new(big.Int).SetString(m.ID.Serial, 10); ok {
			sc.Serial = n.String()
		}
		return sc
	}
	return vScope{Kind: "none"}
}

func (sc vScope) admits(id vKeyID) bool {
	switch sc.Kind {
	case "deployment":
		switch id.Kind {
		case "dep", "group", "order", "acct-dep":
			return id.Owner == sc.Owner && id.DSeq == sc.DSeq && sc.Provider == ""
		case "bid", "lease", "acct-bid", "pay":
			if id.Owner != sc.Owner || id.DSeq != sc.DSeq {
				return false
			}
			return sc.Provider == "" || (id.Provider == sc.Provider && (id.Kind == "bid" || id.Kind == "acct-bid"))
		}
		return false
	case "provider":
		return id.Kind == "provider" && id.Addr == sc.Addr
	case "audit":
		return id.Kind == "audit" && id.Addr == sc.Addr && id.Auditor == sc.Auditor
	case "cert":
		return id.Kind == "cert" && id.Addr == sc.Addr && id.Serial == sc.Serial
	}
	return false
}

// ---- monitor ---------------------------------------------------------------

type vMonC06 struct {
	res *vs.Result
}

func (m *vMonC06) AfterTx(h *vHist, o *vTxObs) {
	pre, post := o.Pre, o.Post
	kind := vKindOf(o)

	// (1) signer table
	tableAddr := ""
	consistent := true
	for _, msg := range o.Msgs {
		want, _ := vTableSigner(msg)
		if want == "" {
			consistent = false
			continue
		}
		if tableAddr == "" {
			tableAddr = want
		} else if tableAddr != want {
			consistent = false
		}
		if _, err := sdk.AccAddressFromBech32(want); err != nil {
			continue // malformed address: GetSigners may panic, the tx cannot be built
		}
		var got []sdk.AccAddress
		func() {
			defer func() { _ = recover() }()
			got = msg.GetSigners()
		}()
		if len(got) != 1 || got[0].String() != want {
			h.Violation("required-signer-is-the-assigned-party", vMsgKind(msg),
				fmt.Sprintf("%s requires signatures of %v, the protocol assigns %s", vMsgKind(msg), got, want))
		}
	}
	byRight := consistent && tableAddr == o.Signer.Bech && !o.Forged
	if o.OK && !byRight {
		h.Violation("accepted-only-with-assigned-signature", kind,
			fmt.Sprintf("%s was accepted although signed by %s (forged=%v); assigned signer %s", kind, o.Signer.Bech, o.Forged, tableAddr))
	}
	if !byRight && consistent {
		m.res.Count("wrong_signer:"+kind, 1)
		m.res.Count("wrong_signer_total", 1)
		if o.Forged {
			m.res.Count("forged_signature_total", 1)
		}
	}
	if !o.OK {
		if same, what := vStateUnchanged(pre, post); !same {
			h.Violation("rejected-tx-changes-nothing", kind, "rejected "+kind+" changed state: "+what)
		}
		return
	}
	m.res.Count("ok:"+kind, 1)

	// (2) only the signer pays
	for _, a := range h.c.actors {
		if a != o.Signer && post.Bank[a.Bech].LT(pre.Bank[a.Bech]) {
			h.Violation("only-signer-balance-decreases", kind, fmt.Sprintf("%s by %s lowered %s's balance by %s", kind, o.Signer.Name, a.Name, pre.Bank[a.Bech].Sub(post.Bank[a.Bech])))
		}
	}

	// (3) locality of the raw store diff
	if len(o.Msgs) != 1 {
		return
	}
	sc := vMsgScope(o.Msgs[0])
	diff := vRawDiff(pre, post)
	for _, ch := range diff {
		id, err := vDecodeKey(ch.Store, ch.Key)
		if ch.Store == ctypes.StoreKey {
			// whose certificate a record is, is said by the certificate itself
			// (common name and serial number); the layout of the key is the
			// keeper's business
			val := ch.New
			if val == nil {
				val = ch.Old
			}
			var c ctypes.Certificate
			if uerr := h.c.app.appCodec.UnmarshalBinaryBare(val, &c); uerr != nil {
				h.Violation("written-key-decodes", kind, fmt.Sprintf("cert record under key %x does not decode: %v", ch.Key, uerr))
				continue
			}
			serial, cn, ok := vCertSerialOfPEM(c.Cert)
			if !ok {
				h.Violation("written-key-decodes", kind, fmt.Sprintf("cert record under key %x holds an unparsable certificate", ch.Key))
				continue
			}
			id, err = vKeyID{Kind: "cert", Addr: cn, Serial: serial}, nil
		}
		if err != nil {
			h.Violation("written-key-decodes", kind, err.Error())
			continue
		}
		if id.Kind == "unknown-kind" {
			m.res.Count("writes_to_record_kinds_unknown_to_the_monitor", 1)
			continue
		}
		if !sc.admits(id) {
			h.Violation("touches-only-what-it-names", kind+"/"+id.Kind,
				fmt.Sprintf("%s naming %+v changed %s record %+v (key %x)", kind, sc, ch.Store, id, ch.Key))
		}
	}
	if len(diff) > 0 {
		m.res.Distinct(fmt.Sprintf("%s|%d|%s", kind, len(diff), strings.Join(vTransitions(pre, post), ",")))
	}
	// (4) an action that names one bid / lease leaves the bids and leases of
	// other parties under the same deployment in their state.  Two things may
	// legitimately reach them: creating a lease makes the other open bids on
	// that order lost, and a settlement that exhausts the deployment's escrow
	// account closes everything beneath the deployment.
	var named mtypes.BidID
	isNamed := true
	switch x := o.Msgs[0].(type) {
	case *mtypes.MsgCloseBid:
		named = x.BidID
	case *mtypes.MsgWithdrawLease:
		named = mtypes.BidID(x.LeaseID)
	case *mtypes.MsgCloseLease:
		named = mtypes.BidID(x.LeaseID)
	case *mtypes.MsgCreateLease:
		named = x.BidID
	default:
		isNamed = false
	}
	if isNamed {
		did := named.DeploymentID()
		cascade := false
		if a, ok := post.Accts[vAcctKey(dtypes.EscrowAccountForDeployment(did))]; ok {
			if b, had := pre.Accts[vAcctKey(dtypes.EscrowAccountForDeployment(did))]; had && b.State == etypes.AccountOpen && a.State != etypes.AccountOpen {
				cascade = true
			}
		}
		_, createLease := o.Msgs[0].(*mtypes.MsgCreateLease)
		others := 0
		for _, bk := range vSortedKeys(post.Bids) {
			b := post.Bids[bk]
			pb, had := pre.Bids[bk]
			if !had || pb.State == b.State || b.BidID.Equals(named) || !b.BidID.DeploymentID().Equals(did) {
				continue
			}
			switch {
			case cascade:
				m.res.Count("other_party_records_closed_by_overdraft_cascade", 1)
			case createLease && b.BidID.OrderID().Equals(named.OrderID()) && pb.State == mtypes.BidOpen && b.State == mtypes.BidLost:
				m.res.Count("other_bids_lost_by_create_lease", 1)
			default:
				others++
				h.Violation("touches-only-what-it-names", kind+"/bid-of-another-party",
					fmt.Sprintf("%s naming %s moved bid %s from %s to %s (no overdraft of the deployment's escrow account in this tx)", kind, vBidKey(named), bk, pb.State, b.State))
			}
		}
		for _, lk := range vSortedKeys(post.Leases) {
			l := post.Leases[lk]
			pl, had := pre.Leases[lk]
			if !had || pl.State == l.State || mtypes.BidID(l.LeaseID).Equals(named) || !l.LeaseID.DeploymentID().Equals(did) {
				continue
			}
			if cascade {
				m.res.Count("other_party_records_closed_by_overdraft_cascade", 1)
				continue
			}
			others++
			h.Violation("touches-only-what-it-names", kind+"/lease-of-another-party",
				fmt.Sprintf("%s naming %s moved lease %s from %s to %s (no overdraft of the deployment's escrow account in this tx)", kind, vBidKey(named), lk, pl.State, l.State))
		}
		if others == 0 {
			// non-trivial only when another party has something live under this deployment
			for _, lk := range vSortedKeys(pre.Leases) {
				l := pre.Leases[lk]
				if l.State == mtypes.LeaseActive && l.LeaseID.DeploymentID().Equals(did) && !mtypes.BidID(l.LeaseID).Equals(named) {
					m.res.Count("named_action_next_to_another_partys_active_lease", 1)
					break
				}
			}
		}
	}
	// collision floor: success on dseq 1 while 12 and 123 of the same owner hold live leases
	if sc.Kind == "deployment" && sc.DSeq == 1 && len(diff) > 0 {
		live := map[uint64]bool{}
		for _, lk := range vSortedKeys(post.Leases) {
			l := post.Leases[lk]
			if l.LeaseID.Owner == sc.Owner && l.State == mtypes.LeaseActive {
				live[l.LeaseID.DSeq] = true
			}
		}
		if live[12] && live[123] {
			m.res.Count("success_on_dseq1_while_12_and_123_live", 1)
		}
	}
	_ = bytes.Equal
}

func (m *vMonC06) End(h *vHist) {}

// wrongSignerSweep sends one instance of every message type signed by a
// party of every other class, in both wrong-signature variants.
func vWrongSignerSweep(g *vGen) {
	for _, kind := range vKinds {
		st := g.step(kind)
		right := st.Signer
		for _, a := range g.h.c.actors {
			if a == right || !g.r.Chance(1, 3) {
				continue
			}
			if g.r.Bool() {
				g.h.DoNote(kind+"/wrong-signer-sweep", g.r.Intn(2), a, st.Msgs...)
			} else {
				g.h.DoForged(kind+"/forged-signature-sweep", g.r.Intn(2), a, right, st.Msgs...)
			}
		}
	}
}

func TestVerif_C06(t *testing.T) {
	res := vs.NewResult("C06", "exploration",
		"signed-tx histories against the real app and ante handler with dseqs from the prefix-collision pool {1,12,123,256,257,65536,65537,2^32,2^32+1,2^63} shared by all tenants; every message's required signer compared with the statement's table; every tx signed by another party (own key, or forged signature under the right public key) must be rejected without effect; for every successful tx every raw store key written or deleted is decoded by the monitor and must belong to the deployment / provider / attestation / certificate the message names. distinct = (message kind, number of keys changed, transition kinds)")
	res.Assume("chain driven at the ABCI boundary without Tendermint; zero fees; single-message transactions for the locality clause")
	for _, k := range vKinds {
		kk := k
		switch k {
		case "sign-attrs":
			kk = atypes.MsgTypeSignProviderAttributes
		case "delete-attrs":
			kk = atypes.MsgTypeDeleteProviderAttributes
		case "create-cert":
			kk = ctypes.MsgTypeCreateCertificate
		case "revoke-cert":
			kk = ctypes.MsgTypeRevokeCertificate
		case "bank-send":
			kk = "send"
		}
		res.Floor("wrong_signer:"+kk, 1)
		if k != "delete-provider" { // MsgDeleteProvider is not implemented by the chain: never succeeds
			res.Floor("ok:"+kk, 1)
		}
	}
	res.Floor("success_on_dseq1_while_12_and_123_live", 1)
	res.Floor("named_action_next_to_another_partys_active_lease", 5)
	res.Floor("forged_signature_total", 1)
	var tpl []string
	vRunChainCheck(t, res, vChainOpts{Histories: [2]int{150, 5000}, Templates: 3, RandomSteps: 45, OnlyTemplates: tpl,
		Tune: func(g *vGen) {
			g.WrongSigner = [2]int{1, 6}
			g.AtEnd = vWrongSignerSweep
			g.ForceTemplate = "collision-dseqs"
		},
		Extra: func(res *vs.Result) {
			if n := res.Counter("writes_to_record_kinds_unknown_to_the_monitor"); n > 0 {
				res.Inconclusive(fmt.Sprintf("%d writes went to record kinds this monitor does not know (new key prefix in a module store): their locality was not judged", n))
			}
		},
	}, func() []vMonitor {
		return []vMonitor{&vMonC06{res: res}}
	})
}
