//go:build verif
// +build verif

package app

// C19 — only deployments within the network's resource and price limits are
// admitted.  DESIGN.md §5 C19.  The limits table is transcribed from the
// documented constants and evaluated with big integers.

import (
	"fmt"
	"math/big"
	"sort"
	"strings"
	"testing"

	sdk "github.com/cosmos/cosmos-sdk/types"

	"github.com/ovrclk/akash/types"
	vs "github.com/ovrclk/akash/verifsupport"
	dtypes "github.com/ovrclk/akash/x/deployment/types"
)

var (
	vMi = big.NewInt(1 << 20)
	vGi = big.NewInt(1 << 30)
	vTi = new(big.Int).Lsh(big.NewInt(1), 40)
)

type vLimits struct {
	MinCPU, MaxCPU, MinMem, MaxMem, MinSto, MaxSto *big.Int
	MinCount, MaxCount                             int64
	MinPrice, MaxPrice                             *big.Int
	MaxUnits, MaxGroups                            int
	MaxGroupCPU, MaxGroupMem, MaxGroupSto          *big.Int
	VersionLen                                     int
	Denom                                          string
}

func vTheLimits() vLimits {
	mul := func(a *big.Int, n int64) *big.Int { return new(big.Int).Mul(a, big.NewInt(n)) }
	return vLimits{
		MinCPU: big.NewInt(10), MaxCPU: big.NewInt(10000),
		MinMem: vMi, MaxMem: mul(vGi, 16),
		MinSto: mul(vMi, 5), MaxSto: vTi,
		MinCount: 1, MaxCount: 50,
		MinPrice: big.NewInt(1), MaxPrice: big.NewInt(10000000),
		MaxUnits: 20, MaxGroups: 20,
		MaxGroupCPU: big.NewInt(20000), MaxGroupMem: mul(vGi, 32), MaxGroupSto: vTi,
		VersionLen: 32, Denom: "uakt",
	}
}

func vBig(v types.ResourceValue) *big.Int {
	if v.Val.IsNil() {
		return nil
	}
	return v.Val.BigInt()
}

// vGroupWithinLimits returns the list of violated limits of one group spec.
func vGroupWithinLimits(L vLimits, g dtypes.GroupSpec) []string {
	var bad []string
	if g.Name == "" {
		bad = append(bad, "group-name-empty")
	}
	if len(g.Resources) < 1 {
		bad = append(bad, "units<1")
	}
	if len(g.Resources) > L.MaxUnits {
		bad = append(bad, "units>max")
	}
	tc, tm, ts := new(big.Int), new(big.Int), new(big.Int)
	in := func(v, lo, hi *big.Int) bool { return v != nil && v.Cmp(lo) >= 0 && v.Cmp(hi) <= 0 }
	for _, r := range g.Resources {
		var c, m, s *big.Int
		if r.Resources.CPU != nil {
			c = vBig(r.Resources.CPU.Units)
		}
		if r.Resources.Memory != nil {
			m = vBig(r.Resources.Memory.Quantity)
		}
		if r.Resources.Storage != nil {
			s = vBig(r.Resources.Storage.Quantity)
		}
		if !in(c, L.MinCPU, L.MaxCPU) {
			bad = append(bad, "unit-cpu")
		}
		if !in(m, L.MinMem, L.MaxMem) {
			bad = append(bad, "unit-memory")
		}
		if !in(s, L.MinSto, L.MaxSto) {
			bad = append(bad, "unit-storage")
		}
		if int64(r.Count) < L.MinCount || int64(r.Count) > L.MaxCount {
			bad = append(bad, "unit-count")
		}
		if r.Price.Denom != L.Denom {
			bad = append(bad, "price-denom")
		}
		if r.Price.Amount.IsNil() || r.Price.Amount.BigInt().Cmp(L.MinPrice) < 0 || r.Price.Amount.BigInt().Cmp(L.MaxPrice) > 0 {
			bad = append(bad, "unit-price")
		}
		n := big.NewInt(int64(r.Count))
		if c != nil {
			tc.Add(tc, new(big.Int).Mul(c, n))
		}
		if m != nil {
			tm.Add(tm, new(big.Int).Mul(m, n))
		}
		if s != nil {
			ts.Add(ts, new(big.Int).Mul(s, n))
		}
	}
	if tc.Sign() <= 0 || tc.Cmp(L.MaxGroupCPU) > 0 {
		bad = append(bad, "group-total-cpu")
	}
	if tm.Sign() <= 0 || tm.Cmp(L.MaxGroupMem) > 0 {
		bad = append(bad, "group-total-memory")
	}
	if ts.Sign() <= 0 || ts.Cmp(L.MaxGroupSto) > 0 {
		bad = append(bad, "group-total-storage")
	}
	return vUniq(bad)
}

func vUniq(ss []string) []string {
	sort.Strings(ss)
	var out []string
	for i, s := range ss {
		if i == 0 || ss[i-1] != s {
			out = append(out, s)
		}
	}
	return out
}

func vMsgWithinLimits(L vLimits, minDeposit int64, msg *dtypes.MsgCreateDeployment) []string {
	var bad []string
	if len(msg.Groups) < 1 {
		bad = append(bad, "groups<1")
	}
	if len(msg.Groups) > L.MaxGroups {
		bad = append(bad, "groups>max")
	}
	names := map[string]bool{}
	for _, g := range msg.Groups {
		if names[g.Name] {
			bad = append(bad, "group-name-duplicate")
		}
		names[g.Name] = true
		bad = append(bad, vGroupWithinLimits(L, g)...)
	}
	if len(msg.Version) != L.VersionLen {
		bad = append(bad, "version-length")
	}
	if msg.Deposit.Denom != L.Denom || msg.Deposit.Amount.IsNil() || msg.Deposit.Amount.LT(sdk.NewInt(minDeposit)) {
		bad = append(bad, "deposit")
	}
	return vUniq(bad)
}

type vMonC19 struct {
	res *vs.Result
	// minDep: the network's minimum deposit after a parameter change (0: the
	// genesis value of the profile)
	minDep int64
}

func (m *vMonC19) min(h *vHist) int64 {
	// (the chain's profile follows accepted parameter changes, see vChain.gov)
	return h.c.profile.DepMinDeposit
}

func (m *vMonC19) OnGov(h *vHist, subspace, key, value string) {
	if subspace == dtypes.ModuleName && key == "DeploymentMinDeposit" {
		var c sdk.Coin
		if err := h.c.app.LegacyAmino().UnmarshalJSON([]byte(value), &c); err == nil && c.Amount.IsInt64() {
			m.minDep = c.Amount.Int64()
			m.res.Count("minimum_deposit_changed_by_the_network", 1)
		}
	}
}

func (m *vMonC19) AfterTx(h *vHist, o *vTxObs) {
	L := vTheLimits()
	kind := vKindOf(o)
	if len(o.Msgs) == 1 {
		if msg, ok := o.Msgs[0].(*dtypes.MsgCreateDeployment); ok {
			bad := vMsgWithinLimits(L, m.min(h), msg)
			m.res.Count("create_deployment_seen", 1)
			if o.OK && len(bad) > 0 {
				h.Violation("admitted-only-within-limits", strings.Join(bad, "+"),
					fmt.Sprintf("create-deployment %s was admitted although it violates: %v (%s)", vDepKey(msg.ID), bad, o.Note))
			}
			if !o.OK {
				if same, what := vStateUnchanged(o.Pre, o.Post); !same {
					h.Violation("rejected-without-effect", strings.Join(bad, "+"), "rejected create-deployment changed state: "+what)
				}
				if len(bad) > 0 {
					m.res.Count("rejected_beyond_limits", 1)
					for _, b := range bad {
						m.res.Count("rejected:"+b, 1)
					}
				} else if o.RightSigner {
					m.res.Count("rejected_although_within_limits", 1)
				}
			} else {
				m.res.Count("admitted", 1)
				if a, ok := o.Post.Accts[vDepAcctKey(msg.ID)]; !ok || a.Balance.Amount.LT(sdk.NewInt(m.min(h))) {
					h.Violation("carries-minimum-deposit", "", fmt.Sprintf("deployment %s admitted with escrow balance %v", vDepKey(msg.ID), a.Balance))
				}
			}
			m.res.Distinct(fmt.Sprintf("create|ok=%v|%s", o.OK, strings.Join(bad, "+")))
		}
	}
	if !o.OK {
		return
	}
	// every stored deployment / group satisfies the table, whichever path wrote it
	changed := map[string]bool{}
	for _, k := range vSortedKeys(o.Post.Groups) {
		g := o.Post.Groups[k]
		if p, ok := o.Pre.Groups[k]; ok && p.GroupSpec.String() == g.GroupSpec.String() {
			continue
		}
		changed[vDepKey(g.GroupID.DeploymentID())] = true
		if bad := vGroupWithinLimits(L, g.GroupSpec); len(bad) > 0 {
			h.Violation("stored-group-within-limits", kind+"/"+strings.Join(bad, "+"), fmt.Sprintf("stored group %s violates %v", k, bad))
		}
		m.res.Count("stored_groups_checked", 1)
	}
	for _, k := range vSortedKeys(o.Post.Deps) {
		d := o.Post.Deps[k]
		if _, ok := o.Pre.Deps[k]; ok && !changed[k] {
			if p := o.Pre.Deps[k]; string(p.Version) == string(d.Version) {
				continue
			}
		}
		n := 0
		names := map[string]bool{}
		for _, gk := range vSortedKeys(o.Post.Groups) {
			g := o.Post.Groups[gk]
			if vDepKey(g.GroupID.DeploymentID()) != k {
				continue
			}
			n++
			if names[g.GroupSpec.Name] {
				h.Violation("stored-group-names-unique", kind, fmt.Sprintf("deployment %s stores two groups named %q", k, g.GroupSpec.Name))
			}
			names[g.GroupSpec.Name] = true
		}
		if n < 1 || n > L.MaxGroups {
			h.Violation("stored-deployment-group-count", kind+fmt.Sprintf("/groups=%d", n), fmt.Sprintf("deployment %s is stored with %d groups (1..%d allowed)", k, n, L.MaxGroups))
		}
		if len(d.Version) != L.VersionLen {
			h.Violation("stored-version-32-bytes", kind, fmt.Sprintf("deployment %s stored with a %d-byte version", k, len(d.Version)))
		}
		m.res.Count("stored_deployments_checked", 1)
	}
}

func (m *vMonC19) End(h *vHist) {}

// ---- boundary sweep ---------------------------------------------------------

type vC19Choice struct {
	Name  string
	Apply func(m *dtypes.MsgCreateDeployment)
}

func vRV(b *big.Int) types.ResourceValue { return types.ResourceValue{Val: sdk.NewIntFromBigInt(b)} }

func vC19Base(owner string, dseq uint64, minDep int64) *dtypes.MsgCreateDeployment {
	unit := func(i int) dtypes.Resource {
		return dtypes.Resource{Resources: vUnits(uint64(100+i), 64, 64), Count: 1, Price: vCoin(int64(10 + i))}
	}
	return &dtypes.MsgCreateDeployment{
		ID: dtypes.DeploymentID{Owner: owner, DSeq: dseq},
		Groups: []dtypes.GroupSpec{
			{Name: "ga", Resources: []dtypes.Resource{unit(0), unit(1)}},
			{Name: "gb", Resources: []dtypes.Resource{unit(2), unit(3)}},
		},
		Version: make([]byte, 32),
		Deposit: vCoin(minDep),
	}
}

func vC19Choices(minDep int64) []vC19Choice {
	L := vTheLimits()
	var cs []vC19Choice
	add := func(name string, f func(m *dtypes.MsgCreateDeployment)) { cs = append(cs, vC19Choice{name, f}) }
	four := func(name string, lo, hi *big.Int, set func(m *dtypes.MsgCreateDeployment, v *big.Int)) {
		for _, x := range []struct {
			n string
			v *big.Int
		}{{"min-1", new(big.Int).Sub(lo, big.NewInt(1))}, {"min", lo}, {"max", hi}, {"max+1", new(big.Int).Add(hi, big.NewInt(1))}} {
			v := x.v
			add(name+"="+x.n, func(m *dtypes.MsgCreateDeployment) { set(m, v) })
		}
	}
	u := func(m *dtypes.MsgCreateDeployment) *dtypes.Resource { return &m.Groups[0].Resources[0] }
	four("cpu", L.MinCPU, L.MaxCPU, func(m *dtypes.MsgCreateDeployment, v *big.Int) { u(m).Resources.CPU = &types.CPU{Units: vRV(v)} })
	four("memory", L.MinMem, L.MaxMem, func(m *dtypes.MsgCreateDeployment, v *big.Int) {
		u(m).Resources.Memory = &types.Memory{Quantity: vRV(v)}
	})
	four("storage", L.MinSto, L.MaxSto, func(m *dtypes.MsgCreateDeployment, v *big.Int) {
		u(m).Resources.Storage = &types.Storage{Quantity: vRV(v)}
		// keep the other unit of the group small enough not to blur the total
		m.Groups[0].Resources[1].Resources.Storage = &types.Storage{Quantity: vRV(L.MinSto)}
	})
	four("count", big.NewInt(L.MinCount), big.NewInt(L.MaxCount), func(m *dtypes.MsgCreateDeployment, v *big.Int) { u(m).Count = uint32(v.Int64()) })
	four("price", L.MinPrice, L.MaxPrice, func(m *dtypes.MsgCreateDeployment, v *big.Int) {
		u(m).Price = sdk.Coin{Denom: "uakt", Amount: sdk.NewIntFromBigInt(v)}
	})
	// group totals just below / at / above the bound, reached with counts 1, 2, 50
	for _, cnt := range []int64{1, 2, 50} {
		c := cnt
		for _, d := range []int64{-1, 0, 1} {
			dd := d
			add(fmt.Sprintf("total-cpu count=%d delta=%d", c, dd), func(m *dtypes.MsgCreateDeployment) {
				// two units: one of `c` replicas, one filler so that the sum is max+delta
				per := new(big.Int).Div(L.MaxGroupCPU, big.NewInt(c+1))
				if per.Cmp(L.MaxCPU) > 0 {
					per = new(big.Int).Set(L.MaxCPU)
				}
				rest := new(big.Int).Sub(L.MaxGroupCPU, new(big.Int).Mul(per, big.NewInt(c)))
				rest.Add(rest, big.NewInt(dd))
				m.Groups[1].Resources[0].Resources.CPU = &types.CPU{Units: vRV(per)}
				m.Groups[1].Resources[0].Count = uint32(c)
				m.Groups[1].Resources[1].Resources.CPU = &types.CPU{Units: vRV(rest)}
				m.Groups[1].Resources[1].Count = 1
			})
			add(fmt.Sprintf("total-memory count=%d delta=%d", c, dd), func(m *dtypes.MsgCreateDeployment) {
				per := new(big.Int).Div(L.MaxGroupMem, big.NewInt(c+1))
				if per.Cmp(L.MaxMem) > 0 {
					per = new(big.Int).Set(L.MaxMem)
				}
				rest := new(big.Int).Sub(L.MaxGroupMem, new(big.Int).Mul(per, big.NewInt(c)))
				rest.Add(rest, big.NewInt(dd))
				m.Groups[1].Resources[0].Resources.Memory = &types.Memory{Quantity: vRV(per)}
				m.Groups[1].Resources[0].Count = uint32(c)
				m.Groups[1].Resources[1].Resources.Memory = &types.Memory{Quantity: vRV(rest)}
				m.Groups[1].Resources[1].Count = 1
			})
			add(fmt.Sprintf("total-storage count=%d delta=%d", c, dd), func(m *dtypes.MsgCreateDeployment) {
				per := new(big.Int).Div(L.MaxGroupSto, big.NewInt(c+1))
				rest := new(big.Int).Sub(L.MaxGroupSto, new(big.Int).Mul(per, big.NewInt(c)))
				rest.Add(rest, big.NewInt(dd))
				m.Groups[1].Resources[0].Resources.Storage = &types.Storage{Quantity: vRV(per)}
				m.Groups[1].Resources[0].Count = uint32(c)
				m.Groups[1].Resources[1].Resources.Storage = &types.Storage{Quantity: vRV(rest)}
				m.Groups[1].Resources[1].Count = 1
			})
		}
	}
	small := func(i int) dtypes.Resource {
		return dtypes.Resource{Resources: vUnits(10, 1, 5), Count: 1, Price: vCoin(int64(1 + i))}
	}
	for _, n := range []int{0, 1, 20, 21} {
		nn := n
		add(fmt.Sprintf("units=%d", nn), func(m *dtypes.MsgCreateDeployment) {
			m.Groups[1].Resources = nil
			for i := 0; i < nn; i++ {
				m.Groups[1].Resources = append(m.Groups[1].Resources, small(i))
			}
		})
	}
	for _, n := range []int{0, 1, 20, 21, 40} {
		nn := n
		add(fmt.Sprintf("groups=%d", nn), func(m *dtypes.MsgCreateDeployment) {
			g0 := m.Groups[0]
			m.Groups = nil
			for i := 0; i < nn; i++ {
				g := dtypes.GroupSpec{Name: fmt.Sprintf("g%02d", i), Resources: []dtypes.Resource{small(i)}}
				if i == 0 {
					g = g0
					g.Name = "g00"
				}
				m.Groups = append(m.Groups, g)
			}
		})
	}
	add("name-duplicate", func(m *dtypes.MsgCreateDeployment) { m.Groups[1].Name = m.Groups[0].Name })
	add("name-empty", func(m *dtypes.MsgCreateDeployment) { m.Groups[1].Name = "" })
	add("cpu-nil", func(m *dtypes.MsgCreateDeployment) { u(m).Resources.CPU = nil })
	add("memory-nil", func(m *dtypes.MsgCreateDeployment) { u(m).Resources.Memory = nil })
	add("storage-nil", func(m *dtypes.MsgCreateDeployment) { u(m).Resources.Storage = nil })
	two64 := new(big.Int).Lsh(big.NewInt(1), 64)
	add("cpu-above-2^64", func(m *dtypes.MsgCreateDeployment) {
		u(m).Resources.CPU = &types.CPU{Units: vRV(new(big.Int).Add(two64, big.NewInt(100)))}
	})
	add("memory-above-2^64", func(m *dtypes.MsgCreateDeployment) {
		u(m).Resources.Memory = &types.Memory{Quantity: vRV(new(big.Int).Add(two64, vMi))}
	})
	add("storage-2^64-wraps-with-count", func(m *dtypes.MsgCreateDeployment) {
		// 2^63 x count 2 = 2^64: zero if the product were taken in uint64
		u(m).Resources.Storage = &types.Storage{Quantity: vRV(new(big.Int).Lsh(big.NewInt(1), 63))}
		u(m).Count = 2
	})
	add("cpu-negative", func(m *dtypes.MsgCreateDeployment) { u(m).Resources.CPU = &types.CPU{Units: vRV(big.NewInt(-100))} })
	add("memory-negative", func(m *dtypes.MsgCreateDeployment) {
		u(m).Resources.Memory = &types.Memory{Quantity: vRV(new(big.Int).Neg(vGi))}
	})
	add("price-denom-other", func(m *dtypes.MsgCreateDeployment) { u(m).Price = sdk.NewInt64Coin("uother", 10) })
	add("price-zero", func(m *dtypes.MsgCreateDeployment) { u(m).Price = sdk.Coin{Denom: "uakt", Amount: sdk.ZeroInt()} })
	add("price-negative", func(m *dtypes.MsgCreateDeployment) { u(m).Price = sdk.Coin{Denom: "uakt", Amount: sdk.NewInt(-5)} })
	add("price-mixed-denoms", func(m *dtypes.MsgCreateDeployment) { m.Groups[1].Resources[1].Price = sdk.NewInt64Coin("uother", 10) })
	for _, n := range []int{0, 31, 32, 33} {
		nn := n
		add(fmt.Sprintf("version-len=%d", nn), func(m *dtypes.MsgCreateDeployment) { m.Version = make([]byte, nn) })
	}
	add("deposit=min-1", func(m *dtypes.MsgCreateDeployment) { m.Deposit = vCoin(minDep - 1) })
	add("deposit=min", func(m *dtypes.MsgCreateDeployment) { m.Deposit = vCoin(minDep) })
	add("deposit-denom-other", func(m *dtypes.MsgCreateDeployment) { m.Deposit = sdk.NewInt64Coin("uother", minDep) })
	add("deposit-zero", func(m *dtypes.MsgCreateDeployment) { m.Deposit = vCoin(0) })
	return cs
}

func vC19OffsetCases() []vC19Choice {
	two64 := new(big.Int).Lsh(big.NewInt(1), 64)
	type kind struct {
		name       string
		v0, target *big.Int
		set        func(r *dtypes.Resource, v *big.Int)
	}
	kinds := []kind{
		{"cpu", big.NewInt(100), big.NewInt(1000), func(r *dtypes.Resource, v *big.Int) { r.Resources.CPU = &types.CPU{Units: vRV(v)} }},
		{"memory", new(big.Int).Mul(big.NewInt(64), vMi), new(big.Int).Mul(big.NewInt(256), vMi), func(r *dtypes.Resource, v *big.Int) { r.Resources.Memory = &types.Memory{Quantity: vRV(v)} }},
		{"storage", new(big.Int).Mul(big.NewInt(64), vMi), new(big.Int).Mul(big.NewInt(1024), vMi), func(r *dtypes.Resource, v *big.Int) {
			r.Resources.Storage = &types.Storage{Quantity: vRV(v)}
		}},
	}
	var out []vC19Choice
	for _, k := range kinds {
		kk := k
		xs := map[string]*big.Int{
			"negative":            new(big.Int).Neg(kk.v0),
			"above-2^64":          new(big.Int).Add(two64, kk.v0),
			"negative-below-2^64": new(big.Int).Neg(new(big.Int).Add(two64, kk.v0)),
		}
		for _, xn := range []string{"negative", "above-2^64", "negative-below-2^64"} {
			x := xs[xn]
			out = append(out, vC19Choice{fmt.Sprintf("offset %s unit %s, sibling restores the total", kk.name, xn), func(m *dtypes.MsgCreateDeployment) {
				y := new(big.Int).Sub(kk.target, x)
				kk.set(&m.Groups[1].Resources[0], x)
				kk.set(&m.Groups[1].Resources[1], y)
				m.Groups[1].Resources[0].Count = 1
				m.Groups[1].Resources[1].Count = 1
			}})
		}
	}
	return out
}

func vC19NameArrangements() []vC19Choice {
	alphabet := []string{"west", "east", "north"}
	var out []vC19Choice
	var rec func(names []string, n int)
	rec = func(names []string, n int) {
		if len(names) == n {
			ns := append([]string(nil), names...)
			out = append(out, vC19Choice{"names=" + strings.Join(ns, ","), func(m *dtypes.MsgCreateDeployment) {
				g0 := m.Groups[0]
				m.Groups = nil
				for i, nm := range ns {
					g := g0
					g.Name = nm
					g.Resources = []dtypes.Resource{{Resources: vUnits(uint64(100+i), 64, 64), Count: 1, Price: vCoin(int64(10 + i))}}
					m.Groups = append(m.Groups, g)
				}
			}})
			return
		}
		for _, a := range alphabet {
			rec(append(names, a), n)
		}
	}
	for n := 2; n <= 4; n++ {
		rec(nil, n)
	}
	return out
}

func vC19Sweep(t *testing.T, res *vs.Result) {
	choices := vC19Choices(vProfileDefault.DepMinDeposit)
	type job struct{ a, b int }
	var jobs []job
	for i := range choices {
		jobs = append(jobs, job{i, -1})
	}
	for i := range choices {
		for j := i + 1; j < len(choices); j++ {
			jobs = append(jobs, job{i, j})
		}
	}
	// group-name arrangements (singles only): every sequence of 2..4 names over
	// {west, east, north}, i.e. duplicates adjacent, apart, in ascending,
	// descending and mixed order (complete: 9 + 27 + 81)
	nPairs := len(jobs) - len(choices)
	for _, c := range vC19NameArrangements() {
		choices = append(choices, c)
		jobs = append(jobs, job{len(choices) - 1, -1})
	}
	res.Extra("group_name_arrangements", "all 117 sequences of 2..4 group names over a 3-name alphabet")
	// units outside the per-unit bounds (negative, beyond 2^64) whose siblings
	// offset them so that the signed group total is an ordinary value
	for _, c := range vC19OffsetCases() {
		choices = append(choices, c)
		jobs = append(jobs, job{len(choices) - 1, -1})
	}
	res.Extra("boundary_sweep", fmt.Sprintf("%d single boundary choices and all %d unordered pairs applied to one valid base message, each through ValidateBasic and a signed DeliverTx", len(choices)-117-9, nPairs))
	shards := 16
	seed := vs.Seed()
	vs.Parallel(shards, shards, func(s int) {
		rng := vs.NewRand(seed, uint64(190000+s))
		vRunHist(res, fmt.Sprintf("seed=%d/sweep-shard=%d", seed, s), seed*1000003, vProfileDefault, rng, []vMonitor{&vMonC19{res: res}}, func(h *vHist) {
			h.MaxSteps = 1 << 30
			tnt := h.actor("tenant", s%3)
			dseq := uint64(1000)
			for k := s; k < len(jobs); k += shards {
				dseq++
				msg := vC19Base(tnt.Bech, dseq, h.c.profile.DepMinDeposit)
				label := choices[jobs[k].a].Name
				// structure-changing choices (groups=N, units=N) are applied
				// last; a pair whose second choice no longer finds its target
				// is skipped
				first, second := jobs[k].a, jobs[k].b
				if second >= 0 && (strings.HasPrefix(choices[first].Name, "groups=") || strings.HasPrefix(choices[first].Name, "units=")) {
					first, second = second, first
				}
				applied := func(i int) (ok bool) {
					defer func() {
						if r := recover(); r != nil {
							ok = false
						}
					}()
					choices[i].Apply(msg)
					return true
				}
				if !applied(first) {
					continue
				}
				if second >= 0 {
					if !applied(second) {
						res.Count("sweep_pairs_skipped", 1)
						continue
					}
					label = choices[first].Name + " & " + choices[second].Name
				}
				// ValidateBasic on its own (may panic on out-of-range values)
				vbErr := func() (err error) {
					defer func() {
						if r := recover(); r != nil {
							err = fmt.Errorf("panic: %v", r)
						}
					}()
					return msg.ValidateBasic()
				}()
				o := h.DoNote("sweep: "+label, k%2, tnt, msg)
				if vbErr == nil && !o.OK {
					res.Count("validatebasic_passes_handler_rejects", 1)
				}
				if vbErr != nil && o.OK {
					h.Violation("validatebasic-verdict-enforced", "", "ValidateBasic rejected ("+vbErr.Error()+") but the tx was admitted: "+label)
				}
			}
		})
	})
}

// vC19ParamChanges: the minimum deposit is a network parameter; after the
// network changed it (accepted parameter-change proposal), create-deployment
// is judged against the new value - also by a node that had read the old one,
// and by a node restarted in between.
func vC19ParamChanges(res *vs.Result) {
	seed := vs.Seed()
	n := vs.Scale(24, 400)
	vs.Parallel(n, 8, func(s int) {
		rng := vs.NewRand(seed, uint64(195000+s))
		prof := vProfileDefault
		if s%2 == 1 {
			prof = vProfileSmall
		}
		mon := &vMonC19{res: res}
		vRunHist(res, fmt.Sprintf("seed=%d/param-change=%d/%s", seed, s, prof.Name), seed*1000003, prof, rng, []vMonitor{mon}, func(h *vHist) {
			tnt := h.actor("tenant", s%3)
			dseq := uint64(5000)
			probe := func(note string, dep int64) {
				dseq++
				msg := vC19Base(tnt.Bech, dseq, dep)
				h.DoNote("param: "+note, rng.Intn(3), tnt, msg)
			}
			cur := prof.DepMinDeposit
			probe("min before any change", cur)
			probe("min-1 before any change", cur-1)
			for round := 0; round < 4; round++ {
				next := cur * int64(rng.Range(2, 4))
				if rng.Chance(1, 3) && cur > 4 {
					next = cur / 2
				}
				val := fmt.Sprintf(`{"denom":%q,"amount":"%d"}`, vDenom, next)
				if err := h.Gov(rng.Intn(3), dtypes.ModuleName, "DeploymentMinDeposit", val); err != nil {
					res.Inconclusive("parameter change refused: " + err.Error())
					return
				}
				if rng.Chance(1, 3) {
					h.Restart()
					res.Count("restart_after_parameter_change", 1)
				}
				lo, hi := cur, next
				if lo > hi {
					lo, hi = hi, lo
				}
				probe("old minimum after the change", cur)
				probe("new minimum - 1", next-1)
				probe("new minimum", next)
				probe("between old and new", lo+(hi-lo)/2)
				cur = next
			}
		})
	})
}

func TestVerif_C19(t *testing.T) {
	res := vs.NewResult("C19", "exploration",
		"(a) boundary sweep: every single choice {min-1,min,max,max+1} of each per-unit bound, group totals at max-1/max/max+1 reached with counts 1/2/50, 0/1/20/21 units, 0/1/20/21/40 groups, duplicate/empty names, all 117 arrangements of 2..4 group names over a 3-name alphabet, out-of-range units (negative, beyond 2^64) offset by a sibling unit, nil and >2^64 and negative resource values, price and deposit variations, version lengths, and all unordered pairs of two choices, each as a signed create-deployment through ValidateBasic and DeliverTx; alarm when admitted although the big-integer limits table says no, or when a rejection leaves any effect; (b) after every tx of random full-application histories every stored deployment/group must satisfy the table. distinct = (admitted?, set of violated limits)")
	res.Assume("limits transcribed from the documented constants (cpu 10..10000 milli, memory 1Mi..16Gi, storage 5Mi..1Ti, count 1..50, unit price 1..10^7 uakt, <=20 units/group, <=20 groups, totals cpu<=20000, memory<=32Gi, storage<=1Ti, 32-byte version, deposit >= DeploymentMinDeposit)")
	for _, f := range []string{"admitted", "rejected_beyond_limits", "stored_groups_checked", "stored_deployments_checked", "rejected:unit-cpu", "rejected:unit-memory", "rejected:unit-storage", "rejected:unit-count", "rejected:unit-price", "rejected:price-denom",
		"rejected:group-total-cpu", "rejected:group-total-memory", "rejected:group-total-storage", "rejected:units>max", "rejected:groups>max", "rejected:groups<1", "rejected:group-name-duplicate", "rejected:group-name-empty", "rejected:version-length", "rejected:deposit", "minimum_deposit_changed_by_the_network", "restart_after_parameter_change"} {
		res.Floor(f, 1)
	}
	vRunChainCheck(t, res, vChainOpts{Histories: [2]int{60, 3000}, Templates: 2, RandomSteps: 40,
		Tune: func(g *vGen) { g.W["create-deployment"] = 30 },
		Extra: func(res *vs.Result) {
			if vs.ReplayFile() == "" {
				vC19Sweep(t, res)
				vC19ParamChanges(res)
			}
		},
	}, func() []vMonitor {
		return []vMonitor{&vMonC19{res: res}}
	})
}
