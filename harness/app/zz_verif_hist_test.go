//go:build verif
// +build verif

package app

// History runner: executes steps (gap, signer, msgs) against a vChain, takes
// a snapshot after every tx and hands (pre, tx, result, post) to the armed
// monitors.  Steps are recorded so that a violation can be replayed exactly.

import (
	"encoding/json"
	"fmt"
	"runtime/debug"
	"strings"

	sdk "github.com/cosmos/cosmos-sdk/types"
	"github.com/cosmos/cosmos-sdk/x/params"
	paramproposal "github.com/cosmos/cosmos-sdk/x/params/types/proposal"
	abci "github.com/tendermint/tendermint/abci/types"

	vs "github.com/ovrclk/akash/verifsupport"
)

type vStep struct {
	Gap     int               `json:"gap"`
	Signer  int               `json:"signer"`
	Msgs    []json.RawMessage `json:"msgs"`
	Note    string            `json:"note,omitempty"`
	Height  int64             `json:"height,omitempty"`
	Code    uint32            `json:"code"`
	Log     string            `json:"log,omitempty"`
	BadSign int               `json:"bad_sign,omitempty"`
	// Gov: not a transaction but a parameter change decided by the network
	// ("subspace/key=json value"), applied through the params proposal
	// handler between two transactions.
	Gov string `json:"gov,omitempty"`
	// Restart: the node is restarted (new application object over the same
	// database) before this step.
	Restart bool `json:"restart,omitempty"`
}

type vTxObs struct {
	Idx    int
	Height int64
	Gap    int
	Signer *vActor
	Msgs   []sdk.Msg
	Res    abci.ResponseDeliverTx
	OK     bool
	Pre    *vSnap
	Post   *vSnap
	// PreFresh: Pre was taken after crossing a block boundary (so it is an
	// observation of its own, not the previous tx's Post).
	PreFresh bool
	Note     string
	// RightSigner: the key used to sign belongs to the single address that
	// every message names as its signer.
	RightSigner bool
	Forged      bool
	TxBytes     []byte
	Hashes      [][]byte
}

type vMonitor interface {
	AfterTx(h *vHist, o *vTxObs)
	End(h *vHist)
}

type vHistCase struct {
	Profile   vProfile `json:"profile"`
	ActorSeed int64    `json:"actor_seed"`
	Origin    string   `json:"origin"`
	Steps     []vStep  `json:"steps"`
}

type vHist struct {
	Origin string
	c      *vChain
	rng    *vs.Rand
	res    *vs.Result
	mons   []vMonitor
	steps  []vStep
	last   *vSnap
	n      int
	// actorSeed is recorded for replay
	actorSeed int64
	// abstraction of the history for distinct counting
	shape []string
	// set by monitors when this history exercised the property non-trivially
	nontrivial bool
	stopped    bool
	// invariant violations already reported for an object in this history
	// (a broken state persists; it is reported where it first appears)
	onceSeen map[string]bool
	// MaxSteps bounds do() calls (safety)
	MaxSteps int
	// app hashes of blocks committed by Gov / Restart steps since the last tx
	pendingHashes [][]byte
	// the network parameters the chain started with (the chain's profile
	// follows parameter changes)
	profile0 vProfile
}

func vNewHist(origin string, actorSeed int64, prof vProfile, rng *vs.Rand, res *vs.Result, mons ...vMonitor) *vHist {
	h := &vHist{Origin: origin, c: vNewChain(actorSeed, prof), rng: rng, res: res, mons: mons, actorSeed: actorSeed, MaxSteps: 400, profile0: prof}
	h.c.advance(1)
	h.last = h.c.snapshot()
	return h
}

func (h *vHist) actor(role string, i int) *vActor {
	n := 0
	for _, a := range h.c.actors {
		if a.Role == role {
			if n == i {
				return a
			}
			n++
		}
	}
	panic("no such actor " + role)
}

func (h *vHist) roleActors(role string) []*vActor {
	var out []*vActor
	for _, a := range h.c.actors {
		if a.Role == role {
			out = append(out, a)
		}
	}
	return out
}

func vExpectedSigner(msgs []sdk.Msg) (addr string, ok bool) {
	defer func() {
		if r := recover(); r != nil {
			addr, ok = "", false
		}
	}()
	for _, m := range msgs {
		ss := m.GetSigners()
		if len(ss) != 1 {
			return "", false
		}
		if addr == "" {
			addr = ss[0].String()
		} else if addr != ss[0].String() {
			return "", false
		}
	}
	return addr, addr != ""
}

// Do executes one transaction `gap` blocks after the previous one, signed
// with signer's key.
func (h *vHist) Do(gap int, signer *vActor, msgs ...sdk.Msg) *vTxObs {
	return h.DoNote("", gap, signer, msgs...)
}

func (h *vHist) DoNote(note string, gap int, signer *vActor, msgs ...sdk.Msg) *vTxObs {
	return h.doTx(note, gap, signer, nil, msgs...)
}

// DoForged: the tx claims `claim` as signer (public key, account number,
// sequence) but carries a signature made with signer's key.
func (h *vHist) DoForged(note string, gap int, signer, claim *vActor, msgs ...sdk.Msg) *vTxObs {
	return h.doTx(note, gap, signer, claim, msgs...)
}

func (h *vHist) doTx(note string, gap int, signer, claim *vActor, msgs ...sdk.Msg) *vTxObs {
	if h.stopped || h.n >= h.MaxSteps {
		h.stopped = true
		return &vTxObs{Pre: h.last, Post: h.last, Signer: signer, Msgs: msgs}
	}
	reqGap := gap
	hashes := append(h.pendingHashes, h.c.advance(gap)...)
	// blocks committed by Restart / Gov steps since the previous tx count
	// towards the distance between the two transactions
	gap += len(h.pendingHashes)
	h.pendingHashes = nil
	pre := h.last
	preFresh := false
	if gap > 0 || pre == nil {
		// a block boundary was crossed: observe the state again so that
		// "between transactions" includes what Begin/EndBlock did.
		pre = h.c.snapshot()
		preFresh = true
	}
	step := vStep{Gap: reqGap, Signer: signer.Idx, Note: note, Height: h.c.height}
	if claim != nil {
		step.BadSign = claim.Idx + 1
	}
	for _, m := range msgs {
		bz, err := h.c.app.appCodec.MarshalInterfaceJSON(m)
		if err != nil {
			bz, _ = json.Marshal(map[string]string{"marshal_error": err.Error(), "type": fmt.Sprintf("%T", m)})
		}
		step.Msgs = append(step.Msgs, bz)
	}
	exp, single := vExpectedSigner(msgs)
	o := &vTxObs{Idx: h.n, Height: h.c.height, Gap: gap, Signer: signer, Msgs: msgs, Pre: pre, PreFresh: preFresh, Note: note, Hashes: hashes,
		RightSigner: single && exp == signer.Bech && claim == nil, Forged: claim != nil}
	bz, err := h.c.signTx(signer, claim, msgs)
	if err != nil {
		// could not even be encoded (e.g. GetSigners panics on a malformed
		// address): equivalent to a rejection before reaching the chain.
		o.Res = abci.ResponseDeliverTx{Code: 1, Codespace: "verif-encode", Log: err.Error()}
	} else {
		o.TxBytes = bz
		o.Res = h.c.deliverBytes(bz)
	}
	o.OK = o.Res.Code == 0
	o.Post = h.c.snapshot()
	step.Code = o.Res.Code
	if !o.OK {
		step.Log = vTrunc(o.Res.Log, 160)
	}
	h.steps = append(h.steps, step)
	h.last = o.Post
	h.n++
	h.res.Eval(1)
	for _, m := range h.mons {
		m.AfterTx(h, o)
	}
	return o
}

// Gov applies a parameter change the way an accepted governance proposal
// does (x/params proposal handler on the deliver state), gap blocks after the
// previous step, and records it for replay.
func (h *vHist) Gov(gap int, subspace, key, value string) error {
	h.pendingHashes = append(h.pendingHashes, h.c.advance(gap)...)
	h.steps = append(h.steps, vStep{Gap: gap, Note: "gov", Gov: subspace + "/" + key + "=" + value, Height: h.c.height})
	err := h.c.gov(subspace, key, value)
	h.last = h.c.snapshot()
	if err == nil {
		for _, m := range h.mons {
			if g, ok := m.(vGovMonitor); ok {
				g.OnGov(h, subspace, key, value)
			}
		}
	}
	return err
}

// vGovMonitor is implemented by monitors whose oracle depends on network
// parameters.
type vGovMonitor interface {
	OnGov(h *vHist, subspace, key, value string)
}

// gov applies a parameter change on this chain and keeps the chain's idea of
// the network parameters (profile) in step with it.
func (c *vChain) gov(subspace, key, value string) error {
	prop := paramproposal.NewParameterChangeProposal("verif", "verif", []paramproposal.ParamChange{paramproposal.NewParamChange(subspace, key, value)})
	if err := params.NewParamChangeProposalHandler(c.app.keeper.params)(c.ctx(), prop); err != nil {
		return err
	}
	var coin sdk.Coin
	switch subspace + "/" + key {
	case "deployment/DeploymentMinDeposit":
		if c.app.LegacyAmino().UnmarshalJSON([]byte(value), &coin) == nil && coin.Amount.IsInt64() {
			c.profile.DepMinDeposit = coin.Amount.Int64()
		}
	case "market/BidMinDeposit":
		if c.app.LegacyAmino().UnmarshalJSON([]byte(value), &coin) == nil && coin.Amount.IsInt64() {
			c.profile.BidMinDeposit = coin.Amount.Int64()
		}
	case "market/OrderMaxBids":
		var n uint32
		if c.app.LegacyAmino().UnmarshalJSON([]byte(value), &n) == nil {
			c.profile.OrderMaxBids = n
		}
	}
	return nil
}

// Restart commits the open block and restarts the node.
func (h *vHist) Restart() {
	if h.c.open {
		h.pendingHashes = append(h.pendingHashes, h.c.endBlock())
	}
	h.c.restart()
	h.steps = append(h.steps, vStep{Note: "restart", Restart: true, Height: h.c.height})
	h.last = h.c.snapshot()
}

func vTrunc(s string, n int) string {
	if len(s) > n {
		return s[:n] + "…"
	}
	return s
}

func (h *vHist) Case() vHistCase {
	return vHistCase{Profile: h.profile0, ActorSeed: h.actorSeed, Origin: h.Origin, Steps: append([]vStep(nil), h.steps...)}
}

// Violation records a violation of the running property; the trigger class
// is part of the key known findings are matched on.
func (h *vHist) Violation(rule, trigger, detail string) {
	key := h.res.Property + "/" + rule
	if trigger != "" {
		key += "/" + trigger
	}
	h.res.AddViolation(rule, key, fmt.Sprintf("[%s step %d height %d] %s", h.Origin, h.n, h.c.height, detail), h.Case())
}

// ViolationOnce reports a state-invariant violation for an object only the
// first time it is observed in this history, so the trigger names the
// transaction that introduced it.
func (h *vHist) ViolationOnce(obj, rule, trigger, detail string) {
	if h.onceSeen == nil {
		h.onceSeen = map[string]bool{}
	}
	k := rule + "|" + obj
	if h.onceSeen[k] {
		return
	}
	h.onceSeen[k] = true
	h.Violation(rule, trigger, detail)
}

func (h *vHist) Finish() {
	for _, m := range h.mons {
		m.End(h)
	}
	if h.res.WantSample() && len(h.steps) > 0 {
		c := h.Case()
		if len(c.Steps) > 12 {
			c.Steps = c.Steps[:12]
		}
		h.res.Sample(c)
	}
}

// vRunHist runs fn on a fresh history, converting a panic of the harness or
// of block processing into an INCONCLUSIVE note (never a verdict).
func vRunHist(res *vs.Result, origin string, actorSeed int64, prof vProfile, rng *vs.Rand, mons []vMonitor, fn func(h *vHist)) {
	var h *vHist
	defer func() {
		if r := recover(); r != nil {
			st := string(debug.Stack())
			if i := strings.Index(st, "panic("); i > 0 {
				st = st[i:]
			}
			res.Inconclusive(fmt.Sprintf("history %s aborted by panic: %v\n%s", origin, r, vTrunc(st, 1500)))
		}
	}()
	h = vNewHist(origin, actorSeed, prof, rng, res, mons...)
	fn(h)
	h.Finish()
}

// vReplayHist re-executes a recorded case.
func vReplayHist(res *vs.Result, c vHistCase, mons []vMonitor) {
	rng := vs.NewRand(0, 0)
	vRunHist(res, "replay:"+c.Origin, c.ActorSeed, c.Profile, rng, mons, func(h *vHist) {
		for _, st := range c.Steps {
			if st.Restart {
				h.Restart()
				continue
			}
			if st.Gov != "" {
				i := strings.Index(st.Gov, "=")
				j := strings.Index(st.Gov, "/")
				if i < 0 || j < 0 || j > i {
					res.Inconclusive("replay: malformed gov step " + st.Gov)
					return
				}
				_ = h.Gov(st.Gap, st.Gov[:j], st.Gov[j+1:i], st.Gov[i+1:])
				continue
			}
			var msgs []sdk.Msg
			for _, raw := range st.Msgs {
				var m sdk.Msg
				if err := h.c.app.appCodec.UnmarshalInterfaceJSON(raw, &m); err != nil {
					res.Inconclusive("replay: cannot decode message: " + err.Error())
					return
				}
				msgs = append(msgs, m)
			}
			if st.BadSign > 0 {
				h.DoForged(st.Note, st.Gap, h.c.actors[st.Signer], h.c.actors[st.BadSign-1], msgs...)
			} else {
				h.DoNote(st.Note, st.Gap, h.c.actors[st.Signer], msgs...)
			}
		}
	})
}
