//go:build verif
// +build verif

package app

// C08 — bid admission rules and the provider attribute guard.
// DESIGN.md §5 C08.  The admission predicate is evaluated on the pre-state
// snapshot in plain set algebra; only "accepted although inadmissible" is an
// alarm.

import (
	"fmt"
	"sort"
	"strings"
	"testing"

	sdk "github.com/cosmos/cosmos-sdk/types"

	"github.com/ovrclk/akash/types"
	vs "github.com/ovrclk/akash/verifsupport"
	atypes "github.com/ovrclk/akash/x/audit/types"
	dtypes "github.com/ovrclk/akash/x/deployment/types"
	mtypes "github.com/ovrclk/akash/x/market/types"
	ptypes "github.com/ovrclk/akash/x/provider/types"
)

func vAttrSubset(req, have types.Attributes) bool {
	for _, r := range req {
		found := false
		for _, x := range have {
			if x.Key == r.Key && x.Value == r.Value {
				found = true
				break
			}
		}
		if !found {
			return false
		}
	}
	return true
}

// vCovers is the statement's coverage rule.  signed maps auditor -> the
// attributes that auditor attested for the provider (absent = no attestation).
func vCovers(req types.PlacementRequirements, own types.Attributes, signed map[string]types.Attributes) bool {
	if len(req.SignedBy.AllOf) == 0 && len(req.SignedBy.AnyOf) == 0 {
		return vAttrSubset(req.Attributes, own)
	}
	for _, a := range req.SignedBy.AllOf {
		at, ok := signed[a]
		if !ok || !vAttrSubset(req.Attributes, at) {
			return false
		}
	}
	if len(req.SignedBy.AnyOf) == 0 {
		return true
	}
	for _, a := range req.SignedBy.AnyOf {
		if at, ok := signed[a]; ok && vAttrSubset(req.Attributes, at) {
			return true
		}
	}
	return false
}

type vMonC08 struct {
	res *vs.Result
	// shadow model of the attestations: "owner|auditor" -> key -> value, built
	// from the successful sign / delete messages alone (what every auditor
	// has signed and not revoked); the chain starts without attestations
	signed map[string]map[string]string
}

// applyAudit folds the audit messages of a successful tx into the shadow
// model and compares the stored attestation records with it.
func (m *vMonC08) applyAudit(h *vHist, o *vTxObs) {
	if m.signed == nil {
		m.signed = map[string]map[string]string{}
	}
	if !o.OK {
		return
	}
	touched := false
	kind := ""
	for _, msg := range o.Msgs {
		switch x := msg.(type) {
		case *atypes.MsgSignProviderAttributes:
			touched, kind = true, "sign"
			k := x.Owner + "|" + x.Auditor
			if m.signed[k] == nil {
				m.signed[k] = map[string]string{}
			}
			for _, a := range x.Attributes {
				m.signed[k][a.Key] = a.Value
			}
		case *atypes.MsgDeleteProviderAttributes:
			touched, kind = true, "delete"
			k := x.Owner + "|" + x.Auditor
			if len(x.Keys) == 0 {
				delete(m.signed, k)
			} else {
				for _, key := range x.Keys {
					delete(m.signed[k], key)
				}
				if len(m.signed[k]) == 0 {
					delete(m.signed, k)
				}
				if len(x.Keys) >= 2 {
					m.res.Count("attestation_delete_several_keys", 1)
				}
			}
		}
	}
	if !touched {
		return
	}
	m.res.Count("attestation_model_comparisons", 1)
	keys := map[string]bool{}
	for k := range m.signed {
		keys[k] = true
	}
	for k := range o.Post.Audits {
		keys[k] = true
	}
	var ks []string
	for k := range keys {
		ks = append(ks, k)
	}
	sort.Strings(ks)
	for _, k := range ks {
		want := m.signed[k]
		rec, stored := o.Post.Audits[k]
		got := map[string]string{}
		for _, a := range rec.Attributes {
			got[a.Key] = a.Value
		}
		same := stored == (want != nil) && len(got) == len(want)
		if same {
			for kk, v := range want {
				if got[kk] != v {
					same = false
				}
			}
		}
		if !same {
			h.ViolationOnce("attestation:"+k, "attestation-record-equals-signed-minus-revoked", kind,
				fmt.Sprintf("attestation %s: stored %v (present=%v), signed and not revoked according to the messages: %v", k, rec.Attributes, stored, want))
		}
	}
}

func (m *vMonC08) AfterTx(h *vHist, o *vTxObs) {
	pre := o.Pre
	// the attestations in force before this tx, according to the messages
	signedBefore := map[string]map[string]types.Attributes{}
	for k, attrs := range m.signed {
		parts := strings.SplitN(k, "|", 2)
		var at types.Attributes
		var names []string
		for kk := range attrs {
			names = append(names, kk)
		}
		sort.Strings(names)
		for _, kk := range names {
			at = append(at, types.Attribute{Key: kk, Value: attrs[kk]})
		}
		if signedBefore[parts[0]] == nil {
			signedBefore[parts[0]] = map[string]types.Attributes{}
		}
		signedBefore[parts[0]][parts[1]] = at
	}
	m.applyAudit(h, o)
	if len(o.Msgs) != 1 {
		return
	}
	switch msg := o.Msgs[0].(type) {
	case *mtypes.MsgCreateBid:
		conj := map[string]bool{}
		order, exists := pre.Orders[vOrderKey(msg.Order)]
		conj["order_exists"] = exists
		conj["order_open"] = !exists || order.State == mtypes.OrderOpen
		prov, registered := pre.Provs[msg.Provider]
		conj["provider_registered"] = registered
		conj["not_tenant"] = msg.Provider != msg.Order.Owner
		conj["price_valid_nonzero"] = msg.Price.IsValid() && msg.Price.Amount.IsPositive()
		max := sdk.ZeroInt()
		denom := vDenom
		if exists {
			for i, r := range order.Spec.Resources {
				if i == 0 {
					denom = r.Price.Denom
				}
				max = max.Add(r.Price.Amount.MulRaw(int64(r.Count)))
			}
		}
		conj["price_denom"] = !exists || msg.Price.Denom == denom
		conj["price_le_max"] = !exists || msg.Price.Denom != denom || !msg.Price.IsValid() || msg.Price.Amount.LTE(max)
		conj["deposit_denom"] = msg.Deposit.Denom == vDenom
		conj["deposit_min"] = msg.Deposit.Denom != vDenom || msg.Deposit.Amount.GTE(sdk.NewInt(h.c.profile.BidMinDeposit))
		covers := true
		shape := "none"
		if exists && registered {
			// (from the shadow model, not from the stored records: a revoked
			// attestation that lingers in the store does not count as signed)
			signed := signedBefore[msg.Provider]
			if signed == nil {
				signed = map[string]types.Attributes{}
			}
			for _, k := range vSortedKeysAudit(pre.Audits) {
				rec := pre.Audits[k]
				if _, ok := signed[rec.Auditor]; rec.Owner == msg.Provider && !ok {
					m.res.Count("stored_attestation_not_in_model", 1)
				}
			}
			req := order.Spec.Requirements
			covers = vCovers(req, prov.Attributes, signed)
			switch {
			case len(req.SignedBy.AllOf) > 0 && len(req.SignedBy.AnyOf) > 0:
				shape = "both"
			case len(req.SignedBy.AllOf) > 0:
				shape = "allof"
			case len(req.SignedBy.AnyOf) > 0:
				shape = "anyof"
			}
			if shape != "none" {
				m.res.Count("req_shape_"+shape, 1)
				if vHasDup(req.SignedBy.AllOf) || vHasDup(req.SignedBy.AnyOf) {
					m.res.Count("req_shape_duplicates", 1)
				}
				for _, a := range append(append([]string{}, req.SignedBy.AllOf...), req.SignedBy.AnyOf...) {
					if at, ok := signed[a]; ok && !vAttrSubset(req.Attributes, at) {
						m.res.Count("auditor_present_partial_attributes", 1)
						break
					}
				}
			}
		}
		conj["covers"] = covers
		var falses []string
		for k, v := range conj {
			if !v {
				falses = append(falses, k)
			}
		}
		sort.Strings(falses)
		admissible := len(falses) == 0
		if len(falses) == 1 {
			m.res.Count("only_false:"+falses[0], 1)
		}
		if o.OK && !admissible {
			h.Violation("bid-accepted-only-if-admissible", strings.Join(falses, "+"),
				fmt.Sprintf("bid %s by %s at %s (deposit %s) was accepted although: %v. order=%v provider-attrs=%v requirements=%+v",
					vOrderKey(msg.Order), msg.Provider, msg.Price, msg.Deposit, falses, exists, prov.Attributes, order.Spec.Requirements))
		}
		if o.OK {
			m.res.Count("bids_accepted", 1)
			if shape != "none" {
				m.res.Count("bids_accepted_auditor_gated", 1)
			}
		} else if admissible && o.RightSigner {
			cause := "other"
			switch {
			case strings.Contains(o.Res.Log, "bid exists"):
				cause = "bid_exists"
			case strings.Contains(o.Res.Log, "insufficient funds"):
				cause = "insufficient_funds"
			case strings.Contains(o.Res.Log, "too many"):
				cause = "max_bids"
			}
			m.res.Count("rejected_although_admissible:"+cause, 1)
		}
		m.res.Distinct(fmt.Sprintf("bid|ok=%v|%s|%s", o.OK, strings.Join(falses, "+"), shape))
	case *ptypes.MsgUpdateProvider:
		if !o.OK {
			if strings.Contains(o.Res.Log, "attributes cannot be changed") {
				m.res.Count("update_rejected_incompatible", 1)
			}
			return
		}
		newAttrs := o.Post.Provs[msg.Owner].Attributes
		n := 0
		for _, lk := range vSortedKeys(o.Post.Leases) {
			l := o.Post.Leases[lk]
			if l.State != mtypes.LeaseActive || l.LeaseID.Provider != msg.Owner {
				continue
			}
			ord, ok := o.Post.Orders[vOrderKey(l.LeaseID.OrderID())]
			if !ok {
				continue
			}
			req := ord.Spec.Requirements
			if len(req.SignedBy.AllOf) > 0 || len(req.SignedBy.AnyOf) > 0 {
				m.res.Count("update_with_auditor_gated_active_lease", 1)
				continue
			}
			n++
			if !vAttrSubset(req.Attributes, newAttrs) {
				h.Violation("provider-update-keeps-covering-active-leases", "",
					fmt.Sprintf("provider %s now declares %v, but its active lease %s requires %v", msg.Owner, newAttrs, lk, req.Attributes))
			}
		}
		if n > 0 {
			m.res.Count("update_accepted_with_active_leases", 1)
			m.res.Distinct(fmt.Sprintf("update|leases=%d", n))
		}
	}
}

func vSortedKeysAudit(m map[string]atypes.Provider) []string {
	var ks []string
	for k := range m {
		ks = append(ks, k)
	}
	sort.Strings(ks)
	return ks
}

func vHasDup(ss []string) bool {
	seen := map[string]bool{}
	for _, s := range ss {
		if seen[s] {
			return true
		}
		seen[s] = true
	}
	return false
}

func (m *vMonC08) End(h *vHist) {}

// vBidNegatives drives every admission conjunct false on its own.
func vBidNegatives(g *vGen) {
	h := g.h
	t := h.actor("tenant", g.r.Intn(3))
	p := h.actor("provider", g.r.Intn(3))
	g.ensureProvider(p)
	h.DoNote("neg/update-provider-full", 0, p, &ptypes.MsgUpdateProvider{Owner: p.Bech, HostURI: "https://" + p.Name + ".example.com", Attributes: vFullAttrs()})
	price := g.unitPrice() + 1
	id, ok := g.tplDeploy(1, t, g.minDep(), []vUnitSpec{{price, 2}}, []vUnitSpec{{price, 1}})
	if !ok {
		return
	}
	min := h.c.profile.BidMinDeposit
	oid := vOrderID(id, 1, 1)
	bid := func(note string, signer *vActor, m mtypes.MsgCreateBid) {
		h.DoNote("neg/"+note, g.r.Intn(2), signer, &m)
	}
	base := mtypes.MsgCreateBid{Order: oid, Provider: p.Bech, Price: vCoin(price * 2), Deposit: vCoin(min)}
	x := base
	x.Price = vCoin(price*2 + 1)
	bid("price-above-max", p, x)
	x = base
	x.Price = sdk.NewInt64Coin("uother", price)
	bid("price-wrong-denom", p, x)
	x = base
	x.Price = vCoin(0)
	bid("price-zero", p, x)
	x = base
	x.Deposit = vCoin(min - 1)
	bid("deposit-below-min", p, x)
	x = base
	x.Deposit = sdk.NewInt64Coin("uother", min)
	bid("deposit-wrong-denom", p, x)
	x = base
	x.Order.OSeq = 9
	bid("order-missing", p, x)
	// unregistered provider: the outsider never registers
	out := h.actor("outsider", 0)
	x = base
	x.Provider = out.Bech
	bid("provider-unregistered", out, x)
	// tenant bidding on its own order, registered as a provider
	if _, reg := h.last.Provs[t.Bech]; !reg {
		h.DoNote("neg/tenant-registers-as-provider", 0, t, &ptypes.MsgCreateProvider{Owner: t.Bech, HostURI: "https://" + t.Name + ".example.com", Attributes: vFullAttrs()})
	}
	x = base
	x.Provider = t.Bech
	bid("self-bid", t, x)
	// the good one, then a bid on the matched / closed order
	bid("good", p, base)
	h.DoNote("neg/lease", g.r.Intn(2), t, &mtypes.MsgCreateLease{BidID: mtypes.MakeBidID(oid, p.Addr)})
	p2 := h.actor("provider", (p.Idx+1)%3)
	g.ensureProvider(p2)
	h.DoNote("neg/update-provider2-full", 0, p2, &ptypes.MsgUpdateProvider{Owner: p2.Bech, HostURI: "https://" + p2.Name + ".example.com", Attributes: vFullAttrs()})
	x = base
	x.Provider = p2.Bech
	bid("order-matched", p2, x)
	h.DoNote("neg/close-lease", g.r.Intn(2), t, &mtypes.MsgCloseLease{LeaseID: mtypes.MakeBidID(oid, p.Addr).LeaseID()})
	bid("order-closed", p2, x)
	// attribute mismatch without auditors
	h.DoNote("neg/update-provider2-partial", 0, p2, &ptypes.MsgUpdateProvider{Owner: p2.Bech, HostURI: "https://" + p2.Name + ".example.com", Attributes: types.Attributes{{Key: "region", Value: "b"}}})
	t2 := h.actor("tenant", (t.Idx+1)%3)
	id2 := dtypes.DeploymentID{Owner: t2.Bech, DSeq: g.freshDSeq(t2)}
	req := types.PlacementRequirements{Attributes: types.Attributes{{Key: "region", Value: "a"}}}
	o := h.DoNote("neg/create-deployment-req", 1, t2, &dtypes.MsgCreateDeployment{ID: id2, Groups: []dtypes.GroupSpec{vGroupSpec("g1", req, vUnitSpec{price, 1})}, Version: vVersion(g.r), Deposit: vCoin(g.minDep())})
	if o.OK {
		bid("attribute-value-mismatch", p2, mtypes.MsgCreateBid{Order: vOrderID(id2, 1, 1), Provider: p2.Bech, Price: vCoin(price), Deposit: vCoin(min)})
	}
}

// ---- function level: MatchRequirements vs vCovers over a small universe ----

func vC08FunctionLevel(res *vs.Result) {
	if vs.ReplayFile() != "" {
		return
	}
	// (the second value of each key is the empty string: legal, and the one
	// value a lookup that confuses "key missing" with "value empty" gets wrong)
	univ := []types.Attribute{{Key: "ka", Value: "1"}, {Key: "ka", Value: ""}, {Key: "kb", Value: "1"}, {Key: "kb", Value: ""}}
	// attribute sets with at most one value per key (9 of them) and two with duplicates of a key
	var sets []types.Attributes
	for a := 0; a < 3; a++ {
		for b := 0; b < 3; b++ {
			var s types.Attributes
			if a > 0 {
				s = append(s, univ[a-1])
			}
			if b > 0 {
				s = append(s, univ[1+b])
			}
			sets = append(sets, s)
		}
	}
	auds := []string{"A1", "A2", "A3"}
	var lists [][]string
	lists = append(lists, nil)
	for _, a := range auds {
		lists = append(lists, []string{a})
	}
	for _, a := range auds {
		for _, b := range auds {
			lists = append(lists, []string{a, b})
		}
	}
	// signed maps: each of A1, A2 absent or one of 4 attribute sets
	signedOpts := []types.Attributes{nil, {}, sets[4], sets[8], sets[1]}
	n, mism := 0, 0
	for _, req := range sets {
		for _, own := range sets {
			for _, allOf := range lists {
				for _, anyOf := range lists {
					for s1 := range signedOpts {
						for s2 := range signedOpts {
							signed := map[string]types.Attributes{}
							provs := []atypes.Provider{{Owner: "P", Attributes: own}}
							if s1 > 0 {
								signed["A1"] = signedOpts[s1]
								provs = append(provs, atypes.Provider{Owner: "P", Auditor: "A1", Attributes: signedOpts[s1]})
							}
							if s2 > 0 {
								signed["A2"] = signedOpts[s2]
								provs = append(provs, atypes.Provider{Owner: "P", Auditor: "A2", Attributes: signedOpts[s2]})
							}
							pr := types.PlacementRequirements{Attributes: req, SignedBy: types.SignedBy{AllOf: allOf, AnyOf: anyOf}}
							spec := dtypes.GroupSpec{Name: "g", Requirements: pr}
							got := spec.MatchRequirements(provs)
							want := vCovers(pr, own, signed)
							n++
							if got && !want {
								mism++
								res.AddViolation("match-requirements-implies-covers", "C08/function/match-accepts-uncovered",
									fmt.Sprintf("MatchRequirements accepted: req=%v own=%v allOf=%v anyOf=%v signed=%v", req, own, allOf, anyOf, signed),
									map[string]interface{}{"req": req, "own": own, "allOf": allOf, "anyOf": anyOf, "signed": signed})
							}
							if !got && want {
								res.Count("function_rejected_although_covered", 1)
							}
						}
					}
				}
			}
		}
	}
	res.Eval(n)
	res.Count("function_level_cases", n)
	res.Extra("function_level", fmt.Sprintf("GroupSpec.MatchRequirements vs set-algebra oracle on all %d combinations of 9 requirement sets x 9 own sets x 13x13 allOf/anyOf lists (len<=2, duplicates included) x 5x5 attestation states of two auditors (complete)", n))
}

func TestVerif_C08(t *testing.T) {
	res := vs.NewResult("C08", "exploration",
		"signed-tx histories against the real app with attestations and provider records churning between bids, prices at max-1/max/max+1/0/wrong denom, deposits at min-1/min; the admission predicate (order open, provider registered and not the tenant, price valid/non-zero/<=max, deposit>=min, attribute coverage by own or auditor-signed attributes) is evaluated in set algebra on the pre-state; alarm only on accepted-although-inadmissible and on provider updates that uncover an active lease; plus MatchRequirements vs the oracle over a complete small universe. distinct = (accepted?, set of false conjuncts, requirement shape)")
	res.Assume("chain driven at the ABCI boundary without Tendermint; zero fees")
	for _, c := range []string{"order_exists", "order_open", "provider_registered", "not_tenant", "price_valid_nonzero", "price_denom", "price_le_max", "deposit_denom", "deposit_min", "covers"} {
		res.Floor("only_false:"+c, 1)
	}
	for _, c := range []string{"req_shape_allof", "req_shape_anyof", "req_shape_both", "req_shape_duplicates", "auditor_present_partial_attributes", "bids_accepted", "bids_accepted_auditor_gated", "update_accepted_with_active_leases", "update_rejected_incompatible", "function_level_cases"} {
		res.Floor(c, 1)
	}
	vRunChainCheck(t, res, vChainOpts{Histories: [2]int{150, 5000}, Templates: 3, RandomSteps: 50,
		Tune: func(g *vGen) {
			g.W["create-bid"] = 26
			g.W["sign-attrs"] = 9
			g.W["delete-attrs"] = 4
			g.W["update-provider"] = 8
			g.W["create-provider"] = 5
			g.AtStart = vBidNegatives
		},
		Extra: vC08FunctionLevel,
	}, func() []vMonitor {
		return []vMonitor{&vMonC08{res: res}}
	})
}
