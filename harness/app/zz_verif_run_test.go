//go:build verif
// +build verif

package app

// Common entry point of the chain-engine checks: runs the seeded list of
// histories on all cores, or replays one recorded case.

import (
	"fmt"
	"runtime"
	"sort"
	"strings"
	"testing"

	sdk "github.com/cosmos/cosmos-sdk/types"

	vs "github.com/ovrclk/akash/verifsupport"
	dtypes "github.com/ovrclk/akash/x/deployment/types"
	etypes "github.com/ovrclk/akash/x/escrow/types"
	mtypes "github.com/ovrclk/akash/x/market/types"
)

type vChainOpts struct {
	Histories   [2]int // quick, thorough
	Templates   int
	RandomSteps int
	Tune        func(g *vGen)
	// SmallShare: numerator/denominator of histories run under the
	// small-money profile.
	SmallNum, SmallDen int
	// Extra runs after the histories (direct-keeper mode etc.).
	Extra func(res *vs.Result)
	// Only templates with these names (nil = all).
	OnlyTemplates []string
}

func vRunChainCheck(t *testing.T, res *vs.Result, opts vChainOpts, mk func() []vMonitor) {
	defer func() {
		if err := res.Write(); err != nil {
			t.Fatalf("cannot write result: %v", err)
		}
		if n := res.Violations(); n > 0 {
			t.Errorf("%d violation(s) recorded", n)
		}
	}()
	if rp := vs.ReplayFile(); rp != "" {
		var c vHistCase
		if err := vs.LoadReplay(rp, &c); err != nil {
			t.Fatalf("replay: %v", err)
		}
		vReplayHist(res, c, mk())
		return
	}
	n := opts.Histories[0]
	if vs.Thorough() {
		n = opts.Histories[1]
	}
	if opts.SmallDen == 0 {
		opts.SmallNum, opts.SmallDen = 1, 2
	}
	seed := vs.Seed()
	vs.Parallel(n, runtime.NumCPU(), func(i int) {
		rng := vs.NewRand(seed, uint64(i))
		prof := vProfileDefault
		if i%opts.SmallDen < opts.SmallNum {
			prof = vProfileSmall
		}
		origin := fmt.Sprintf("seed=%d/hist=%d/%s", seed, i, prof.Name)
		vRunHist(res, origin, seed*1000003+int64(i%7), prof, rng, mk(), func(h *vHist) {
			vRunRandomHistory(h, opts.Templates, opts.RandomSteps, opts.Tune)
		})
	})
	if opts.Extra != nil {
		opts.Extra(res)
	}
}

// ---------------------------------------------------------------------------
// classification helpers shared by the monitors

func vMsgKind(m sdk.Msg) string {
	defer func() { _ = recover() }()
	return m.Type()
}

func vKindOf(o *vTxObs) string {
	var ks []string
	for _, m := range o.Msgs {
		ks = append(ks, vMsgKind(m))
	}
	return strings.Join(ks, "+")
}

func vGapClass(gap int) string {
	switch {
	case gap == 0:
		return "g0"
	case gap == 1:
		return "g1"
	case gap <= 3:
		return "g2-3"
	default:
		return "g4+"
	}
}

// vTransitions lists the kinds of state changes between two snapshots
// (type and states only, no ids), sorted.
func vTransitions(pre, post *vSnap) []string {
	set := map[string]bool{}
	for k, n := range post.Accts {
		if o, ok := pre.Accts[k]; !ok {
			set["acct:new:"+n.ID.Scope] = true
		} else if o.State != n.State {
			set[fmt.Sprintf("acct:%s:%s->%s", n.ID.Scope, vAcctState(o.State), vAcctState(n.State))] = true
		}
	}
	for k, n := range post.Pays {
		if o, ok := pre.Pays[k]; !ok {
			set["pay:new"] = true
		} else {
			if o.State != n.State {
				set[fmt.Sprintf("pay:%s->%s", vPayState(o.State), vPayState(n.State))] = true
			}
			if !o.Withdrawn.IsEqual(n.Withdrawn) {
				set["pay:withdrawn"] = true
			}
		}
	}
	for k, n := range post.Deps {
		if o, ok := pre.Deps[k]; !ok {
			set["dep:new"] = true
		} else if o.State != n.State {
			set["dep:closed"] = true
		}
	}
	for k, n := range post.Groups {
		if o, ok := pre.Groups[k]; ok && o.State != n.State {
			set[fmt.Sprintf("group:%s->%s", o.State, n.State)] = true
		}
	}
	for k, n := range post.Orders {
		if o, ok := pre.Orders[k]; !ok {
			set["order:new"] = true
		} else if o.State != n.State {
			set[fmt.Sprintf("order:%s->%s", o.State, n.State)] = true
		}
	}
	for k, n := range post.Bids {
		if o, ok := pre.Bids[k]; !ok {
			set["bid:new"] = true
		} else if o.State != n.State {
			set[fmt.Sprintf("bid:%s->%s", o.State, n.State)] = true
		}
	}
	for k, n := range post.Leases {
		if o, ok := pre.Leases[k]; !ok {
			set["lease:new"] = true
		} else if o.State != n.State {
			set[fmt.Sprintf("lease:%s->%s", o.State, n.State)] = true
		}
	}
	var out []string
	for k := range set {
		out = append(out, k)
	}
	sort.Strings(out)
	return out
}

func vAcctState(s etypes.Account_State) string {
	switch s {
	case etypes.AccountOpen:
		return "open"
	case etypes.AccountClosed:
		return "closed"
	case etypes.AccountOverdrawn:
		return "overdrawn"
	}
	return "invalid"
}

func vPayState(s etypes.Payment_State) string {
	switch s {
	case etypes.PaymentOpen:
		return "open"
	case etypes.PaymentClosed:
		return "closed"
	case etypes.PaymentOverdrawn:
		return "overdrawn"
	}
	return "invalid"
}

func vHas(ss []string, x string) bool {
	for _, s := range ss {
		if s == x {
			return true
		}
	}
	return false
}

func vHasPrefix(ss []string, p string) bool {
	for _, s := range ss {
		if strings.HasPrefix(s, p) {
			return true
		}
	}
	return false
}

// vShape is the abstraction of one tx used for distinct counting.
func vShape(o *vTxObs, tr []string) string {
	return fmt.Sprintf("%s|ok=%v|%s|%s|right=%v", vKindOf(o), o.OK, vGapClass(o.Gap), strings.Join(tr, ","), o.RightSigner)
}

// id helpers re-stating the documented escrow naming
func vDepAcctKey(id dtypes.DeploymentID) string {
	return fmt.Sprintf("deployment/%s/%d", id.Owner, id.DSeq)
}
func vBidAcctKey(id mtypes.BidID) string {
	return fmt.Sprintf("bid/%s/%d/%d/%d/%s", id.Owner, id.DSeq, id.GSeq, id.OSeq, id.Provider)
}
func vLeasePayKey(id mtypes.LeaseID) string {
	return fmt.Sprintf("deployment/%s/%d/%d/%d/%s", id.Owner, id.DSeq, id.GSeq, id.OSeq, id.Provider)
}
