//go:build verif
// +build verif

package app

// C04 — marketplace lifecycle consistency.  DESIGN.md §5 C04.

import (
	"fmt"
	"testing"

	vs "github.com/ovrclk/akash/verifsupport"
	dtypes "github.com/ovrclk/akash/x/deployment/types"
	mtypes "github.com/ovrclk/akash/x/market/types"
)

type vMonC04 struct {
	res *vs.Result
}

func (m *vMonC04) invariants(h *vHist, s *vSnap, where string) {
	// index
	activeLeasesOfOrder := map[string]int{}
	for _, k := range vSortedKeys(s.Leases) {
		l := s.Leases[k]
		if l.State == mtypes.LeaseActive {
			activeLeasesOfOrder[vOrderKey(l.LeaseID.OrderID())]++
		}
	}
	liveOrdersOfGroup := map[string]int{}
	for _, k := range vSortedKeys(s.Orders) {
		o := s.Orders[k]
		if o.State != mtypes.OrderClosed {
			liveOrdersOfGroup[vGroupKey(o.OrderID.GroupID())]++
		}
	}

	// I1 order active <=> exactly one active lease
	for _, k := range vSortedKeys(s.Orders) {
		o := s.Orders[k]
		n := activeLeasesOfOrder[k]
		if o.State == mtypes.OrderActive && n != 1 {
			h.ViolationOnce(k, "I1-matched-order-has-one-active-lease", where, fmt.Sprintf("order %s is matched but has %d active leases", k, n))
		}
		if o.State != mtypes.OrderActive && n != 0 {
			h.ViolationOnce(k, "I1-active-lease-implies-matched-order", where, fmt.Sprintf("order %s is %s but has %d active leases", k, o.State, n))
		}
		// I9 referential
		if _, ok := s.Groups[vGroupKey(o.OrderID.GroupID())]; !ok {
			h.ViolationOnce(k, "I9-order-has-group", where, "order "+k+" has no group")
		}
	}
	// I2 / I8 / I9 leases
	for _, k := range vSortedKeys(s.Leases) {
		l := s.Leases[k]
		b, okb := s.Bids[k]
		o, oko := s.Orders[vOrderKey(l.LeaseID.OrderID())]
		g, okg := s.Groups[vGroupKey(l.LeaseID.GroupID())]
		d, okd := s.Deps[vDepKey(l.LeaseID.DeploymentID())]
		if !okb || !oko || !okg || !okd {
			h.ViolationOnce(k, "I9-lease-has-parents", where, fmt.Sprintf("lease %s: bid=%v order=%v group=%v deployment=%v", k, okb, oko, okg, okd))
			continue
		}
		if l.State == mtypes.LeaseActive {
			if b.State != mtypes.BidActive || o.State != mtypes.OrderActive || g.State != dtypes.GroupOpen || d.State != dtypes.DeploymentActive {
				h.ViolationOnce(k, "I2-active-lease-parents-live", where,
					fmt.Sprintf("lease %s active with bid %s, order %s, group %s, deployment %s", k, b.State, o.State, g.State, d.State))
			}
		}
		if !l.Price.IsEqual(b.Price) {
			h.ViolationOnce(k, "I8-lease-price-equals-bid-price", where, fmt.Sprintf("lease %s price %s, bid price %s", k, l.Price, b.Price))
		}
		max := o.Spec.Price()
		if l.Price.Denom != max.Denom || l.Price.Amount.GT(max.Amount) {
			h.ViolationOnce(k, "I8-lease-price-within-order-max", where, fmt.Sprintf("lease %s price %s, order maximum %s", k, l.Price, max))
		}
	}
	// I3 / I9 bids
	for _, k := range vSortedKeys(s.Bids) {
		b := s.Bids[k]
		o, ok := s.Orders[vOrderKey(b.BidID.OrderID())]
		if !ok {
			h.ViolationOnce(k, "I9-bid-has-order", where, "bid "+k+" has no order")
			continue
		}
		if b.State == mtypes.BidOpen && o.State != mtypes.OrderOpen {
			h.ViolationOnce(k, "I3-open-bid-implies-open-order", where, fmt.Sprintf("bid %s open, order %s", k, o.State))
		}
	}
	// I4 I5 I6 groups
	for _, k := range vSortedKeys(s.Groups) {
		g := s.Groups[k]
		d, ok := s.Deps[vDepKey(g.GroupID.DeploymentID())]
		if !ok {
			h.ViolationOnce(k, "I9-group-has-deployment", where, "group "+k+" has no deployment")
			continue
		}
		n := liveOrdersOfGroup[k]
		if n > 1 {
			h.ViolationOnce(k, "I4-at-most-one-live-order-per-group", where, fmt.Sprintf("group %s has %d non-closed orders", k, n))
		}
		if g.State == dtypes.GroupOpen && d.State == dtypes.DeploymentActive && n != 1 {
			h.ViolationOnce(k, "I5-open-group-has-one-live-order", where, fmt.Sprintf("open group %s of an active deployment has %d non-closed orders", k, n))
		}
		if g.State != dtypes.GroupOpen && n != 0 {
			h.ViolationOnce(k, "I6-non-open-group-has-no-live-order", where, fmt.Sprintf("group %s is %s but has %d non-closed orders", k, g.State, n))
		}
		// I7
		if d.State == dtypes.DeploymentClosed && (g.State == dtypes.GroupOpen || g.State == dtypes.GroupPaused) {
			h.ViolationOnce(k, "I7-closed-deployment-has-no-live-group", where+"/group-"+g.State.String(), fmt.Sprintf("deployment %s is closed but group %s is %s", vDepKey(d.DeploymentID), k, g.State))
		}
	}
	for _, k := range vSortedKeys(s.Orders) {
		o := s.Orders[k]
		d, ok := s.Deps[vDepKey(o.OrderID.GroupID().DeploymentID())]
		if ok && d.State == dtypes.DeploymentClosed && o.State != mtypes.OrderClosed {
			h.ViolationOnce(k, "I7-closed-deployment-has-no-live-order", where, fmt.Sprintf("deployment closed, order %s is %s", k, o.State))
		}
	}
	for _, k := range vSortedKeys(s.Bids) {
		b := s.Bids[k]
		d, ok := s.Deps[vDepKey(b.BidID.DeploymentID())]
		if ok && d.State == dtypes.DeploymentClosed && (b.State == mtypes.BidOpen || b.State == mtypes.BidActive) {
			h.ViolationOnce(k, "I7-closed-deployment-has-no-live-bid", where, fmt.Sprintf("deployment closed, bid %s is %s", k, b.State))
		}
	}
	for _, k := range vSortedKeys(s.Leases) {
		l := s.Leases[k]
		d, ok := s.Deps[vDepKey(l.LeaseID.DeploymentID())]
		if ok && d.State == dtypes.DeploymentClosed && l.State == mtypes.LeaseActive {
			h.ViolationOnce(k, "I7-closed-deployment-has-no-active-lease", where, fmt.Sprintf("deployment closed, lease %s active", k))
		}
	}
}

func (m *vMonC04) AfterTx(h *vHist, o *vTxObs) {
	if o.PreFresh {
		m.invariants(h, o.Pre, "between-blocks")
	}
	m.invariants(h, o.Post, "after:"+vKindOf(o))
	tr := vTransitions(o.Pre, o.Post)
	if len(tr) > 0 {
		m.res.Distinct(vShape(o, tr))
	}
	if !o.OK {
		// message aimed at a group whose deployment is closed
		for _, msg := range o.Msgs {
			var gid *dtypes.GroupID
			switch mm := msg.(type) {
			case *dtypes.MsgPauseGroup:
				gid = &mm.ID
			case *dtypes.MsgStartGroup:
				gid = &mm.ID
			case *dtypes.MsgCloseGroup:
				gid = &mm.ID
			}
			if gid != nil {
				if d, ok := o.Pre.Deps[vDepKey(gid.DeploymentID())]; ok && d.State == dtypes.DeploymentClosed {
					m.res.Count("group_msg_on_closed_deployment", 1)
				}
			}
		}
		return
	}
	for _, msg := range o.Msgs {
		var gid *dtypes.GroupID
		switch mm := msg.(type) {
		case *dtypes.MsgPauseGroup:
			gid = &mm.ID
		case *dtypes.MsgStartGroup:
			gid = &mm.ID
		case *dtypes.MsgCloseGroup:
			gid = &mm.ID
		}
		if gid != nil {
			if d, ok := o.Pre.Deps[vDepKey(gid.DeploymentID())]; ok && d.State == dtypes.DeploymentClosed {
				m.res.Count("group_msg_on_closed_deployment", 1)
			}
		}
	}
	if vHas(tr, "acct:deployment:open->overdrawn") {
		m.res.Count("overdraft", 1)
		for _, k := range vSortedKeys(o.Pre.Groups) {
			g := o.Pre.Groups[k]
			if g.State == dtypes.GroupPaused {
				if n, ok := o.Post.Groups[k]; ok && n.State != dtypes.GroupPaused {
					m.res.Count("overdraft_with_paused_sibling", 1)
				}
			}
		}
	}
	if vHas(tr, "group:paused->open") {
		m.res.Count("group_restarted", 1)
	}
	if vHas(tr, "bid:active->closed") && vKindOf(o) == mtypes.MsgTypeCloseBid {
		m.res.Count("close_bid_on_matched_bid", 1)
	}
	if vHas(tr, "bid:open->lost") {
		m.res.Count("lost_bids", 1)
	}
	if vKindOf(o) == mtypes.MsgTypeCloseLease && vHas(tr, "order:new") {
		m.res.Count("close_lease_reorders_group", 1)
	}
	if vKindOf(o) == mtypes.MsgTypeCreateLease {
		if mm, ok := o.Msgs[0].(*mtypes.MsgCreateLease); ok && mm.BidID.OSeq > 1 {
			m.res.Count("lease_on_later_order", 1)
		}
	}
}

func (m *vMonC04) End(h *vHist) {}

func TestVerif_C04(t *testing.T) {
	res := vs.NewResult("C04", "exploration",
		"signed-tx histories against the real app (3 tenants, 3 providers, several deployments/groups/bidders, overdrafts under the small-money profile); after every tx a full scan of the decoded deployment and market stores checks the named invariants I1..I9. distinct = (message kind, result, gap class, transition kinds) of txs that changed a lifecycle state")
	res.Assume("chain driven at the ABCI boundary without Tendermint; zero fees")
	for _, f := range []string{"overdraft", "overdraft_with_paused_sibling", "group_restarted", "close_bid_on_matched_bid", "lost_bids", "close_lease_reorders_group", "lease_on_later_order", "group_msg_on_closed_deployment"} {
		res.Floor(f, 1)
	}
	vRunChainCheck(t, res, vChainOpts{Histories: [2]int{160, 6000}, Templates: 3, RandomSteps: 60,
		Tune: func(g *vGen) {
			g.W["pause-group"] = 7
			g.W["start-group"] = 7
			g.W["close-group"] = 4
		},
	}, func() []vMonitor {
		return []vMonitor{&vMonC04{res: res}}
	})
}
