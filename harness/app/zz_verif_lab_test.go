//go:build verif
// +build verif

package app

// E1b — direct-keeper mode: the real escrow keeper (with the real bank
// keeper behind it) is called on throw-away cache branches of a live chain
// state, at arbitrary block heights, next to a per-block reference model
// written from the property statements.  Used for the small-scope
// exhaustive parts of C02 and C03 (DESIGN.md §4.1, §5).

import (
	"fmt"
	"runtime"
	"strings"

	sdk "github.com/cosmos/cosmos-sdk/types"

	vs "github.com/ovrclk/akash/verifsupport"
	etypes "github.com/ovrclk/akash/x/escrow/types"
)

type vLabOp struct {
	Kind string `json:"op"`  // create | deposit | pay | withdraw | payclose | close
	DH   int64  `json:"dh"`  // blocks elapsed before the op
	Pay  int    `json:"pay"` // payment index
	Amt  int64  `json:"amt"` // deposit amount / rate
}

func (o vLabOp) String() string {
	switch o.Kind {
	case "create", "deposit":
		return fmt.Sprintf("+%d:%s(%d)", o.DH, o.Kind, o.Amt)
	case "pay":
		return fmt.Sprintf("+%d:pay%d(rate %d)", o.DH, o.Pay, o.Amt)
	case "close":
		return fmt.Sprintf("+%d:close", o.DH)
	}
	return fmt.Sprintf("+%d:%s%d", o.DH, o.Kind, o.Pay)
}

// ---- reference model -------------------------------------------------------

type vRefPay struct {
	exists    bool
	state     int // 1 open 2 closed 3 overdrawn
	rate      int64
	bal, wd   int64
	createdAt int64
	endedAt   int64
	// after an overdraft the split is only bounded
	lo, hi  int64
	bounded bool
}

type vRefAcct struct {
	exists      bool
	state       int
	bal, trans  int64
	deposits    int64
	refunded    int64
	settledAt   int64
	pays        [3]vRefPay
	overdraftAt int64
	odRemainder int64
}

// settle accrues block by block.  Returns true if the account ran dry.
func (a *vRefAcct) settle(h int64) bool {
	if !a.exists || a.state != 1 {
		return false
	}
	for b := a.settledAt + 1; b <= h; b++ {
		var R int64
		for i := range a.pays {
			if a.pays[i].exists && a.pays[i].state == 1 {
				R += a.pays[i].rate
			}
		}
		if R == 0 {
			continue
		}
		if a.bal >= R {
			for i := range a.pays {
				if p := &a.pays[i]; p.exists && p.state == 1 {
					p.bal += p.rate
				}
			}
			a.bal -= R
			a.trans += R
			continue
		}
		// funds ran out in block b: the whole remainder goes to the open
		// payees, each at most one further block's price.
		a.odRemainder = a.bal
		for i := range a.pays {
			if p := &a.pays[i]; p.exists && p.state == 1 {
				p.lo, p.hi, p.bounded = p.bal+p.wd, p.bal+p.wd+p.rate, true
				p.state = 3
				p.endedAt = b
			}
		}
		a.trans += a.bal
		a.bal = 0
		a.state = 3
		a.overdraftAt = b
		a.settledAt = h
		return true
	}
	a.settledAt = h
	return false
}

func (a *vRefAcct) apply(op vLabOp, h int64) {
	switch op.Kind {
	case "create":
		if a.exists {
			return
		}
		*a = vRefAcct{exists: true, state: 1, bal: op.Amt, deposits: op.Amt, settledAt: h}
	case "deposit":
		if !a.exists || a.state != 1 {
			return
		}
		a.bal += op.Amt
		a.deposits += op.Amt
	case "pay":
		if !a.exists || a.state != 1 {
			return
		}
		if a.settle(h) {
			return
		}
		p := &a.pays[op.Pay]
		if p.exists || op.Amt == 0 {
			return
		}
		*p = vRefPay{exists: true, state: 1, rate: op.Amt, createdAt: h}
	case "withdraw", "payclose":
		p := &a.pays[op.Pay]
		if !a.exists || !p.exists || p.state != 1 {
			return
		}
		if a.settle(h) {
			return
		}
		p.wd += p.bal
		p.bal = 0
		if op.Kind == "payclose" {
			p.state = 2
			p.endedAt = h
		}
	case "close":
		if !a.exists || a.state != 1 {
			return
		}
		if a.settle(h) {
			return
		}
		a.refunded += a.bal
		a.bal = 0
		a.state = 2
		for i := range a.pays {
			if p := &a.pays[i]; p.exists && p.state == 1 {
				p.wd += p.bal
				p.bal = 0
				p.state = 2
				p.endedAt = h
			}
		}
	}
}

// ---- the lab ---------------------------------------------------------------

type vLab struct {
	c      *vChain
	owner  *vActor
	payees [3]*vActor
	id     etypes.AccountID
}

func vNewLab(seed int64) *vLab {
	c := vNewChain(seed, vProfileDefault)
	c.advance(1)
	l := &vLab{c: c, id: etypes.AccountID{Scope: "verif", XID: "lab"}}
	l.owner = c.actors[0]
	l.payees = [3]*vActor{c.actors[3], c.actors[4], c.actors[5]}
	return l
}

type vLabViolation struct {
	Rule, Trigger, Detail string
}

type vLabOutcome struct {
	Violations []vLabViolation
	Overdraft  bool
	OdPayments int
	OdRemNZ    bool // overdraft remainder not divisible / non-zero
	ZeroGapOp  bool
	LaterPay   bool
	TwoSettle  bool
	// DepositSettles: a deposit settled the account (a variant the statement allows)
	DepositSettles bool
	// EagerPayout: accrued amounts were paid out before the payee asked (allowed)
	EagerPayout bool
	Final       string
}

// run executes ops on a cache branch next to the model and compares after
// every op.
func (l *vLab) run(ops []vLabOp) vLabOutcome {
	var out vLabOutcome
	base := l.c.ctx()
	ctx, _ := base.CacheContext()
	k := l.c.app.keeper.escrow
	bank := l.c.app.keeper.bank
	h := l.c.height
	var model vRefAcct
	ownerStart := bank.GetBalance(ctx, l.owner.Addr, vDenom).Amount
	var payeeStart [3]sdk.Int
	for i, p := range l.payees {
		payeeStart[i] = bank.GetBalance(ctx, p.Addr, vDenom).Amount
	}
	moduleStart := bank.GetBalance(ctx, l.c.escrowAddr, vDenom).Amount

	bad := func(rule, trigger, detail string) {
		if len(out.Violations) < 4 {
			out.Violations = append(out.Violations, vLabViolation{rule, trigger, detail})
		}
	}
	settlesInBlock := map[int64]int{}

	for idx, op := range ops {
		h += op.DH
		ctx = ctx.WithBlockHeight(h)
		preState := model.state
		var err error
		func() {
			defer func() {
				if r := recover(); r != nil {
					err = fmt.Errorf("panic: %v", r)
					bad("no-panic", op.Kind, fmt.Sprintf("op %d %s panicked: %v", idx, op, r))
				}
			}()
			switch op.Kind {
			case "create":
				err = k.AccountCreate(ctx, l.id, l.owner.Addr, vCoin(op.Amt))
			case "deposit":
				err = k.AccountDeposit(ctx, l.id, vCoin(op.Amt))
			case "pay":
				err = k.PaymentCreate(ctx, l.id, fmt.Sprintf("p%d", op.Pay), l.payees[op.Pay].Addr, vCoin(op.Amt))
			case "withdraw":
				err = k.PaymentWithdraw(ctx, l.id, fmt.Sprintf("p%d", op.Pay))
			case "payclose":
				err = k.PaymentClose(ctx, l.id, fmt.Sprintf("p%d", op.Pay))
			case "close":
				err = k.AccountClose(ctx, l.id)
			}
		}()
		_ = err
		if model.exists && model.state == 1 && op.Kind != "deposit" && op.Kind != "create" {
			if model.settledAt == h {
				out.ZeroGapOp = true
			}
			settlesInBlock[h]++
			if settlesInBlock[h] >= 2 {
				out.TwoSettle = true
			}
		}
		// The statement leaves open which actions trigger a settlement: a deposit
		// may leave the account unsettled (as the code at hand does), or credit
		// and then settle, or settle first and refuse the deposit when that
		// finds the account overdrawn.  All three are tried; the first one the
		// keeper's records agree with is adopted as the model's next state.
		var cands []*vRefAcct
		{
			a := model
			a.apply(op, h)
			cands = append(cands, &a)
			if op.Kind == "deposit" && model.exists && model.state == 1 {
				b := model
				b.bal += op.Amt
				b.deposits += op.Amt
				b.settle(h)
				c := model
				if !c.settle(h) {
					c.bal += op.Amt
					c.deposits += op.Amt
				}
				cands = append(cands, &b, &c)
			}
		}
		trig := op.Kind
		if op.DH == 0 {
			trig += ":dh0"
		}
		compare := func(m *vRefAcct) []vLabViolation {
			var vv []vLabViolation
			bad := func(rule, trigger, detail string) { vv = append(vv, vLabViolation{rule, trigger, detail}) }
			acct, aerr := k.GetAccount(ctx, l.id)
			if m.exists != (aerr == nil) {
				bad("account-exists", trig, fmt.Sprintf("after %s: model exists=%v, keeper err=%v", vOpsString(ops[:idx+1]), m.exists, aerr))
				return vv
			}
			if !m.exists {
				return vv
			}
			if int(acct.State) != m.state {
				bad("account-state", trig, fmt.Sprintf("after %s: account is %s, the statement implies %s", vOpsString(ops[:idx+1]), vAcctState(acct.State), vAcctState(etypes.Account_State(m.state))))
			}
			if !acct.Balance.Amount.Equal(sdk.NewInt(m.bal)) {
				bad("account-balance", trig, fmt.Sprintf("after %s: account balance %s, expected %d", vOpsString(ops[:idx+1]), acct.Balance.Amount, m.bal))
			}
			if !acct.Transferred.Amount.Equal(sdk.NewInt(m.trans)) {
				bad("account-transferred", trig, fmt.Sprintf("after %s: transferred %s, expected %d", vOpsString(ops[:idx+1]), acct.Transferred.Amount, m.trans))
			}
			sumCred := sdk.ZeroInt()
			sumBal := acct.Balance.Amount
			for i := range m.pays {
				mp := &m.pays[i]
				p, perr := k.GetPayment(ctx, l.id, fmt.Sprintf("p%d", i))
				if mp.exists != (perr == nil) {
					bad("payment-exists", trig, fmt.Sprintf("after %s: payment p%d model exists=%v keeper err=%v", vOpsString(ops[:idx+1]), i, mp.exists, perr))
					continue
				}
				if !mp.exists {
					continue
				}
				cred := p.Balance.Amount.Add(p.Withdrawn.Amount)
				sumCred = sumCred.Add(cred)
				sumBal = sumBal.Add(p.Balance.Amount)
				if int(p.State) != mp.state {
					bad("payment-state", trig, fmt.Sprintf("after %s: payment p%d is %s, the statement implies %s", vOpsString(ops[:idx+1]), i, vPayState(p.State), vPayState(etypes.Payment_State(mp.state))))
				}
				if mp.bounded {
					if cred.LT(sdk.NewInt(mp.lo)) || cred.GT(sdk.NewInt(mp.hi)) {
						bad("overdraft-split-bounds", trig, fmt.Sprintf("after %s: payment p%d (rate %d) credited %s, admissible [%d,%d]", vOpsString(ops[:idx+1]), i, mp.rate, cred, mp.lo, mp.hi))
					}
					if !p.Balance.IsZero() {
						bad("overdrawn-paid-out", trig, fmt.Sprintf("after %s: overdrawn payment p%d keeps balance %s", vOpsString(ops[:idx+1]), i, p.Balance))
					}
					// adopt the implementation's admissible choice
					mp.wd, mp.bal = cred.Int64(), 0
					mp.lo, mp.hi = mp.wd, mp.wd
				} else {
					// what a payee has accrued is balance + withdrawn; how much of it
					// has already been paid out is left to the implementation (it may
					// pay at every settlement), except that the payee's own withdraw
					// or close pays everything
					if !cred.Equal(sdk.NewInt(mp.bal + mp.wd)) {
						bad("payment-accrual-exact", trig, fmt.Sprintf("after %s: payment p%d (rate %d, created at +%d) has balance %s + withdrawn %s, expected %d in total",
							vOpsString(ops[:idx+1]), i, mp.rate, mp.createdAt-l.c.height, p.Balance.Amount, p.Withdrawn.Amount, mp.bal+mp.wd))
					} else {
						if mp.bal == 0 && !p.Balance.IsZero() {
							bad("withdraw-pays-everything", trig, fmt.Sprintf("after %s: payment p%d keeps balance %s although everything accrued was to be paid out", vOpsString(ops[:idx+1]), i, p.Balance.Amount))
						}
						if !p.Balance.Amount.Equal(sdk.NewInt(mp.bal)) {
							out.EagerPayout = true
						}
						mp.bal, mp.wd = p.Balance.Amount.Int64(), p.Withdrawn.Amount.Int64()
					}
				}
				// never more than rate x blocks-open
				end := h
				if mp.state != 1 {
					end = mp.endedAt
				}
				if cred.GT(sdk.NewInt(mp.rate * (end - mp.createdAt))) {
					bad("payee-upper-bound", trig, fmt.Sprintf("after %s: payment p%d credited %s > rate %d x %d blocks open", vOpsString(ops[:idx+1]), i, cred, mp.rate, end-mp.createdAt))
				}
				got := bank.GetBalance(ctx, l.payees[i].Addr, vDenom).Amount.Sub(payeeStart[i])
				if !got.Equal(p.Withdrawn.Amount) {
					bad("payee-bank-equals-withdrawn", trig, fmt.Sprintf("after %s: payee %d received %s, withdrawn field says %s", vOpsString(ops[:idx+1]), i, got, p.Withdrawn.Amount))
				}
			}
			if !sumCred.Equal(acct.Transferred.Amount) {
				bad("transferred-equals-credited", trig, fmt.Sprintf("after %s: transferred %s != sum credited %s", vOpsString(ops[:idx+1]), acct.Transferred.Amount, sumCred))
			}
			if acct.Transferred.Amount.GT(sdk.NewInt(m.deposits)) {
				bad("never-more-than-deposited", trig, fmt.Sprintf("after %s: transferred %s > deposited %d", vOpsString(ops[:idx+1]), acct.Transferred.Amount, m.deposits))
			}
			ownerDelta := bank.GetBalance(ctx, l.owner.Addr, vDenom).Amount.Sub(ownerStart)
			if !ownerDelta.Equal(sdk.NewInt(m.refunded - m.deposits)) {
				bad("owner-bank", trig, fmt.Sprintf("after %s: owner's bank delta %s, expected %d", vOpsString(ops[:idx+1]), ownerDelta, m.refunded-m.deposits))
			}
			mod := bank.GetBalance(ctx, l.c.escrowAddr, vDenom).Amount.Sub(moduleStart)
			if !mod.Equal(sumBal) {
				bad("module-equals-recorded", trig, fmt.Sprintf("after %s: module holds %s, records sum to %s", vOpsString(ops[:idx+1]), mod, sumBal))
			}

			return vv
		}
		chosen := cands[0]
		viol := compare(chosen)
		for ci := 1; ci < len(cands) && len(viol) > 0; ci++ {
			if v2 := compare(cands[ci]); len(v2) == 0 {
				chosen, viol = cands[ci], nil
				out.DepositSettles = true
			}
		}
		for _, v := range viol {
			bad(v.Rule, v.Trigger, v.Detail)
		}
		model = *chosen
		if preState == 1 && model.state == 3 {
			out.Overdraft = true
			n := 0
			for i := range model.pays {
				if model.pays[i].bounded {
					n++
				}
			}
			out.OdPayments = n
			out.OdRemNZ = model.odRemainder > 0
		}
		if op.Kind == "pay" && model.pays[op.Pay].exists && model.pays[op.Pay].createdAt == h {
			for i := range model.pays {
				if i != op.Pay && model.pays[i].exists && model.pays[i].createdAt < h {
					out.LaterPay = true
				}
			}
		}

	}
	var sb strings.Builder
	fmt.Fprintf(&sb, "a:%d/%d/%d", model.state, model.bal, model.trans)
	for i := range model.pays {
		if model.pays[i].exists {
			// credited = balance + withdrawn: how often a payee withdrew is
			// not part of the end state compared by the metamorphic check
			fmt.Fprintf(&sb, " p%d:%d/%d", i, model.pays[i].state, model.pays[i].bal+model.pays[i].wd)
		}
	}
	out.Final = sb.String()
	return out
}

func vOpsString(ops []vLabOp) string {
	var ss []string
	for _, o := range ops {
		ss = append(ss, o.String())
	}
	return "[" + strings.Join(ss, " ") + "]"
}

type vLabCase struct {
	Lab string   `json:"lab"`
	Ops []vLabOp `json:"ops"`
}

// vLabSweep runs all cases on all cores (one lab per worker) and reports.
func vLabSweep(res *vs.Result, name string, n int, gen func(i int) []vLabOp, onOutcome func(ops []vLabOp, out vLabOutcome)) {
	workers := runtime.NumCPU()
	labs := make(chan *vLab, workers)
	for w := 0; w < workers; w++ {
		labs <- vNewLab(int64(1000 + w))
	}
	vs.Parallel(n, workers, func(i int) {
		ops := gen(i)
		if ops == nil {
			return
		}
		l := <-labs
		out := l.run(ops)
		labs <- l
		res.Eval(1)
		for _, v := range out.Violations {
			res.AddViolation(v.Rule, res.Property+"/lab/"+v.Rule+"/"+v.Trigger, "[direct-keeper "+name+"] "+v.Detail, vLabCase{Lab: name, Ops: ops})
		}
		if onOutcome != nil {
			onOutcome(ops, out)
		}
	})
}

// ---------------------------------------------------------------------------
// C03: sequences over {deposit, pay-create, withdraw, pay-close, acct-close}
// with height increments {0, 1, 3} after a create.

func vC03Alphabet() []vLabOp {
	var al []vLabOp
	for _, dh := range []int64{0, 1, 3} {
		al = append(al, vLabOp{Kind: "deposit", DH: dh, Amt: 4})
		for _, r := range []int64{1, 3} {
			pay := 0
			if r == 3 {
				pay = 1
			}
			al = append(al, vLabOp{Kind: "pay", DH: dh, Pay: pay, Amt: r})
		}
		for p := 0; p < 2; p++ {
			al = append(al, vLabOp{Kind: "withdraw", DH: dh, Pay: p})
			al = append(al, vLabOp{Kind: "payclose", DH: dh, Pay: p})
		}
		al = append(al, vLabOp{Kind: "close", DH: dh})
	}
	return al
}

func vEscrowDirectC03(res *vs.Result) {
	if vs.ReplayFile() != "" {
		return
	}
	al := vC03Alphabet()
	depth := vs.Scale(3, 4)
	total := 0
	pow := 1
	for d := 1; d <= depth; d++ {
		pow *= len(al)
		total += pow
	}
	balances := []int64{0, 7}
	decode := func(i int) []vLabOp {
		b := balances[i%len(balances)]
		i /= len(balances)
		// mixed-radix: length then digits
		d := 1
		p := len(al)
		for i >= p {
			i -= p
			p *= len(al)
			d++
		}
		ops := []vLabOp{{Kind: "create", DH: 1, Amt: b}}
		for k := 0; k < d; k++ {
			ops = append(ops, al[i%len(al)])
			i /= len(al)
		}
		return ops
	}
	on := func(ops []vLabOp, out vLabOutcome) {
		last := ops[len(ops)-1]
		if last.Kind == "close" || last.Kind == "payclose" {
			res.Distinct("lab:" + vOpsString(ops))
			if last.DH == 0 && out.ZeroGapOp {
				res.Count("close_at_zero_height_gap", 1)
			}
		}
		res.Count("lab_sequences", 1)
	}
	vLabSweep(res, "c03-enum", total*len(balances), decode, on)
	res.Extra("lab_enumeration", fmt.Sprintf("all sequences of length 1..%d over %d ops x initial balance {0,7}: %d cases (complete)", depth, len(al), total*len(balances)))
	// random longer sequences
	nr := vs.Scale(20000, 400000)
	seed := vs.Seed()
	vLabSweep(res, "c03-random", nr, func(i int) []vLabOp {
		r := vs.NewRand(seed, uint64(7000000+i))
		ops := []vLabOp{{Kind: "create", DH: 1, Amt: int64(r.Intn(12))}}
		n := r.Range(5, 8)
		for k := 0; k < n; k++ {
			ops = append(ops, al[r.Intn(len(al))])
		}
		return ops
	}, on)
}
