//go:build verif
// +build verif

package app

// C07 — deterministic state transitions.  Every tx of a seeded history is
// delivered, as the same bytes, to three replicas of the application in one
// process; results, events and app hashes must be identical.  A second OS
// process (other GOGC / GOMAXPROCS / environment size) replays the same
// seed and compares its digests with the first.  DESIGN.md §5 C07.

import (
	"bytes"
	"crypto/sha256"
	"crypto/x509"
	"encoding/hex"
	"encoding/json"
	"encoding/pem"
	"fmt"
	"io/ioutil"
	"os"
	"path/filepath"
	"sort"
	"strconv"
	"sync"
	"testing"
	"time"

	abci "github.com/tendermint/tendermint/abci/types"
	"github.com/tendermint/tendermint/libs/log"

	vs "github.com/ovrclk/akash/verifsupport"
	atypes "github.com/ovrclk/akash/x/audit/types"
	ctypes "github.com/ovrclk/akash/x/cert/types"
)

type vMonC07 struct {
	res      *vs.Result
	replicas []*vChain
	roll     []byte // rolling digest of this history
	digests  *vC07Digests
	failed   bool
	prevTx   []byte
	// parameter changes applied on the primary since the last tx (same block
	// as that tx: random histories apply them with gap 0)
	govs [][3]string
}

type vC07Digests struct {
	mu sync.Mutex
	m  map[string]string
}

func vDetBytes(r abci.ResponseDeliverTx) []byte {
	c := r
	if c.Code != 0 {
		// free-text diagnostics of failed txs are outside the results hash
		c.Log, c.Info = "", ""
	}
	bz, err := c.Marshal()
	if err != nil {
		return []byte("marshal-error:" + err.Error())
	}
	return bz
}

// OnGov: a parameter change decided by the network reaches every node.
func (m *vMonC07) OnGov(h *vHist, subspace, key, value string) {
	m.govs = append(m.govs, [3]string{subspace, key, value})
}

func (m *vMonC07) AfterTx(h *vHist, o *vTxObs) {
	if m.replicas == nil {
		for i := 0; i < 2; i++ {
			// the first replica is a node run with debug logging: every log
			// line is rendered (the primary and the other replica drop them all)
			lg := log.NewNopLogger()
			if i == 0 {
				lg = vVerboseLogger()
			}
			c := vNewChainLogging(h.actorSeed, h.c.profile, lg)
			c.advance(1)
			m.replicas = append(m.replicas, c)
		}
	}
	kind := vKindOf(o)
	// parameter changes the primary saw since the previous tx (in that tx's block)
	for _, gv := range m.govs {
		for _, c := range m.replicas {
			if err := c.gov(gv[0], gv[1], gv[2]); err != nil {
				m.res.Count("parameter_change_refused_on_a_replica", 1)
			}
		}
		m.res.Count("parameter_changes_replicated", 1)
	}
	m.govs = nil
	if o.TxBytes == nil {
		return
	}
	want := vDetBytes(o.Res)
	hsh := sha256.New()
	hsh.Write(m.roll)
	for _, bh := range o.Hashes {
		hsh.Write(bh)
	}
	hsh.Write(want)
	m.roll = hsh.Sum(nil)
	for ri, c := range m.replicas {
		// the last replica is restarted (a new application object over the
		// same database) at some block boundaries: anything kept only in
		// memory would make it diverge
		var hashes [][]byte
		if ri == len(m.replicas)-1 && o.Gap > 0 && c.open && o.Idx%3 == 0 {
			hashes = c.advanceRestarting(o.Gap)
			m.res.Count("replica_restarts", 1)
		} else {
			hashes = c.advance(o.Gap)
		}
		if len(hashes) != len(o.Hashes) {
			h.Violation("replica-lockstep", "", fmt.Sprintf("replica %d committed %d blocks, primary %d", ri+1, len(hashes), len(o.Hashes)))
			m.failed = true
			continue
		}
		for i := range hashes {
			if !bytes.Equal(hashes[i], o.Hashes[i]) && !m.failed {
				h.Violation("app-hash-identical", "before:"+kind,
					fmt.Sprintf("app hash of block %d differs between replicas: %x vs %x", c.height-int64(len(hashes)-i), o.Hashes[i], hashes[i]))
				m.failed = true
			}
		}
		if ri == 0 {
			// the first replica has a busy mempool: every tx (and the one before
			// it, again) passes through CheckTx and a gas simulation before it is
			// delivered; the primary and the other replica never call either.
			// Neither may leave a trace in what DeliverTx computes.
			if !c.open {
				c.beginBlock()
			}
			func() {
				defer func() {
					if p := recover(); p != nil {
						m.res.Count("checktx_or_simulate_panicked", 1)
					}
				}()
				// (the simulation first: after CheckTx the check state expects the
				// next sequence number and the ante handler would stop a simulation
				// of the same tx before any message handler runs)
				if _, _, err := c.app.Simulate(o.TxBytes); err == nil {
					m.res.Count("simulations_that_ran_the_handlers", 1)
				}
				c.app.CheckTx(abci.RequestCheckTx{Tx: o.TxBytes, Type: abci.CheckTxType_New})
				if m.prevTx != nil {
					c.app.CheckTx(abci.RequestCheckTx{Tx: m.prevTx, Type: abci.CheckTxType_Recheck})
				}
				m.res.Count("checktx_and_simulate_before_deliver", 1)
			}()
		}
		res := c.deliverBytes(o.TxBytes)
		got := vDetBytes(res)
		if !bytes.Equal(got, want) && !m.failed {
			h.Violation("result-and-events-identical", kind,
				fmt.Sprintf("%s (ok=%v): replica %d returned a different result/events:\n primary: %s\n replica: %s", kind, o.OK, ri+1, vResString(o.Res), vResString(res)))
			m.failed = true
		}
		if o.Res.Code != 0 && (res.Log != o.Res.Log) {
			m.res.Count("failed_tx_log_text_differs", 1)
		}
	}
	m.prevTx = o.TxBytes
	m.res.Distinct(fmt.Sprintf("%s|ok=%v|ev=%d", kind, o.OK, len(o.Res.Events)))
	if o.OK && len(o.Msgs) == 1 {
		if s, ok := o.Msgs[0].(*atypes.MsgSignProviderAttributes); ok {
			if rec, had := o.Pre.Audits[s.Owner+"|"+s.Auditor]; had {
				merged := map[string]bool{}
				for _, a := range rec.Attributes {
					merged[a.Key] = true
				}
				for _, a := range s.Attributes {
					merged[a.Key] = true
				}
				if len(merged) >= 3 {
					m.res.Count("attestation_merge_3plus_keys", 1)
				}
			}
		}
		if _, ok := o.Msgs[0].(*atypes.MsgDeleteProviderAttributes); ok {
			m.res.Count("attestation_delete", 1)
		}
	}
	// coverage only (never a verdict): certificate txs whose validity window
	// contains the real date but not this process's (skewed) wall clock - a
	// transaction whose outcome depended on time.Now() would differ between
	// the processes on exactly these
	for _, msg := range o.Msgs {
		if cc, ok := msg.(*ctypes.MsgCreateCertificate); ok {
			if blk, _ := pem.Decode(cc.Cert); blk != nil {
				if crt, err := x509.ParseCertificate(blk.Bytes); err == nil {
					skewed := time.Now()
					real := skewed.Add(-time.Duration(vC07Skew()) * time.Second)
					in := func(t time.Time) bool { return !t.Before(crt.NotBefore) && !t.After(crt.NotAfter) }
					m.res.Count("cert_txs", 1)
					if in(real) != in(skewed) {
						m.res.Count("cert_txs_valid_at_one_wall_clock_only", 1)
					}
				}
			}
		}
	}
	if len(o.Res.Events) > 6 {
		m.res.Count("tx_with_many_events", 1)
	}
}

// vC07Skew is the wall-clock skew (seconds) this process runs under.
func vC07Skew() int64 {
	n, _ := strconv.ParseInt(os.Getenv("VERIF_TIME_SKEW_SEC"), 10, 64)
	return n
}

func vResString(r abci.ResponseDeliverTx) string {
	var evs []string
	for _, e := range r.Events {
		s := e.Type + "{"
		for _, a := range e.Attributes {
			s += string(a.Key) + "=" + string(a.Value) + ","
		}
		evs = append(evs, s+"}")
	}
	return fmt.Sprintf("code=%d/%s gas=%d/%d data=%x events=%v", r.Code, r.Codespace, r.GasWanted, r.GasUsed, r.Data, evs)
}

func (m *vMonC07) End(h *vHist) {
	// parameter changes and blocks (node restarts) after the last tx
	for _, gv := range m.govs {
		for _, c := range m.replicas {
			_ = c.gov(gv[0], gv[1], gv[2])
		}
	}
	m.govs = nil
	for _, ph := range h.pendingHashes {
		for ri, c := range m.replicas {
			got := c.endBlock()
			c.beginBlock()
			if !bytes.Equal(got, ph) && !m.failed {
				h.Violation("app-hash-identical", "final", fmt.Sprintf("app hash of a block after the last tx differs on replica %d: %x vs %x", ri+1, ph, got))
				m.failed = true
			}
		}
	}
	// final block: commit everywhere and compare the last hash
	final := h.c.endBlock()
	for ri, c := range m.replicas {
		got := c.endBlock()
		if !bytes.Equal(got, final) && !m.failed {
			h.Violation("app-hash-identical", "final", fmt.Sprintf("final app hash differs on replica %d: %x vs %x", ri+1, final, got))
		}
	}
	hsh := sha256.New()
	hsh.Write(m.roll)
	hsh.Write(final)
	m.digests.mu.Lock()
	m.digests.m[h.Origin] = hex.EncodeToString(hsh.Sum(nil))
	m.digests.mu.Unlock()
	m.res.Count("histories_compared", 1)
}

func TestVerif_C07(t *testing.T) {
	res := vs.NewResult("C07", "exploration",
		"every tx of seeded histories (audit merges/deletes, provider updates, overdrafts with several payments, lost-bid fan-out weighted up) is delivered as identical bytes to 3 replicas of the real app in one process (the second one also runs every tx through CheckTx and a gas simulation first; the third one is restarted - new application object over the same database - at every third block boundary it crosses): code, data, gas, ordered events (and the log of successful txs) and every block's app hash must be byte-identical; a second OS process with different GOGC/GOMAXPROCS/environment and a third one whose wall clock is shifted by -20 years (time.Now() patched through the build overlay) replay the same seed and their per-history digests are compared with the first. distinct = (message kind, result, number of events)")
	res.Assume("replicas run in one address space per process plus one further process; Tendermint consensus itself is not run")
	res.Floor("attestation_merge_3plus_keys", 50)
	res.Floor("attestation_delete", 5)
	res.Floor("histories_compared", 10)
	res.Floor("replica_restarts", 20)
	res.Floor("simulations_that_ran_the_handlers", 100)
	if vs.Stage() == "proc3" {
		// the third process runs with its wall clock shifted (stdlib time
		// overlaid by the driver); make sure the shift is in force
		if sk := vC07Skew(); sk == 0 || time.Now().Year() > 2015 {
			res.Inconclusive(fmt.Sprintf("clock skew not in force in the third process (VERIF_TIME_SKEW_SEC=%d, time.Now()=%s)", sk, time.Now().Format(time.RFC3339)))
			_ = res.Write()
			return
		}
		res.Floor("cert_txs_valid_at_one_wall_clock_only", 5)
		res.Extra("wall_clock_of_this_process", time.Now().UTC().Format("2006-01-02"))
	}
	digests := &vC07Digests{m: map[string]string{}}
	vRunChainCheck(t, res, vChainOpts{Histories: [2]int{70, 3000}, Templates: 3, RandomSteps: 50,
		Tune: func(g *vGen) {
			g.W["sign-attrs"] = 14
			g.W["delete-attrs"] = 6
			g.W["update-provider"] = 6
			g.ForceTemplate = "attestation-merges"
		},
		Extra: func(res *vs.Result) {
			if vs.ReplayFile() != "" {
				return
			}
			path := filepath.Join(vs.OutDir(), "result", fmt.Sprintf("C07.digests.%s.%d.json", vs.Tier(), vs.Seed()))
			if vs.Stage() == "" {
				bz, _ := json.Marshal(digests.m)
				_ = os.MkdirAll(filepath.Dir(path), 0o755)
				_ = ioutil.WriteFile(path, bz, 0o644)
				return
			}
			// second process: compare with the first
			bz, err := ioutil.ReadFile(path)
			if err != nil {
				res.Inconclusive("digests of the first process not found: " + err.Error())
				return
			}
			first := map[string]string{}
			if err := json.Unmarshal(bz, &first); err != nil {
				res.Inconclusive("digests of the first process unreadable: " + err.Error())
				return
			}
			var keys []string
			for k := range first {
				keys = append(keys, k)
			}
			sort.Strings(keys)
			same := 0
			for _, k := range keys {
				if digests.m[k] == first[k] {
					same++
				} else {
					res.AddViolation("cross-process-digest", "C07/cross-process-digest", fmt.Sprintf("history %s: digest %s in process 1, %s in process 2 (GOGC=%s GOMAXPROCS=%s)", k, first[k], digests.m[k], os.Getenv("GOGC"), os.Getenv("GOMAXPROCS")), map[string]string{"origin": k})
				}
			}
			res.Extra("cross_process_histories_identical", same)
			res.Count("cross_process_compared", len(keys))
		},
	}, func() []vMonitor {
		return []vMonitor{&vMonC07{res: res, digests: digests}}
	})
}
