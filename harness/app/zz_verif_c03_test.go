//go:build verif
// +build verif

package app

// C03 — closing stops payment and releases money; escrow records stay
// consistent.  DESIGN.md §5 C03.

import (
	"bytes"
	"fmt"
	"testing"

	sdk "github.com/cosmos/cosmos-sdk/types"

	vs "github.com/ovrclk/akash/verifsupport"
	dtypes "github.com/ovrclk/akash/x/deployment/types"
	"github.com/ovrclk/akash/x/escrow"
	etypes "github.com/ovrclk/akash/x/escrow/types"
	mtypes "github.com/ovrclk/akash/x/market/types"
)

type vMonC03 struct {
	res *vs.Result
}

// escrow store key layout (documented in x/escrow/keeper/key.go, restated)
func vEscrowAcctStoreKey(k string) []byte { return append([]byte{0x01, '/'}, []byte(k)...) }
func vEscrowPayStoreKey(k string) []byte  { return append([]byte{0x02, '/'}, []byte(k)...) }

func vRawGet(s *vSnap, store string, key []byte) []byte {
	for _, kv := range s.Raw[store] {
		if bytes.Equal(kv.K, key) {
			return kv.V
		}
	}
	return nil
}

func (m *vMonC03) structural(h *vHist, s *vSnap, where string) {
	anyOpen := false
	for _, k := range vSortedKeys(s.Pays) {
		p := s.Pays[k]
		a, ok := s.Accts[vAcctKey(p.AccountID)]
		if !ok {
			h.ViolationOnce(k, "payment-has-account", where, "payment "+k+" has no account")
			continue
		}
		switch p.State {
		case etypes.PaymentOpen:
			anyOpen = true
			if a.State != etypes.AccountOpen {
				h.Violation("open-payment-implies-open-account", where,
					fmt.Sprintf("payment %s is open but its account is %s (account settled_at=%d, height %d)", k, vAcctState(a.State), a.SettledAt, s.Height))
			}
		case etypes.PaymentOverdrawn:
			if a.State != etypes.AccountOverdrawn {
				h.ViolationOnce(k, "overdrawn-payment-implies-overdrawn-account", where, fmt.Sprintf("payment %s overdrawn, account %s", k, vAcctState(a.State)))
			}
			fallthrough
		case etypes.PaymentClosed:
			if !p.Balance.IsZero() {
				h.ViolationOnce(k, "closed-payment-zero-balance", where, fmt.Sprintf("payment %s is %s with balance %s", k, vPayState(p.State), p.Balance))
			}
		default:
			h.ViolationOnce(k, "payment-state-valid", where, "payment "+k+" has an invalid state")
		}
	}
	for _, k := range vSortedKeys(s.Accts) {
		a := s.Accts[k]
		switch a.State {
		case etypes.AccountOpen:
			anyOpen = true
		case etypes.AccountClosed, etypes.AccountOverdrawn:
			if !a.Balance.IsZero() {
				h.ViolationOnce(k, "closed-account-zero-balance", where, fmt.Sprintf("account %s is %s with balance %s", k, vAcctState(a.State), a.Balance))
			}
		default:
			h.ViolationOnce(k, "account-state-valid", where, "account "+k+" has an invalid state")
		}
	}
	if !anyOpen && !s.ModuleCoins.IsZero() {
		h.ViolationOnce("module", "nothing-open-module-empty", where, fmt.Sprintf("no account or payment is open but the escrow module holds %s", s.ModuleCoins))
	}
	if !anyOpen && len(s.Accts) > 0 {
		m.res.Count("quiescent_all_closed_states", 1)
	}
}

func (m *vMonC03) AfterTx(h *vHist, o *vTxObs) {
	pre, post := o.Pre, o.Post
	if o.PreFresh {
		m.structural(h, pre, "between-blocks")
	}
	m.structural(h, post, "after:"+vKindOf(o))
	kind := vKindOf(o)
	tr := vTransitions(pre, post)

	// closed / overdrawn records never change again
	for _, k := range vSortedKeys(pre.Accts) {
		a := pre.Accts[k]
		if a.State == etypes.AccountOpen {
			continue
		}
		key := vEscrowAcctStoreKey(k)
		if !bytes.Equal(vRawGet(pre, etypes.StoreKey, key), vRawGet(post, etypes.StoreKey, key)) {
			h.Violation("closed-record-frozen", "account/"+kind, fmt.Sprintf("%s account %s changed: %v -> %v", vAcctState(a.State), k, a, post.Accts[k]))
		}
	}
	for _, k := range vSortedKeys(pre.Pays) {
		p := pre.Pays[k]
		if p.State == etypes.PaymentOpen {
			continue
		}
		key := vEscrowPayStoreKey(k)
		if !bytes.Equal(vRawGet(pre, etypes.StoreKey, key), vRawGet(post, etypes.StoreKey, key)) {
			h.Violation("closed-record-frozen", "payment/"+kind, fmt.Sprintf("%s payment %s changed: %v -> %v", vPayState(p.State), k, p, post.Pays[k]))
		}
	}

	// a request to close always takes effect
	if o.OK {
		for _, msg := range o.Msgs {
			m.closeTakesEffect(h, o, msg)
		}
	}

	// the chain's own validator on the exported state
	gs := escrow.ExportGenesis(h.c.ctx(), h.c.app.keeper.escrow)
	if err := escrow.ValidateGenesis(gs); err != nil {
		h.ViolationOnce("genesis", "exported-genesis-valid", kind, "escrow.ValidateGenesis(ExportGenesis) failed: "+err.Error())
	}
	if len(gs.Accounts) != len(post.Accts) || len(gs.Payments) != len(post.Pays) {
		h.Violation("exported-genesis-complete", kind, fmt.Sprintf("export has %d/%d records, store has %d/%d", len(gs.Accounts), len(gs.Payments), len(post.Accts), len(post.Pays)))
	}

	// coverage
	closes := vHasPrefix(tr, "acct:deployment:open->") || vHasPrefix(tr, "acct:bid:open->") || vHasPrefix(tr, "pay:open->")
	if closes {
		m.res.Distinct(vShape(o, tr))
	}
}

func (m *vMonC03) closeTakesEffect(h *vHist, o *vTxObs, msg sdk.Msg) {
	pre, post := o.Pre, o.Post
	h0 := o.Height
	trigger := func(acctKey string) string {
		// classification of the situation for finding keys
		a, ok := pre.Accts[acctKey]
		t := vMsgKind(msg)
		if ok && a.SettledAt == h0 {
			t += ":zero-gap"
			m.res.Count("close_at_zero_height_gap", 1)
		}
		return t
	}
	payMustNotBeOpen := func(lid mtypes.LeaseID, why string) {
		k := vLeasePayKey(lid)
		p, ok := post.Pays[k]
		if !ok {
			return
		}
		if pp, ok2 := pre.Pays[k]; ok2 && pp.State == etypes.PaymentOpen {
			if pp.Balance.IsZero() {
				m.res.Count("close_with_zero_accrued_balance", 1)
			}
			if !pp.Withdrawn.IsEqual(p.Withdrawn) || (p.State != etypes.PaymentOpen && pre.Accts[vDepAcctKey(lid.DeploymentID())].SettledAt == h0) {
				m.res.Count("close_in_block_of_previous_settlement", 1)
			}
		}
		if p.State == etypes.PaymentOpen {
			h.Violation("close-takes-effect", trigger(vDepAcctKey(lid.DeploymentID()))+":payment",
				fmt.Sprintf("%s succeeded (%s) but payment %s is still open: %v", vMsgKind(msg), why, k, p))
		}
	}
	acctMustNotBeOpen := func(k string, why string) {
		a, ok := post.Accts[k]
		if !ok {
			return
		}
		if a.State == etypes.AccountOpen {
			h.Violation("close-takes-effect", trigger(k)+":account",
				fmt.Sprintf("%s succeeded (%s) but account %s is still open: %v", vMsgKind(msg), why, k, a))
		}
	}
	switch mm := msg.(type) {
	case *mtypes.MsgCloseLease:
		payMustNotBeOpen(mm.LeaseID, "lease closed by tenant")
	case *mtypes.MsgCloseBid:
		acctMustNotBeOpen(vBidAcctKey(mm.BidID), "bid closed")
		if b, ok := pre.Bids[vBidKey(mm.BidID)]; ok && b.State == mtypes.BidActive {
			payMustNotBeOpen(mm.BidID.LeaseID(), "matched bid closed")
		}
	case *dtypes.MsgCloseDeployment:
		k := vDepAcctKey(mm.ID)
		acctMustNotBeOpen(k, "deployment closed")
		n := 0
		for _, pk := range vSortedKeys(pre.Pays) {
			p := pre.Pays[pk]
			if vAcctKey(p.AccountID) == k && p.State == etypes.PaymentOpen {
				n++
				if q, ok := post.Pays[pk]; ok && q.State == etypes.PaymentOpen {
					h.Violation("close-takes-effect", trigger(k)+":payment",
						fmt.Sprintf("close-deployment succeeded but payment %s is still open: %v", pk, q))
				}
			}
		}
		if n >= 2 {
			m.res.Count("account_close_with_2plus_open_payments", 1)
		}
	case *dtypes.MsgCloseGroup:
		m.groupLeases(h, o, mm.ID, payMustNotBeOpen)
	case *dtypes.MsgPauseGroup:
		m.groupLeases(h, o, mm.ID, payMustNotBeOpen)
	case *mtypes.MsgCreateLease:
		for _, bk := range vSortedKeys(pre.Bids) {
			b := pre.Bids[bk]
			if nb, ok := post.Bids[bk]; ok && b.State == mtypes.BidOpen && nb.State == mtypes.BidLost {
				acctMustNotBeOpen(vBidAcctKey(b.BidID), "bid lost")
			}
		}
	}
}

func (m *vMonC03) groupLeases(h *vHist, o *vTxObs, gid dtypes.GroupID, f func(mtypes.LeaseID, string)) {
	for _, lk := range vSortedKeys(o.Pre.Leases) {
		l := o.Pre.Leases[lk]
		if l.State == mtypes.LeaseActive && l.LeaseID.GroupID().Equals(gid) {
			f(l.LeaseID, "group closed/paused")
		}
	}
}

func (m *vMonC03) End(h *vHist) {}

func TestVerif_C03(t *testing.T) {
	res := vs.NewResult("C03", "exploration",
		"signed-tx histories against the real app with zero-gap and zero-balance close templates weighted up, plus direct-keeper sequences on cache branches; after every tx: open payment => open account, closed/overdrawn => zero balance and raw record frozen, successful close => named payment/account not open, escrow.ValidateGenesis(ExportGenesis)==nil, nothing open => module empty. distinct = (message kind, result, gap class, transition kinds) of txs that closed an escrow record")
	res.Assume("chain driven at the ABCI boundary without Tendermint; zero fees; escrow.ValidateGenesis is called as a black box")
	for _, f := range []string{"close_at_zero_height_gap", "close_with_zero_accrued_balance", "close_in_block_of_previous_settlement", "account_close_with_2plus_open_payments", "quiescent_all_closed_states"} {
		res.Floor(f, 1)
	}
	vRunChainCheck(t, res, vChainOpts{Histories: [2]int{150, 6000}, Templates: 3, RandomSteps: 50,
		Tune: func(g *vGen) {
			g.W["close-lease"] = 9
			g.W["close-deployment"] = 7
			g.W["close-bid"] = 7
			g.W["close-group"] = 5
		},
		Extra: func(res *vs.Result) { vEscrowDirectC03(res) },
	}, func() []vMonitor {
		return []vMonitor{&vMonC03{res: res}}
	})
}
