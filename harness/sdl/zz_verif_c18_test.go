//go:build verif
// +build verif

package sdl

// C18 — SDL translation is deterministic, faithful and self-consistent.
// DESIGN.md §5 C18.
//
// The expectation (deployment groups and manifest) is computed from the
// structured description D the YAML text was rendered from — never from the
// parser's output:
//
//   * one deployment group / manifest group per placement that at least one
//     service is deployed to, in placement-name order; its requirements are
//     the placement's attributes and signedBy lists;
//   * per (service, placement) one resource entry / manifest service, in
//     service-name order: cpu in milli-cpu, memory and storage in bytes
//     (exact rational arithmetic on the literals), the declared count, the
//     price the placement declares for the service's compute profile;
//   * endpoints of a group resource: one per global `to` of the service's
//     exposes; kind shared-http when the expose is TCP and its external
//     port (`as`, else `port`) is 80, else random-port (vC18IsHTTP);
//   * manifest service: image, command, args, env unchanged; one expose entry
//     per `to` (one without target when there is no `to`) with port,
//     externalPort = `as`, protocol, target service, global flag and the
//     accepted hostnames.
//
// Things without a declared order (attributes, endpoint list, expose list)
// are compared as multisets; the order of groups and of services inside a
// group is compared under its own trigger `order`.

import (
	"bytes"
	"encoding/hex"
	"encoding/json"
	"fmt"
	"math/big"
	"reflect"
	"regexp"
	"runtime"
	"sort"
	"strings"
	"sync"
	"testing"

	"github.com/ovrclk/akash/manifest"
	"github.com/ovrclk/akash/types"
	"github.com/ovrclk/akash/validation"
	vs "github.com/ovrclk/akash/verifsupport"
	dtypes "github.com/ovrclk/akash/x/deployment/types"
)

const vC18Perms = 4

// ---------------------------------------------------------------------------
// expectation

type vC18Units struct {
	CPU, Mem, Sto *big.Int
	CPUAttrs      map[string]string
	StoAttrs      map[string]string
	// which literals were written with a fractional part (trigger class)
	CPUDecimal, MemDecimal, StoDecimal bool
}

type vC18ExpRes struct {
	Service      string
	Units        vC18Units
	Count        uint32
	Price        *big.Int
	HTTP, Random int
}

type vC18ExpGroup struct {
	Name         string
	Attrs        map[string]string
	AllOf, AnyOf []string
	Res          []vC18ExpRes
}

type vC18ExpSvc struct {
	Name, Image        string
	Command, Args, Env []string
	Units              vC18Units
	Count              uint32
	Expose             []string // canonical text per expose entry, sorted
}

type vC18ExpMGroup struct {
	Name string
	Svcs []vC18ExpSvc
}

func vC18ExposeKey(port, ext int, proto, service string, global bool, hosts []string) string {
	return fmt.Sprintf("port=%d external=%d proto=%s service=%q global=%v hosts=%q", port, ext, proto, service, global, hosts)
}

func vC18UnitsOf(p *vC18Profile) (vC18Units, error) {
	var u vC18Units
	var err error
	if u.CPU, err = vC18CPUMilli(p.CPU); err != nil {
		return u, err
	}
	if u.Mem, err = vC18SizeBytes(p.Memory); err != nil {
		return u, err
	}
	if u.Sto, err = vC18SizeBytes(p.Storage); err != nil {
		return u, err
	}
	u.CPUAttrs, u.StoAttrs = map[string]string{}, map[string]string{}
	if p.CPUArch != "" {
		u.CPUAttrs["arch"] = p.CPUArch
	}
	for _, kv := range p.StorageAttrs {
		u.StoAttrs[kv.K] = kv.V
	}
	u.CPUDecimal = !strings.HasSuffix(p.CPU, "m") && vC18IsDecimalLiteral(p.CPU)
	u.MemDecimal = vC18IsDecimalLiteral(p.Memory)
	u.StoDecimal = vC18IsDecimalLiteral(p.Storage)
	return u, nil
}

func vC18Expect(d *vC18Doc) ([]vC18ExpGroup, []vC18ExpMGroup, error) {
	var places []string
	seen := map[string]bool{}
	for _, dep := range d.Deploy {
		if !seen[dep.Placement] {
			seen[dep.Placement] = true
			places = append(places, dep.Placement)
		}
	}
	sort.Strings(places)
	var groups []vC18ExpGroup
	var mgroups []vC18ExpMGroup
	for _, pn := range places {
		pl := d.placement(pn)
		if pl == nil {
			return nil, nil, fmt.Errorf("deployment refers to unknown placement %q", pn)
		}
		g := vC18ExpGroup{Name: pn, Attrs: map[string]string{}, AllOf: pl.AllOf, AnyOf: pl.AnyOf}
		for _, kv := range pl.Attrs {
			g.Attrs[kv.K] = kv.V
		}
		mg := vC18ExpMGroup{Name: pn}
		var deps []vC18Deploy
		for _, dep := range d.Deploy {
			if dep.Placement == pn {
				deps = append(deps, dep)
			}
		}
		sort.Slice(deps, func(i, j int) bool { return deps[i].Service < deps[j].Service })
		for _, dep := range deps {
			svc, prof := d.service(dep.Service), d.profile(dep.Profile)
			if svc == nil || prof == nil {
				return nil, nil, fmt.Errorf("deployment %s/%s refers to unknown service or profile", dep.Service, dep.Placement)
			}
			u, err := vC18UnitsOf(prof)
			if err != nil {
				return nil, nil, err
			}
			var price *big.Int
			for _, p := range pl.Pricing {
				if p.Profile == dep.Profile {
					price = big.NewInt(p.Amount)
				}
			}
			if price == nil {
				return nil, nil, fmt.Errorf("placement %s has no price for profile %s", pn, dep.Profile)
			}
			r := vC18ExpRes{Service: dep.Service, Units: u, Count: uint32(dep.Count), Price: price}
			ms := vC18ExpSvc{Name: svc.Name, Image: svc.Image, Command: svc.Command, Args: svc.Args, Env: svc.Env, Units: u, Count: uint32(dep.Count)}
			for _, e := range svc.Expose {
				proto := "TCP"
				if strings.EqualFold(e.Proto, "udp") {
					proto = "UDP"
				}
				if len(e.To) == 0 {
					ms.Expose = append(ms.Expose, vC18ExposeKey(e.Port, e.As, proto, "", false, e.Accept))
				}
				for _, to := range e.To {
					ms.Expose = append(ms.Expose, vC18ExposeKey(e.Port, e.As, proto, to.Service, to.Global, e.Accept))
					if to.Global {
						if vC18IsHTTP(e) {
							r.HTTP++
						} else {
							r.Random++
						}
					}
				}
			}
			sort.Strings(ms.Expose)
			g.Res = append(g.Res, r)
			mg.Svcs = append(mg.Svcs, ms)
		}
		groups = append(groups, g)
		mgroups = append(mgroups, mg)
	}
	return groups, mgroups, nil
}

// ---------------------------------------------------------------------------
// observation

type vC18Obs struct {
	Err      error
	Panic    string
	Groups   []*dtypes.GroupSpec
	Manifest manifest.Manifest
	Version  []byte
	GJSON    []byte
	MJSON    []byte
	CrossErr error
}

func vC18Translate(text string) (o vC18Obs) {
	defer func() {
		if r := recover(); r != nil {
			o.Panic = fmt.Sprint(r)
		}
	}()
	obj, err := Read([]byte(text))
	if err != nil {
		o.Err = err
		return o
	}
	if o.Groups, err = obj.DeploymentGroups(); err != nil {
		o.Err = fmt.Errorf("DeploymentGroups after successful Read: %v", err)
		return o
	}
	if o.Manifest, err = obj.Manifest(); err != nil {
		o.Err = fmt.Errorf("Manifest after successful Read: %v", err)
		return o
	}
	if o.Version, err = Version(obj); err != nil {
		o.Err = fmt.Errorf("Version after successful Read: %v", err)
		return o
	}
	o.GJSON, _ = json.Marshal(o.Groups)
	o.MJSON, _ = json.Marshal(o.Manifest)
	m := o.Manifest
	o.CrossErr = validation.ValidateManifestWithGroupSpecs(&m, o.Groups)
	return o
}

func vC18AttrMap(as []types.Attribute) (map[string]string, bool) {
	m := map[string]string{}
	for _, a := range as {
		m[a.Key] = a.Value
	}
	return m, len(m) == len(as)
}

func vC18StrsEq(a, b []string) bool {
	if len(a) != len(b) {
		return false
	}
	for i := range a {
		if a[i] != b[i] {
			return false
		}
	}
	return true
}

func vC18MapEq(a, b map[string]string) bool {
	if len(a) != len(b) {
		return false
	}
	for k, v := range a {
		if w, ok := b[k]; !ok || w != v {
			return false
		}
	}
	return true
}

func vC18ValEq(want *big.Int, got types.ResourceValue) bool {
	return !got.Val.IsNil() && got.Val.BigInt().Cmp(want) == 0
}

func vC18ValStr(got types.ResourceValue) string {
	if got.Val.IsNil() {
		return "nil"
	}
	return got.Val.String()
}

type vC18Finding struct{ Rule, Trigger, Detail string }

type vC18Findings struct {
	list []vC18Finding
	seen map[string]bool
}

func (f *vC18Findings) add(rule, trigger, detail string) {
	if f.seen == nil {
		f.seen = map[string]bool{}
	}
	if f.seen[rule+"/"+trigger] {
		return
	}
	f.seen[rule+"/"+trigger] = true
	f.list = append(f.list, vC18Finding{rule, trigger, detail})
}

// vC18CmpUnits compares the resource units of one entry with the expectation.
func vC18CmpUnits(f *vC18Findings, rule, where string, want vC18Units, got types.ResourceUnits) {
	trig := func(decimal bool, dec string) string {
		if decimal {
			return dec
		}
		return "resources"
	}
	if got.CPU == nil || !vC18ValEq(want.CPU, got.CPU.Units) {
		s := "nil"
		if got.CPU != nil {
			s = vC18ValStr(got.CPU.Units)
		}
		f.add(rule, trig(want.CPUDecimal, "cpu-decimal"), fmt.Sprintf("%s: cpu is %s milli-cpu, declared %s", where, s, want.CPU))
	}
	if got.Memory == nil || !vC18ValEq(want.Mem, got.Memory.Quantity) {
		s := "nil"
		if got.Memory != nil {
			s = vC18ValStr(got.Memory.Quantity)
		}
		f.add(rule, trig(want.MemDecimal, "size-decimal"), fmt.Sprintf("%s: memory is %s bytes, declared %s", where, s, want.Mem))
	}
	if got.Storage == nil || !vC18ValEq(want.Sto, got.Storage.Quantity) {
		s := "nil"
		if got.Storage != nil {
			s = vC18ValStr(got.Storage.Quantity)
		}
		f.add(rule, trig(want.StoDecimal, "size-decimal"), fmt.Sprintf("%s: storage is %s bytes, declared %s", where, s, want.Sto))
	}
	if got.CPU != nil {
		if m, uniq := vC18AttrMap(got.CPU.Attributes); !uniq || !vC18MapEq(m, want.CPUAttrs) {
			f.add(rule, "resources", fmt.Sprintf("%s: cpu attributes are %v, declared %v", where, got.CPU.Attributes, want.CPUAttrs))
		}
	}
	if got.Storage != nil {
		if m, uniq := vC18AttrMap(got.Storage.Attributes); !uniq || !vC18MapEq(m, want.StoAttrs) {
			f.add(rule, "resources", fmt.Sprintf("%s: storage attributes are %v, declared %v", where, got.Storage.Attributes, want.StoAttrs))
		}
	}
}

func vC18NamesClass(want, got []string) string {
	if vC18StrsEq(want, got) {
		return ""
	}
	a, b := append([]string{}, want...), append([]string{}, got...)
	sort.Strings(a)
	sort.Strings(b)
	if vC18StrsEq(a, b) {
		return "order"
	}
	return "set"
}

func vC18CheckGroups(f *vC18Findings, want []vC18ExpGroup, got []*dtypes.GroupSpec) {
	const rule = "group-field-faithful"
	var wn, gn []string
	byName := map[string]*dtypes.GroupSpec{}
	for _, g := range want {
		wn = append(wn, g.Name)
	}
	for _, g := range got {
		if g == nil {
			f.add(rule, "groups", "a nil group was returned")
			return
		}
		gn = append(gn, g.Name)
		byName[g.Name] = g
	}
	switch vC18NamesClass(wn, gn) {
	case "order":
		f.add(rule, "order", fmt.Sprintf("groups are %q, expected placement-name order %q", gn, wn))
	case "set":
		f.add(rule, "groups", fmt.Sprintf("groups are %q, expected one per used placement %q", gn, wn))
	}
	for _, w := range want {
		g := byName[w.Name]
		if g == nil {
			continue
		}
		where := "group " + w.Name
		am, uniq := vC18AttrMap(g.Requirements.Attributes)
		if !uniq || !vC18MapEq(am, w.Attrs) || !vC18StrsEq(g.Requirements.SignedBy.AllOf, w.AllOf) || !vC18StrsEq(g.Requirements.SignedBy.AnyOf, w.AnyOf) {
			f.add(rule, "requirements", fmt.Sprintf("%s: requirements are attributes=%v allOf=%q anyOf=%q, declared attributes=%v allOf=%q anyOf=%q",
				where, g.Requirements.Attributes, g.Requirements.SignedBy.AllOf, g.Requirements.SignedBy.AnyOf, w.Attrs, w.AllOf, w.AnyOf))
		}
		if len(g.Resources) != len(w.Res) {
			f.add(rule, "resources", fmt.Sprintf("%s: %d resource entries, expected %d (one per service deployed there)", where, len(g.Resources), len(w.Res)))
			continue
		}
		// is it the expected entries in another order? compare the entry
		// multisets through a signature made of the observed values and the
		// position-independent part of the verdict
		sub := &vC18Findings{}
		for i, wr := range w.Res {
			vC18CmpRes(sub, rule, fmt.Sprintf("%s resource #%d (service %s)", where, i, wr.Service), wr, g.Resources[i])
		}
		if len(sub.list) == 0 {
			continue
		}
		if vC18ResPermutationMatches(w.Res, g.Resources) {
			f.add(rule, "order", fmt.Sprintf("%s: resource entries are the declared ones but not in service-name order (%s)", where, sub.list[0].Detail))
			continue
		}
		for _, x := range sub.list {
			f.add(x.Rule, x.Trigger, x.Detail)
		}
	}
}

func vC18CmpRes(f *vC18Findings, rule, where string, w vC18ExpRes, r dtypes.Resource) {
	vC18CmpUnits(f, rule, where, w.Units, r.Resources)
	if r.Count != w.Count {
		f.add(rule, "count", fmt.Sprintf("%s: count is %d, declared %d", where, r.Count, w.Count))
	}
	if r.Price.Denom != "uakt" || r.Price.Amount.IsNil() || r.Price.Amount.BigInt().Cmp(w.Price) != 0 {
		f.add(rule, "price", fmt.Sprintf("%s: price is %s, declared %suakt", where, r.Price.String(), w.Price))
	}
	http, random, other := 0, 0, 0
	for _, e := range r.Resources.Endpoints {
		switch e.Kind {
		case types.Endpoint_SHARED_HTTP:
			http++
		case types.Endpoint_RANDOM_PORT:
			random++
		default:
			other++
		}
	}
	if http != w.HTTP || random != w.Random || other != 0 {
		f.add(rule, "endpoints", fmt.Sprintf("%s: endpoints are %d shared-http + %d random-port + %d other, declared exposes give %d shared-http + %d random-port", where, http, random, other, w.HTTP, w.Random))
	}
}

// vC18ResPermutationMatches: some assignment of observed entries to expected
// entries (a permutation) makes every entry faithful.
func vC18ResPermutationMatches(want []vC18ExpRes, got []dtypes.Resource) bool {
	used := make([]bool, len(got))
	var rec func(i int) bool
	rec = func(i int) bool {
		if i == len(want) {
			return true
		}
		for j := range got {
			if used[j] {
				continue
			}
			sub := &vC18Findings{}
			vC18CmpRes(sub, "x", "", want[i], got[j])
			if len(sub.list) != 0 {
				continue
			}
			used[j] = true
			if rec(i + 1) {
				return true
			}
			used[j] = false
		}
		return false
	}
	return rec(0)
}

func vC18CheckManifest(f *vC18Findings, want []vC18ExpMGroup, got manifest.Manifest) {
	const rule = "manifest-field-faithful"
	var wn, gn []string
	byName := map[string]manifest.Group{}
	for _, g := range want {
		wn = append(wn, g.Name)
	}
	for _, g := range got {
		gn = append(gn, g.Name)
		byName[g.Name] = g
	}
	switch vC18NamesClass(wn, gn) {
	case "order":
		f.add(rule, "order", fmt.Sprintf("manifest groups are %q, expected placement-name order %q", gn, wn))
	case "set":
		f.add(rule, "groups", fmt.Sprintf("manifest groups are %q, expected one per used placement %q", gn, wn))
	}
	for _, w := range want {
		g, ok := byName[w.Name]
		if !ok {
			continue
		}
		var ws, gs []string
		svcByName := map[string]manifest.Service{}
		for _, s := range w.Svcs {
			ws = append(ws, s.Name)
		}
		for _, s := range g.Services {
			gs = append(gs, s.Name)
			svcByName[s.Name] = s
		}
		switch vC18NamesClass(ws, gs) {
		case "order":
			f.add(rule, "order", fmt.Sprintf("manifest group %s: services are %q, expected service-name order %q", w.Name, gs, ws))
		case "set":
			f.add(rule, "services", fmt.Sprintf("manifest group %s: services are %q, expected the services deployed there %q", w.Name, gs, ws))
		}
		for _, ws := range w.Svcs {
			s, ok := svcByName[ws.Name]
			if !ok {
				continue
			}
			where := fmt.Sprintf("manifest group %s service %s", w.Name, ws.Name)
			if s.Image != ws.Image {
				f.add(rule, "image", fmt.Sprintf("%s: image is %q, declared %q", where, s.Image, ws.Image))
			}
			if !vC18StrsEq(s.Command, ws.Command) {
				f.add(rule, "command", fmt.Sprintf("%s: command is %q, declared %q", where, s.Command, ws.Command))
			}
			if !vC18StrsEq(s.Args, ws.Args) {
				f.add(rule, "args", fmt.Sprintf("%s: args are %q, declared %q", where, s.Args, ws.Args))
			}
			if !vC18StrsEq(s.Env, ws.Env) {
				f.add(rule, "env", fmt.Sprintf("%s: env is %q, declared %q", where, s.Env, ws.Env))
			}
			if s.Count != ws.Count {
				f.add(rule, "count", fmt.Sprintf("%s: count is %d, declared %d", where, s.Count, ws.Count))
			}
			vC18CmpUnits(f, rule, where, ws.Units, s.Resources)
			var ge []string
			for _, e := range s.Expose {
				ge = append(ge, vC18ExposeKey(int(e.Port), int(e.ExternalPort), string(e.Proto), e.Service, e.Global, e.Hosts))
			}
			sort.Strings(ge)
			if !vC18StrsEq(ge, ws.Expose) {
				f.add(rule, "expose", fmt.Sprintf("%s: exposes are %v, declared %v", where, ge, ws.Expose))
			}
		}
	}
}

// ---------------------------------------------------------------------------
// one case

type vC18Case struct {
	Index  int      `json:"index"`
	Origin string   `json:"origin"`
	Doc    vC18Doc  `json:"doc"`
	Yaml   string   `json:"yaml"`
	Perms  []string `json:"perms"`
}

func vC18ErrClass(err error) string {
	s := err.Error()
	for _, c := range []struct{ sub, class string }{
		{"endpoints", "endpoints"}, {"underutilized", "resources"}, {"not fully matched", "resources"},
		{"group count", "groups"}, {"unknown deployment group", "groups"},
	} {
		if strings.Contains(s, c.sub) {
			return c.class
		}
	}
	return "other"
}

func vC18Clip(s string) string {
	if len(s) > 400 {
		return s[:400] + "..."
	}
	return s
}

func vC18CmpObs(f *vC18Findings, rule, what string, a, b vC18Obs) {
	if (a.Err == nil) != (b.Err == nil) {
		f.add(rule, "acceptance", fmt.Sprintf("%s: one reading is accepted, the other rejected (%v / %v)", what, a.Err, b.Err))
		return
	}
	if a.Err != nil {
		return
	}
	if !bytes.Equal(a.GJSON, b.GJSON) {
		f.add(rule, "groups", fmt.Sprintf("%s: deployment groups differ: %s  VS  %s", what, vC18Clip(string(a.GJSON)), vC18Clip(string(b.GJSON))))
	}
	if !bytes.Equal(a.MJSON, b.MJSON) {
		f.add(rule, "manifest", fmt.Sprintf("%s: manifests differ: %s  VS  %s", what, vC18Clip(string(a.MJSON)), vC18Clip(string(b.MJSON))))
	}
	if !bytes.Equal(a.Version, b.Version) {
		f.add(rule, "version", fmt.Sprintf("%s: version hashes differ: %s vs %s", what, hex.EncodeToString(a.Version), hex.EncodeToString(b.Version)))
	}
}

var (
	vC18RejMu      sync.Mutex
	vC18RejSamples []map[string]string
)

// vC18NoteRejected keeps a few (error, document) samples of rejected documents.
func vC18NoteRejected(res *vs.Result, c *vC18Case, err error) {
	vC18RejMu.Lock()
	defer vC18RejMu.Unlock()
	if len(vC18RejSamples) >= 5 {
		return
	}
	vC18RejSamples = append(vC18RejSamples, map[string]string{"origin": c.Origin, "error": err.Error(), "yaml": c.Yaml})
	res.Extra("rejected_samples", append([]map[string]string{}, vC18RejSamples...))
}

func vC18RunCase(res *vs.Result, c *vC18Case) {
	res.Eval(1)
	wantG, wantM, err := vC18Expect(&c.Doc)
	if err != nil {
		res.Inconclusive(fmt.Sprintf("harness: description of case %d (%s) is not well-formed: %v", c.Index, c.Origin, err))
		return
	}
	f := &vC18Findings{}
	o := vC18Translate(c.Yaml)
	if o.Panic != "" {
		f.add("translates-without-panic", "read", "translation panicked: "+o.Panic)
	} else if o.Err != nil {
		// every generated document is valid by construction (on the unchanged
		// tree the parser accepts all of them): a valid document for which no
		// groups, manifest and version are derived is not translated faithfully
		res.Count("rejected_by_parser", 1)
		vC18NoteRejected(res, c, o.Err)
		f.add("valid-document-is-translated", vC18RejectClass(o.Err), "the parser rejects a document that is valid by the generator's rules: "+o.Err.Error())
	} else {
		res.Count("accepted", 1)
		res.Distinct(vC18Shape(&c.Doc))
		for _, cl := range vC18Classes(&c.Doc) {
			res.Count(cl, 1)
		}
		vC18CheckGroups(f, wantG, o.Groups)
		vC18CheckManifest(f, wantM, o.Manifest)
		if len(o.Version) != 32 {
			f.add("version-is-32-bytes", "", fmt.Sprintf("version hash has %d bytes", len(o.Version)))
		}
		if o.CrossErr != nil {
			f.add("manifest-validates-against-own-groups", vC18ErrClass(o.CrossErr), "provider-side validation of the manifest against the groups of the same document fails: "+o.CrossErr.Error())
		}
	}
	if o.Panic == "" {
		// same text, read again
		o2 := vC18Translate(c.Yaml)
		if o2.Panic != "" {
			f.add("translates-without-panic", "read", "translation panicked: "+o2.Panic)
		} else {
			vC18CmpObs(f, "deterministic-across-runs", "same text read twice", o, o2)
			if o.Err == nil && o2.Err == nil && bytes.Equal(o.GJSON, o2.GJSON) && bytes.Equal(o.MJSON, o2.MJSON) &&
				(!reflect.DeepEqual(o.Groups, o2.Groups) || !reflect.DeepEqual(o.Manifest, o2.Manifest)) {
				// e.g. nil vs empty slice: not a difference in value
				res.Count("deepequal_differs_although_same_values", 1)
			}
			res.Count("reread_compared", 1)
		}
		for i, p := range c.Perms {
			if p == c.Yaml {
				res.Count("permutation_identical_to_original", 1)
				continue
			}
			op := vC18Translate(p)
			if op.Panic != "" {
				f.add("translates-without-panic", "permutation", "translation of a key permutation panicked: "+op.Panic)
				continue
			}
			vC18CmpObs(f, "deterministic-under-key-permutation", fmt.Sprintf("original vs key permutation #%d", i), o, op)
			if op.Err == nil && op.CrossErr != nil {
				f.add("manifest-validates-against-own-groups", vC18ErrClass(op.CrossErr), fmt.Sprintf("key permutation #%d: %v", i, op.CrossErr))
			}
			res.Count("permutations_compared", 1)
		}
	}
	for _, x := range f.list {
		if x.Trigger == "order" {
			// the statement fixes what appears in the outputs, not the position of
			// a service's entry inside its group (validation matches entries
			// whatever their order): everything declared is there, in an order
			// other than by service name - counted
			res.Count("entries_in_another_order_than_by_service_name", 1)
			continue
		}
		key := "C18/" + x.Rule
		if x.Trigger != "" {
			key += "/" + x.Trigger
		}
		res.AddViolation(x.Rule, key, fmt.Sprintf("case %d (%s): %s", c.Index, c.Origin, x.Detail), c)
	}
}

// ---------------------------------------------------------------------------
// directed cases: reach every coverage floor for every seed, and give the
// smallest documents for each field class

func vC18BaseDoc() vC18Doc {
	return vC18Doc{
		Services:   []vC18Service{{Name: "web", Image: "nginx", Expose: []vC18Expose{{Port: 80, To: []vC18To{{Global: true}}}}}},
		Profiles:   []vC18Profile{{Name: "web", CPU: "100m", Memory: "128Mi", Storage: "1Gi"}},
		Placements: []vC18Placement{{Name: "westcoast", Pricing: []vC18Price{{Profile: "web", Amount: 50}}}},
		Deploy:     []vC18Deploy{{Service: "web", Placement: "westcoast", Profile: "web", Count: 1}},
	}
}

type vC18Directed struct {
	Name string
	Doc  vC18Doc
}

func vC18DirectedDocs() []vC18Directed {
	var out []vC18Directed
	add := func(name string, f func(d *vC18Doc)) {
		d := vC18BaseDoc()
		if f != nil {
			f(&d)
		}
		out = append(out, vC18Directed{name, d})
	}
	add("minimal", nil)
	add("command", func(d *vC18Doc) { d.Services[0].Command = []string{"/bin/sh", "-c"} })
	add("args", func(d *vC18Doc) { d.Services[0].Args = []string{"sleep 3600", "--port=8080"} })
	add("env", func(d *vC18Doc) { d.Services[0].Env = []string{"HOME=/root", "EMPTY=", "BARE", "A=b=c"} })
	add("cpu-0.57", func(d *vC18Doc) { d.Profiles[0].CPU = "0.57" })
	for _, c := range []string{"0.5", "1.25", "0.035", "0.01", "2", "2.0", "0.29", "1.001", "2.01", "10"} {
		cc := c
		add("cpu-"+cc, func(d *vC18Doc) { d.Profiles[0].CPU = cc })
	}
	// every suffix, integral mantissa where the limits allow one
	for _, m := range []string{"134217728", "128000k", "131072Ki", "128M", "128Mi", "16.4M", "1G", "1Gi", "0.001T", "0.0009765625Ti", "0.000001P", "0.00000095367431640625Pi", "0.000000001E", "0.000000000931322574615478515625Ei"} {
		mm := m
		add("memory-"+mm, func(d *vC18Doc) { d.Profiles[0].Memory = mm })
	}
	for _, s := range []string{"5242880", "5243k", "5120Ki", "6M", "5Mi", "512G", "512Gi", "1T", "1Ti", "0.001P", "0.0009765625Pi", "0.000001E", "0.00000095367431640625Ei", "1.5G", "0.5Gi", "0.3G", "5.7M", "4.1G"} {
		ss := s
		add("storage-"+ss, func(d *vC18Doc) { d.Profiles[0].Storage = ss })
	}
	add("expose-kinds", func(d *vC18Doc) {
		d.Services[0].Expose = []vC18Expose{
			{Port: 80, To: []vC18To{{Global: true}}},                         // http
			{Port: 8080, As: 80, To: []vC18To{{Global: true}}},               // http through `as`
			{Port: 80, As: 8080, Proto: "tcp", To: []vC18To{{Global: true}}}, // not http: external port 8080
			{Port: 80, Proto: "udp", To: []vC18To{{Global: true}}},           // not http: udp
			{Port: 53, Proto: "UDP", To: []vC18To{{Global: true}}},           // random port
			{Port: 443, Accept: []string{"a.example.com", "b.example.com"}, To: []vC18To{{Global: true}}},
			{Port: 9000},
		}
	})
	add("two-services-two-placements", func(d *vC18Doc) {
		d.Services = append(d.Services, vC18Service{Name: "db", Image: "redis:6-alpine", Command: []string{"redis-server"}, Args: []string{"--appendonly", "yes"},
			Expose: []vC18Expose{{Port: 6379, To: []vC18To{{Service: "web"}}}}})
		d.Profiles = append(d.Profiles, vC18Profile{Name: "big", CPU: "1.5", CPUArch: "amd64", Memory: "1Gi", Storage: "10G", StorageAttrs: []vC18KV{{"class", "default"}}})
		d.Placements[0].Attrs = []vC18KV{{"region", "us-west"}, {"host", "akash"}}
		d.Placements[0].HasSignedBy = true
		d.Placements[0].AllOf = []string{"akash1zzz", "akash1aaa"}
		d.Placements[0].AnyOf = []string{"3", "1"}
		d.Placements[0].Pricing = append(d.Placements[0].Pricing, vC18Price{Profile: "big", Amount: 75})
		d.Placements = append(d.Placements, vC18Placement{Name: "eastcoast", Attrs: []vC18KV{{"region", "us-east"}}, Pricing: []vC18Price{{Profile: "web", Amount: 10}, {Profile: "big", Amount: 20}}})
		d.Deploy = []vC18Deploy{
			{Service: "web", Placement: "westcoast", Profile: "web", Count: 2},
			{Service: "web", Placement: "eastcoast", Profile: "big", Count: 3},
			{Service: "db", Placement: "westcoast", Profile: "web", Count: 1},
			{Service: "db", Placement: "eastcoast", Profile: "web", Count: 5},
		}
	})
	return out
}

// ---------------------------------------------------------------------------

// vC18RejectClass: the error text without quoted names and numbers.
func vC18RejectClass(err error) string {
	s := regexp.MustCompile(`"[^"]*"|[0-9]+`).ReplaceAllString(err.Error(), "")
	s = strings.Join(strings.Fields(s), "-")
	if len(s) > 60 {
		s = s[:60]
	}
	return s
}

func TestVerif_C18(t *testing.T) {
	res := vs.NewResult("C18", "exploration",
		"structured descriptions D (1-4 services with image/command/args/env and 0-3 exposes port/as/proto/accept/to, 1-3 compute profiles with cpu as Nm / decimal / whole and memory+storage with every suffix and fractional mantissas, 1-3 placements with attributes, signedBy and per-profile prices, deployment map with counts) rendered to SDL v2 YAML by the harness's own emitter plus 4 random mapping-key permutations each; expected groups and manifest computed from D with exact arithmetic and compared field by field; same text read twice and every permutation must give the same groups, manifest and version; manifest must pass ValidateManifestWithGroupSpecs against the groups of the same document. distinct = structural shape of the document (numbers of services/profiles/placements/exposes/targets, optional fields present, literal forms)")
	res.Assume("documented semantics transcribed by hand: cpu literal Nm = N milli-cpu, bare number = cpus; size suffixes k/M/G/T/P/E = 10^3k, Ki/Mi/Gi/Ti/Pi/Ei = 2^10k, none = bytes; a global expose is shared-http iff TCP and external port (as, else port) is 80, else random-port; no proto = TCP, proto word case-insensitive")
	res.Assume("only documents the generator believes valid are produced (unit and group limits, >=1 global expose, hostnames unique in the manifest); a document the parser rejects is a violation (valid-document-is-translated): the unchanged tree accepts every generated document")
	res.Assume("attribute lists, endpoint lists and expose lists carry no declared order and are compared as multisets; groups are compared in placement-name order; the entries of a group (resources, services) are matched whatever their order - an order other than by service name is counted, not judged")
	defer func() {
		if err := res.Write(); err != nil {
			t.Errorf("writing result: %v", err)
		}
		if n := res.Violations(); n > 0 {
			t.Errorf("C18: %d violation(s) recorded", n)
		}
	}()

	if rf := vs.ReplayFile(); rf != "" {
		var c vC18Case
		if err := vs.LoadReplay(rf, &c); err != nil {
			res.Inconclusive("cannot load replay file: " + err.Error())
			return
		}
		if c.Yaml == "" {
			res.Inconclusive("replay file has no yaml text")
			return
		}
		vC18RunCase(res, &c)
		return
	}

	seed := vs.Seed()
	res.Count("rejected_by_parser", 0)
	floors := []string{"with_command", "with_args", "with_env", "with_2plus_placements", "with_shared_profile", "with_global_http_expose", "with_global_nonhttp_expose",
		"with_service_expose", "with_decimal_cpu", "with_milli_cpu", "with_signed_by", "with_decimal_size", "with_2plus_prices_in_group", "with_accept_hosts", "with_placement_attributes"}
	for _, s := range vC18Suffixes {
		if s == "" {
			s = "none"
		}
		floors = append(floors, "mem_suffix:"+s, "storage_suffix:"+s)
	}

	// directed documents first, sequentially (deterministic replay samples)
	directed := vC18DirectedDocs()
	for i, dd := range directed {
		rng := vs.NewRand(seed, uint64(181000000+i))
		c := &vC18Case{Index: i, Origin: "directed:" + dd.Name, Doc: dd.Doc}
		c.Yaml, c.Perms = vC18Render(&c.Doc, rng, vC18Perms)
		if i < 2 || dd.Name == "two-services-two-placements" {
			res.Sample(map[string]string{"origin": c.Origin, "yaml": c.Yaml})
		}
		vC18RunCase(res, c)
	}
	res.Count("directed_documents", len(directed))

	n := vs.Scale(3000, 200000)
	res.Extra("random_documents", n)
	res.Extra("permutations_per_document", vC18Perms)
	vs.Parallel(n, runtime.NumCPU(), func(i int) {
		rng := vs.NewRand(seed, uint64(180000000+i))
		d, retries, err := vC18RandDoc(rng)
		if err != nil {
			res.Inconclusive("harness: generator produced an ill-formed literal: " + err.Error())
			return
		}
		res.Count("generator_retries_group_totals", retries)
		c := &vC18Case{Index: len(directed) + i, Origin: "random", Doc: *d}
		c.Yaml, c.Perms = vC18Render(&c.Doc, rng, vC18Perms)
		if i < 3 {
			res.Sample(map[string]string{"origin": fmt.Sprintf("random #%d", i), "yaml": c.Yaml})
		}
		vC18RunCase(res, c)
	})

	total := int64(n + len(directed))
	for _, fl := range floors {
		min := int64(n / 200)
		if strings.Contains(fl, "suffix:") {
			min = int64(n / 1000)
		}
		if min < 1 {
			min = 1
		}
		res.Floor(fl, min)
	}
	res.Floor("accepted", total*98/100)
	res.Floor("permutations_compared", total*int64(vC18Perms)*9/10)
	res.Floor("reread_compared", total)
	if rej := res.Counter("rejected_by_parser"); rej*50 > total {
		res.Inconclusive(fmt.Sprintf("the parser rejects %d of %d generated documents (>2%%): the generator's idea of validity needs fixing", rej, total))
	}
}
