//go:build verif
// +build verif

package sdl

// C18 — generator side: a structured description D of an SDL v2 document,
// the harness's own YAML emitter (plain string building; none of the parser's
// structs are used to emit) and the mapping-key permutations.
//
// Validity conditions the generator keeps (so that the parser is expected to
// accept every generated document; a rejection is counted, never judged):
//   * unit limits: cpu 10..10000 milli, memory 1Mi..16Gi, storage 5Mi..1Ti,
//     count 1..50, price 1..10^7 uakt; per placement totals cpu <= 20000,
//     memory <= 32Gi, storage <= 1Ti;
//   * at least one global expose in the whole document;
//   * accepted hostnames are unique in the whole manifest: a hostname list is
//     only attached to an expose with at most one `to` entry, of a service
//     that is deployed to exactly one placement;
//   * names: services [a-z0-9-], env names [-._a-zA-Z][-._a-zA-Z0-9]*,
//     hostnames DNS-1123.

import (
	"fmt"
	"math/big"
	"regexp"
	"sort"
	"strings"

	vs "github.com/ovrclk/akash/verifsupport"
)

// ---------------------------------------------------------------------------
// description D (JSON-serialisable: it is part of the replay case)

type vC18To struct {
	Service string `json:"service,omitempty"`
	Global  bool   `json:"global,omitempty"`
}

type vC18Expose struct {
	Port   int      `json:"port"`
	As     int      `json:"as,omitempty"`    // 0 = not declared
	Proto  string   `json:"proto,omitempty"` // "" = not declared; else literal text
	Accept []string `json:"accept,omitempty"`
	To     []vC18To `json:"to,omitempty"`
}

type vC18Service struct {
	Name    string       `json:"name"`
	Image   string       `json:"image"`
	Command []string     `json:"command,omitempty"`
	Args    []string     `json:"args,omitempty"`
	Env     []string     `json:"env,omitempty"`
	Expose  []vC18Expose `json:"expose,omitempty"`
}

type vC18KV struct {
	K string `json:"k"`
	V string `json:"v"`
}

type vC18Profile struct {
	Name         string   `json:"name"`
	CPU          string   `json:"cpu"` // literal: "100m", "0.57", "2"
	CPUArch      string   `json:"cpu_arch,omitempty"`
	Memory       string   `json:"memory"`  // literal: "128Mi", "0.5G", "134217728"
	Storage      string   `json:"storage"` // literal
	StorageAttrs []vC18KV `json:"storage_attrs,omitempty"`
}

type vC18Price struct {
	Profile string `json:"profile"`
	Amount  int64  `json:"amount"`
}

type vC18Placement struct {
	Name        string      `json:"name"`
	Attrs       []vC18KV    `json:"attrs,omitempty"`
	HasSignedBy bool        `json:"has_signed_by,omitempty"`
	AllOf       []string    `json:"all_of,omitempty"`
	AnyOf       []string    `json:"any_of,omitempty"`
	Pricing     []vC18Price `json:"pricing"`
}

type vC18Deploy struct {
	Service   string `json:"service"`
	Placement string `json:"placement"`
	Profile   string `json:"profile"`
	Count     int    `json:"count"`
}

type vC18Doc struct {
	Services   []vC18Service   `json:"services"`
	Profiles   []vC18Profile   `json:"profiles"`
	Placements []vC18Placement `json:"placements"`
	Deploy     []vC18Deploy    `json:"deploy"`
}

func (d *vC18Doc) profile(name string) *vC18Profile {
	for i := range d.Profiles {
		if d.Profiles[i].Name == name {
			return &d.Profiles[i]
		}
	}
	return nil
}

func (d *vC18Doc) service(name string) *vC18Service {
	for i := range d.Services {
		if d.Services[i].Name == name {
			return &d.Services[i]
		}
	}
	return nil
}

func (d *vC18Doc) placement(name string) *vC18Placement {
	for i := range d.Placements {
		if d.Placements[i].Name == name {
			return &d.Placements[i]
		}
	}
	return nil
}

// ---------------------------------------------------------------------------
// quantities: the documented meaning of the literals, in exact arithmetic

var vC18Suffixes = []string{"", "k", "Ki", "M", "Mi", "G", "Gi", "T", "Ti", "P", "Pi", "E", "Ei"}

// vC18Unit is the documented multiplier of a size suffix: k=10^3, M=10^6, ...
// E=10^18; Ki=2^10, Mi=2^20, ... Ei=2^60; no suffix = bytes.
func vC18Unit(suffix string) *big.Int {
	pow := func(b, e int64) *big.Int { return new(big.Int).Exp(big.NewInt(b), big.NewInt(e), nil) }
	switch suffix {
	case "":
		return big.NewInt(1)
	case "k":
		return pow(10, 3)
	case "M":
		return pow(10, 6)
	case "G":
		return pow(10, 9)
	case "T":
		return pow(10, 12)
	case "P":
		return pow(10, 15)
	case "E":
		return pow(10, 18)
	case "Ki":
		return pow(2, 10)
	case "Mi":
		return pow(2, 20)
	case "Gi":
		return pow(2, 30)
	case "Ti":
		return pow(2, 40)
	case "Pi":
		return pow(2, 50)
	case "Ei":
		return pow(2, 60)
	}
	return nil
}

// vC18SplitSize splits "1.5Gi" into ("1.5", "Gi").
func vC18SplitSize(text string) (mant, suffix string) {
	i := len(text)
	for i > 0 && (text[i-1] < '0' || text[i-1] > '9') && text[i-1] != '.' {
		i--
	}
	return text[:i], text[i:]
}

// vC18SizeBytes is the exact number of bytes a size literal denotes.
func vC18SizeBytes(text string) (*big.Int, error) {
	mant, suffix := vC18SplitSize(text)
	u := vC18Unit(suffix)
	if u == nil {
		return nil, fmt.Errorf("size literal %q: unknown suffix %q", text, suffix)
	}
	r, ok := new(big.Rat).SetString(mant)
	if !ok {
		return nil, fmt.Errorf("size literal %q: bad mantissa", text)
	}
	r.Mul(r, new(big.Rat).SetInt(u))
	if !r.IsInt() {
		return nil, fmt.Errorf("size literal %q: not an integral number of bytes", text)
	}
	return new(big.Int).Set(r.Num()), nil
}

// vC18CPUMilli is the exact number of milli-cpu a cpu literal denotes:
// "Nm" is N thousandths of a cpu, a bare number is that many whole cpus.
func vC18CPUMilli(text string) (*big.Int, error) {
	if strings.HasSuffix(text, "m") {
		n, ok := new(big.Int).SetString(strings.TrimSuffix(text, "m"), 10)
		if !ok {
			return nil, fmt.Errorf("cpu literal %q: bad milli value", text)
		}
		return n, nil
	}
	r, ok := new(big.Rat).SetString(text)
	if !ok {
		return nil, fmt.Errorf("cpu literal %q: bad number", text)
	}
	r.Mul(r, big.NewRat(1000, 1))
	if !r.IsInt() {
		return nil, fmt.Errorf("cpu literal %q: not an integral number of milli-cpu", text)
	}
	return new(big.Int).Set(r.Num()), nil
}

func vC18IsDecimalLiteral(text string) bool { return strings.Contains(text, ".") }

var (
	vC18Mi  = int64(1) << 20
	vC18Gi  = int64(1) << 30
	vC18Ti  = int64(1) << 40
	vC18Lim = struct {
		MinCPU, MaxCPU, MinMem, MaxMem, MinSto, MaxSto int64
		MaxCount                                       int
		MaxPrice                                       int64
		GroupCPU, GroupMem, GroupSto                   int64
	}{10, 10000, vC18Mi, 16 * vC18Gi, 5 * vC18Mi, vC18Ti, 50, 10000000, 20000, 32 * vC18Gi, vC18Ti}
)

// vC18LogUniform picks an integer in [lo,hi], roughly log-uniform.
func vC18LogUniform(rng *vs.Rand, lo, hi *big.Int) *big.Int {
	if lo.Cmp(hi) >= 0 {
		return new(big.Int).Set(lo)
	}
	span := new(big.Int).Sub(hi, lo)
	bits := rng.Range(0, span.BitLen())
	if bits > 62 {
		bits = 62
	}
	off := big.NewInt(rng.Int63n(int64(1)<<uint(bits) + 1))
	if off.Cmp(span) > 0 {
		off = span
	}
	return off.Add(off, lo)
}

func vC18TrimDecimal(s string) string {
	if !strings.Contains(s, ".") {
		return s
	}
	s = strings.TrimRight(s, "0")
	return strings.TrimSuffix(s, ".")
}

// vC18GenSize produces a literal with the given suffix that denotes an
// integral number of bytes within [lo,hi]. wantDecimal asks for a fractional
// mantissa (always needed for suffixes whose unit exceeds hi).
func vC18GenSize(rng *vs.Rand, suffix string, lo, hi int64, wantDecimal bool) (string, bool) {
	u := vC18Unit(suffix)
	bl, bh := big.NewInt(lo), big.NewInt(hi)
	base, maxDigits := int64(10), 0
	switch {
	case suffix == "":
	case strings.HasSuffix(suffix, "i"):
		base, maxDigits = 2, u.BitLen()-1
	default:
		maxDigits = len(u.String()) - 1
	}
	for attempt := 0; attempt < 8; attempt++ {
		// mantissa = v / base^d, value = v * u / base^d =: v * step
		dmin := 0
		step := new(big.Int).Set(u)
		for step.Cmp(bh) > 0 && dmin < maxDigits {
			dmin++
			step.Div(step, big.NewInt(base))
		}
		d := dmin
		if wantDecimal && maxDigits > 0 {
			d = dmin + rng.Range(1, 3)
			if d > maxDigits {
				d = maxDigits
			}
		}
		step = new(big.Int).Set(u)
		den := big.NewInt(1)
		for i := 0; i < d; i++ {
			step.Div(step, big.NewInt(base))
			den.Mul(den, big.NewInt(base))
		}
		vlo := new(big.Int).Add(bl, new(big.Int).Sub(step, big.NewInt(1)))
		vlo.Div(vlo, step)
		vhi := new(big.Int).Div(bh, step)
		if vlo.Cmp(vhi) > 0 {
			continue
		}
		v := vC18LogUniform(rng, vlo, vhi)
		text := vC18TrimDecimal(new(big.Rat).SetFrac(v, den).FloatString(d))
		if len(text) > 44 {
			continue
		}
		if wantDecimal && !vC18IsDecimalLiteral(text) && maxDigits > 0 && attempt < 6 {
			continue
		}
		return text + suffix, true
	}
	return "", false
}

// vC18GenCPU produces a cpu literal: form 0 "Nm", 1 decimal, 2 whole cpus.
func vC18GenCPU(rng *vs.Rand, form int) string {
	n := vC18LogUniform(rng, big.NewInt(vC18Lim.MinCPU), big.NewInt(4000)).Int64()
	switch form {
	case 0:
		return fmt.Sprintf("%dm", n)
	case 2:
		return fmt.Sprintf("%d", rng.Range(1, 4))
	}
	if n%1000 == 0 {
		n += int64(rng.Range(1, 999))
	}
	s := fmt.Sprintf("%d.%03d", n/1000, n%1000)
	if rng.Chance(4, 5) {
		s = vC18TrimDecimal(s)
	}
	return s
}

// ---------------------------------------------------------------------------
// random description

var (
	vC18NamePool    = []string{"web", "api", "db", "cache", "worker", "front-end", "app1", "svc-2", "a", "x9", "bew", "redis", "z", "0db", "9", "no", "null"}
	vC18ProfilePool = []string{"web", "api", "db", "small", "large", "gpu-less", "default", "c1", "Profile_A", "x"}
	vC18PlacePool   = []string{"westcoast", "eastcoast", "dc1", "akash", "eu-central", "global", "a", "Zone3", "0"}
	vC18ImagePool   = []string{"nginx", "nginx:1.19", "quay.io/ovrclk/demo-app", "redis:6-alpine", "registry.example.com:5000/team/app:v1.2.3", "bitnami/postgresql@sha256:0123abcd", "ubuntu", "My Image"}
	vC18StrPool     = []string{"/bin/sh", "-c", "sleep 3600", "--port=8080", "-v", "echo \"hi\"", "it's", "$(HOME)/run", "true", "0.50", "null", "~", "a: b", "# not a comment", "--flag", "x", "100", "{json: 1}", "[a, b]", "*star", "&amp", "back\\slash", "%p", "@at", "", " lead", "trail ", "-", "? q", "| pipe", "> fold", "!tag", "yes"}
	vC18EnvNames    = []string{"HOME", "PATH", "DB_HOST", "db.port", "_x", "A-B", "N1", "lower", ".dot"}
	vC18AttrKeys    = []string{"region", "host", "tier", "datacenter", "gpu-vendor", "Org_1", "abc"}
	vC18AttrVals    = []string{"us-west", "akash", "1", "true", "community", "eu central", "null", "a:b", ""}
	vC18Ports       = []int{80, 80, 80, 443, 8080, 53, 3000, 1, 65535, 8443}
	vC18Protos      = []string{"", "", "", "tcp", "udp", "TCP", "UDP", "Tcp", "uDp"}
	vC18Bech        = "qpzry9x8gf2tvdw0s3jn54khce6mua7l"
)

func vC18RandName(rng *vs.Rand, pool []string) string {
	if rng.Chance(3, 4) {
		return pool[rng.Intn(len(pool))]
	}
	const alnum = "abcdefghijklmnopqrstuvwxyz0123456789"
	n := rng.Range(1, 10)
	b := make([]byte, n)
	for i := range b {
		switch {
		case i == 0:
			b[i] = alnum[rng.Intn(26+rng.Intn(2)*10)]
		case i == n-1:
			b[i] = alnum[rng.Intn(36)]
		case rng.Chance(1, 6):
			b[i] = '-'
		default:
			b[i] = alnum[rng.Intn(36)]
		}
	}
	return string(b)
}

func vC18Distinct(rng *vs.Rand, n int, pool []string) []string {
	seen := map[string]bool{}
	var out []string
	for len(out) < n {
		s := vC18RandName(rng, pool)
		if seen[s] {
			s = fmt.Sprintf("%s%d", s, len(out))
		}
		if seen[s] {
			continue
		}
		seen[s] = true
		out = append(out, s)
	}
	return out
}

func vC18RandStr(rng *vs.Rand) string {
	if rng.Chance(2, 3) {
		return vC18StrPool[rng.Intn(len(vC18StrPool))]
	}
	n := rng.Range(1, 12)
	b := make([]byte, n)
	for i := range b {
		b[i] = byte(rng.Range(0x20, 0x7e))
	}
	return string(b)
}

func vC18RandStrs(rng *vs.Rand, lo, hi int) []string {
	n := rng.Range(lo, hi)
	out := make([]string, 0, n)
	for i := 0; i < n; i++ {
		out = append(out, vC18RandStr(rng))
	}
	return out
}

func vC18RandAddr(rng *vs.Rand) string {
	if rng.Chance(1, 8) {
		return fmt.Sprintf("%d", rng.Range(1, 99))
	}
	b := []byte("akash1")
	for i := 0; i < 38; i++ {
		b = append(b, vC18Bech[rng.Intn(len(vC18Bech))])
	}
	return string(b)
}

func vC18RandSize(rng *vs.Rand, lo, hi int64) string {
	for {
		// the common suffixes more often than the exotic ones
		suffix := vC18Suffixes[rng.Pick([]int{2, 2, 2, 4, 8, 4, 8, 2, 2, 1, 1, 1, 1})]
		if s, ok := vC18GenSize(rng, suffix, lo, hi, rng.Chance(1, 4)); ok {
			return s
		}
	}
}

func vC18RandProfile(rng *vs.Rand, name string) vC18Profile {
	p := vC18Profile{Name: name}
	p.CPU = vC18GenCPU(rng, rng.Pick([]int{50, 35, 15}))
	if rng.Chance(1, 10) {
		p.CPUArch = []string{"amd64", "arm64", "x86 64"}[rng.Intn(3)]
	}
	// generated sizes stay well below the unit maxima most of the time so
	// that placements with several replicas stay within the group totals
	p.Memory = vC18RandSize(rng, vC18Lim.MinMem, []int64{vC18Gi, 4 * vC18Gi, vC18Lim.MaxMem}[rng.Pick([]int{6, 3, 1})])
	p.Storage = vC18RandSize(rng, vC18Lim.MinSto, []int64{8 * vC18Gi, 128 * vC18Gi, vC18Lim.MaxSto}[rng.Pick([]int{6, 3, 1})])
	if rng.Chance(1, 10) {
		p.StorageAttrs = append(p.StorageAttrs, vC18KV{"class", []string{"default", "beta2", "fast ssd"}[rng.Intn(3)]})
		if rng.Bool() {
			p.StorageAttrs = append(p.StorageAttrs, vC18KV{"persistent", "true"})
		}
	}
	return p
}

func vC18RandExpose(rng *vs.Rand, self string, svcNames []string, hostSeq *int) vC18Expose {
	e := vC18Expose{Port: vC18Ports[rng.Intn(len(vC18Ports))]}
	if rng.Chance(1, 5) {
		e.Port = rng.Range(1, 65535)
	}
	switch rng.Pick([]int{6, 2, 2}) {
	case 1:
		e.As = 80
	case 2:
		e.As = rng.Range(1, 65535)
	}
	e.Proto = vC18Protos[rng.Intn(len(vC18Protos))]
	nto := rng.Pick([]int{1, 10, 4})
	seen := map[vC18To]bool{}
	for i := 0; i < nto; i++ {
		to := vC18To{Global: true}
		if rng.Chance(2, 5) {
			to = vC18To{Service: svcNames[rng.Intn(len(svcNames))]}
		}
		if seen[to] {
			continue
		}
		seen[to] = true
		e.To = append(e.To, to)
	}
	if len(e.To) <= 1 && rng.Chance(3, 10) {
		for i, n := 0, rng.Range(1, 2); i < n; i++ {
			*hostSeq++
			h := fmt.Sprintf("%s%d.%s", []string{"h", "www", "0x", "a-b"}[rng.Intn(4)], *hostSeq, []string{"example.com", "akash.network", "localhost", "1.io"}[rng.Intn(4)])
			e.Accept = append(e.Accept, h)
		}
	}
	return e
}

func vC18HasAccept(s *vC18Service) bool {
	for _, e := range s.Expose {
		if len(e.Accept) > 0 {
			return true
		}
	}
	return false
}

func vC18HasGlobal(s *vC18Service) bool {
	for _, e := range s.Expose {
		for _, to := range e.To {
			if to.Global {
				return true
			}
		}
	}
	return false
}

// vC18WithinTotals applies the documented per-group totals to one placement.
func vC18WithinTotals(d *vC18Doc, placement string) (bool, error) {
	tc, tm, ts := new(big.Int), new(big.Int), new(big.Int)
	for _, dep := range d.Deploy {
		if dep.Placement != placement {
			continue
		}
		p := d.profile(dep.Profile)
		c, err := vC18CPUMilli(p.CPU)
		if err != nil {
			return false, err
		}
		m, err := vC18SizeBytes(p.Memory)
		if err != nil {
			return false, err
		}
		s, err := vC18SizeBytes(p.Storage)
		if err != nil {
			return false, err
		}
		n := big.NewInt(int64(dep.Count))
		tc.Add(tc, new(big.Int).Mul(c, n))
		tm.Add(tm, new(big.Int).Mul(m, n))
		ts.Add(ts, new(big.Int).Mul(s, n))
	}
	return tc.Cmp(big.NewInt(vC18Lim.GroupCPU)) <= 0 && tm.Cmp(big.NewInt(vC18Lim.GroupMem)) <= 0 && ts.Cmp(big.NewInt(vC18Lim.GroupSto)) <= 0, nil
}

// vC18FitCounts lowers replica counts until every placement is within the
// group totals; false if that is impossible even with single replicas.
func vC18FitCounts(d *vC18Doc) (bool, error) {
	for _, pl := range d.Placements {
		for {
			ok, err := vC18WithinTotals(d, pl.Name)
			if err != nil {
				return false, err
			}
			if ok {
				break
			}
			best := -1
			for i, dep := range d.Deploy {
				if dep.Placement == pl.Name && dep.Count > 1 && (best < 0 || dep.Count > d.Deploy[best].Count) {
					best = i
				}
			}
			if best < 0 {
				return false, nil
			}
			d.Deploy[best].Count /= 2
		}
	}
	return true, nil
}

func vC18RandDoc(rng *vs.Rand) (*vC18Doc, int, error) {
	for retries := 0; ; retries++ {
		d := vC18RandDocOnce(rng)
		ok, err := vC18FitCounts(d)
		if err != nil {
			return nil, retries, err
		}
		if ok {
			return d, retries, nil
		}
	}
}

func vC18RandDocOnce(rng *vs.Rand) *vC18Doc {
	d := &vC18Doc{}
	nsvc := 1 + rng.Pick([]int{3, 4, 3, 2})
	nprof := 1 + rng.Pick([]int{4, 4, 2})
	nplace := 1 + rng.Pick([]int{5, 4, 2})
	svcNames := vC18Distinct(rng, nsvc, vC18NamePool)
	profNames := vC18Distinct(rng, nprof, vC18ProfilePool)
	placeNames := vC18Distinct(rng, nplace, vC18PlacePool)

	hostSeq := 0
	for _, name := range svcNames {
		s := vC18Service{Name: name, Image: vC18ImagePool[rng.Intn(len(vC18ImagePool))]}
		if rng.Bool() {
			s.Command = vC18RandStrs(rng, 1, 3)
		}
		if rng.Bool() {
			s.Args = vC18RandStrs(rng, 1, 4)
		}
		if rng.Bool() {
			for i, n := 0, rng.Range(1, 4); i < n; i++ {
				e := vC18EnvNames[rng.Intn(len(vC18EnvNames))]
				switch rng.Intn(4) {
				case 0:
				case 1:
					e += "="
				default:
					e += "=" + vC18RandStr(rng)
				}
				s.Env = append(s.Env, e)
			}
		}
		for i, n := 0, rng.Pick([]int{2, 5, 3, 2}); i < n; i++ {
			s.Expose = append(s.Expose, vC18RandExpose(rng, name, svcNames, &hostSeq))
		}
		d.Services = append(d.Services, s)
	}
	anyGlobal := false
	for i := range d.Services {
		anyGlobal = anyGlobal || vC18HasGlobal(&d.Services[i])
	}
	if !anyGlobal {
		s := &d.Services[rng.Intn(len(d.Services))]
		s.Expose = append(s.Expose, vC18Expose{Port: 80, To: []vC18To{{Global: true}}})
	}

	for _, name := range profNames {
		d.Profiles = append(d.Profiles, vC18RandProfile(rng, name))
	}

	used := map[string]bool{}
	for i := range d.Services {
		s := &d.Services[i]
		var places []string
		if vC18HasAccept(s) || rng.Chance(1, 2) {
			places = []string{placeNames[rng.Intn(nplace)]}
		} else {
			for _, p := range placeNames {
				if rng.Chance(2, 3) {
					places = append(places, p)
				}
			}
			if len(places) == 0 {
				places = []string{placeNames[rng.Intn(nplace)]}
			}
		}
		prof := profNames[rng.Intn(nprof)]
		for _, p := range places {
			if rng.Chance(1, 3) {
				prof = profNames[rng.Intn(nprof)]
			}
			cnt := 1 + rng.Pick([]int{5, 3, 2, 1, 1})
			if rng.Chance(1, 10) {
				cnt = rng.Range(1, vC18Lim.MaxCount)
			}
			d.Deploy = append(d.Deploy, vC18Deploy{Service: s.Name, Placement: p, Profile: prof, Count: cnt})
			used[p] = true
		}
	}
	// placements nobody was deployed to: usually give them a service that
	// has no hostname list; rarely leave them unused (no group is expected)
	for _, p := range placeNames {
		if used[p] || rng.Chance(1, 10) {
			continue
		}
		for _, i := range rng.Perm(len(d.Services)) {
			if !vC18HasAccept(&d.Services[i]) {
				d.Deploy = append(d.Deploy, vC18Deploy{Service: d.Services[i].Name, Placement: p, Profile: profNames[rng.Intn(nprof)], Count: rng.Range(1, 3)})
				break
			}
		}
	}

	for _, name := range placeNames {
		pl := vC18Placement{Name: name}
		keys := rng.Perm(len(vC18AttrKeys))
		for i, n := 0, rng.Pick([]int{2, 4, 3, 1}); i < n; i++ {
			pl.Attrs = append(pl.Attrs, vC18KV{vC18AttrKeys[keys[i]], vC18AttrVals[rng.Intn(len(vC18AttrVals))]})
		}
		if rng.Chance(2, 5) {
			pl.HasSignedBy = true
			for i, n := 0, rng.Range(0, 2); i < n; i++ {
				pl.AllOf = append(pl.AllOf, vC18RandAddr(rng))
			}
			for i, n := 0, rng.Range(0, 2); i < n; i++ {
				pl.AnyOf = append(pl.AnyOf, vC18RandAddr(rng))
			}
		}
		base := int64(rng.Range(1, 2000))
		if rng.Chance(1, 20) {
			base = vC18Lim.MaxPrice - 50*int64(nprof)
		}
		for i, prof := range profNames {
			needed := false
			for _, dep := range d.Deploy {
				if dep.Placement == name && dep.Profile == prof {
					needed = true
				}
			}
			if needed || rng.Bool() {
				// distinct amounts per profile within one placement
				pl.Pricing = append(pl.Pricing, vC18Price{Profile: prof, Amount: base + int64(i)*int64(rng.Range(1, 50))})
			}
		}
		d.Placements = append(d.Placements, pl)
	}
	return d
}

// ---------------------------------------------------------------------------
// YAML emitter

type vYNode struct {
	Kind int // 0 scalar, 1 mapping, 2 sequence
	Text string
	Keys []string
	Vals []*vYNode
}

var (
	vYPlainRe  = regexp.MustCompile(`^[A-Za-z/][A-Za-z0-9_./=:@+-]*$`)
	vYReserved = map[string]bool{"true": true, "false": true, "yes": true, "no": true, "on": true, "off": true, "y": true, "n": true, "null": true, "nan": true, "inf": true}
)

func vYPlainSafe(s string) bool {
	return vYPlainRe.MatchString(s) && !strings.HasSuffix(s, ":") && !vYReserved[strings.ToLower(s)]
}

// vYQuote renders a string scalar; style: 0 plain when safe, 1 double, 2 single.
func vYQuote(s string, style int) string {
	if style == 0 && vYPlainSafe(s) {
		return s
	}
	if style == 2 {
		return "'" + strings.Replace(s, "'", "''", -1) + "'"
	}
	r := strings.NewReplacer(`\`, `\\`, `"`, `\"`)
	return `"` + r.Replace(s) + `"`
}

type vYBuilder struct{ rng *vs.Rand }

func (b *vYBuilder) style() int { return b.rng.Pick([]int{6, 2, 2}) }

func (b *vYBuilder) str(s string) *vYNode { return &vYNode{Kind: 0, Text: vYQuote(s, b.style())} }

// lit renders a literal whose text is what the parser sees either way
// (quantities, amounts): plain or quoted.
func (b *vYBuilder) lit(s string) *vYNode {
	if b.rng.Bool() {
		return &vYNode{Kind: 0, Text: s}
	}
	return &vYNode{Kind: 0, Text: vYQuote(s, 1+b.rng.Intn(2))}
}

func vYRaw(s string) *vYNode { return &vYNode{Kind: 0, Text: s} }

func (b *vYBuilder) seq(ss []string) *vYNode {
	n := &vYNode{Kind: 2}
	for _, s := range ss {
		n.Vals = append(n.Vals, b.str(s))
	}
	return n
}

func (n *vYNode) put(b *vYBuilder, key string, v *vYNode) {
	n.Keys = append(n.Keys, vYQuote(key, b.style()))
	n.Vals = append(n.Vals, v)
}

func vYMap() *vYNode { return &vYNode{Kind: 1} }

// vC18Tree builds the YAML tree of D; rng only decides scalar quoting.
func vC18Tree(d *vC18Doc, rng *vs.Rand) *vYNode {
	b := &vYBuilder{rng: rng}
	root := vYMap()
	root.put(b, "version", &vYNode{Kind: 0, Text: []string{`"2.0"`, `'2.0'`, `"2.0"`, `"2"`, `"2.1"`}[rng.Intn(5)]})

	svcs := vYMap()
	for _, s := range d.Services {
		sn := vYMap()
		sn.put(b, "image", b.str(s.Image))
		if len(s.Command) > 0 {
			sn.put(b, "command", b.seq(s.Command))
		}
		if len(s.Args) > 0 {
			sn.put(b, "args", b.seq(s.Args))
		}
		if len(s.Env) > 0 {
			sn.put(b, "env", b.seq(s.Env))
		}
		if len(s.Expose) > 0 {
			ex := &vYNode{Kind: 2}
			for _, e := range s.Expose {
				en := vYMap()
				en.put(b, "port", vYRaw(fmt.Sprintf("%d", e.Port)))
				if e.As != 0 {
					en.put(b, "as", vYRaw(fmt.Sprintf("%d", e.As)))
				}
				if e.Proto != "" {
					en.put(b, "proto", b.str(e.Proto))
				}
				if len(e.Accept) > 0 {
					en.put(b, "accept", b.seq(e.Accept))
				}
				if len(e.To) > 0 {
					to := &vYNode{Kind: 2}
					for _, t := range e.To {
						tn := vYMap()
						if t.Service != "" {
							tn.put(b, "service", b.str(t.Service))
						}
						if t.Global {
							tn.put(b, "global", vYRaw("true"))
						}
						to.Vals = append(to.Vals, tn)
					}
					en.put(b, "to", to)
				}
				ex.Vals = append(ex.Vals, en)
			}
			sn.put(b, "expose", ex)
		}
		svcs.put(b, s.Name, sn)
	}
	root.put(b, "services", svcs)

	compute := vYMap()
	for _, p := range d.Profiles {
		cpu := vYMap()
		cpu.put(b, "units", b.lit(p.CPU))
		if p.CPUArch != "" {
			a := vYMap()
			a.put(b, "arch", b.str(p.CPUArch))
			cpu.put(b, "attributes", a)
		}
		mem := vYMap()
		mem.put(b, "size", b.lit(p.Memory))
		sto := vYMap()
		sto.put(b, "size", b.lit(p.Storage))
		if len(p.StorageAttrs) > 0 {
			a := vYMap()
			for _, kv := range p.StorageAttrs {
				a.put(b, kv.K, &vYNode{Kind: 0, Text: vYQuote(kv.V, 1+rng.Intn(2))})
			}
			sto.put(b, "attributes", a)
		}
		r := vYMap()
		r.put(b, "cpu", cpu)
		r.put(b, "memory", mem)
		r.put(b, "storage", sto)
		pn := vYMap()
		pn.put(b, "resources", r)
		compute.put(b, p.Name, pn)
	}
	placement := vYMap()
	for _, pl := range d.Placements {
		pn := vYMap()
		if len(pl.Attrs) > 0 {
			a := vYMap()
			for _, kv := range pl.Attrs {
				a.put(b, kv.K, &vYNode{Kind: 0, Text: vYQuote(kv.V, 1+rng.Intn(2))})
			}
			pn.put(b, "attributes", a)
		}
		if pl.HasSignedBy {
			sb := vYMap()
			if len(pl.AllOf) > 0 || rng.Chance(1, 3) {
				sb.put(b, "allOf", b.seq(pl.AllOf))
			}
			if len(pl.AnyOf) > 0 || rng.Chance(1, 3) {
				sb.put(b, "anyOf", b.seq(pl.AnyOf))
			}
			pn.put(b, "signedBy", sb)
		}
		pr := vYMap()
		for _, p := range pl.Pricing {
			c := vYMap()
			c.put(b, "denom", b.str("uakt"))
			c.put(b, "amount", b.lit(fmt.Sprintf("%d", p.Amount)))
			pr.put(b, p.Profile, c)
		}
		pn.put(b, "pricing", pr)
		placement.put(b, pl.Name, pn)
	}
	profiles := vYMap()
	profiles.put(b, "compute", compute)
	profiles.put(b, "placement", placement)
	root.put(b, "profiles", profiles)

	dep := vYMap()
	bySvc := map[string]*vYNode{}
	for _, e := range d.Deploy {
		sn := bySvc[e.Service]
		if sn == nil {
			sn = vYMap()
			bySvc[e.Service] = sn
			dep.put(b, e.Service, sn)
		}
		en := vYMap()
		en.put(b, "profile", b.str(e.Profile))
		en.put(b, "count", vYRaw(fmt.Sprintf("%d", e.Count)))
		sn.put(b, e.Placement, en)
	}
	root.put(b, "deployment", dep)
	return root
}

// vYRender writes the tree in block style. order(n) gives the order in which
// the n keys of a mapping are written; sequences keep their order.
func vYRender(sb *strings.Builder, n *vYNode, indent int, order func(n int) []int) {
	pad := strings.Repeat(" ", indent)
	switch n.Kind {
	case 1:
		for _, i := range order(len(n.Keys)) {
			sb.WriteString(pad)
			sb.WriteString(n.Keys[i])
			sb.WriteString(":")
			vYRenderValue(sb, n.Vals[i], indent, order)
		}
	case 2:
		for _, it := range n.Vals {
			switch {
			case it.Kind == 0:
				sb.WriteString(pad + "- " + it.Text + "\n")
			case len(it.Vals) == 0 && it.Kind == 1:
				sb.WriteString(pad + "- {}\n")
			case len(it.Vals) == 0:
				sb.WriteString(pad + "- []\n")
			default:
				var tmp strings.Builder
				vYRender(&tmp, it, indent+2, order)
				sb.WriteString(pad + "- " + tmp.String()[indent+2:])
			}
		}
	}
}

func vYRenderValue(sb *strings.Builder, v *vYNode, indent int, order func(n int) []int) {
	switch {
	case v.Kind == 0:
		sb.WriteString(" " + v.Text + "\n")
	case len(v.Vals) == 0 && v.Kind == 1:
		sb.WriteString(" {}\n")
	case len(v.Vals) == 0:
		sb.WriteString(" []\n")
	default:
		sb.WriteString("\n")
		vYRender(sb, v, indent+2, order)
	}
}

func vYIdentity(n int) []int {
	p := make([]int, n)
	for i := range p {
		p[i] = i
	}
	return p
}

// vC18Render gives the document in declaration order and k key permutations.
func vC18Render(d *vC18Doc, rng *vs.Rand, k int) (string, []string) {
	tree := vC18Tree(d, rng)
	var sb strings.Builder
	sb.WriteString("---\n")
	vYRender(&sb, tree, 0, vYIdentity)
	var perms []string
	for i := 0; i < k; i++ {
		var pb strings.Builder
		pb.WriteString("---\n")
		vYRender(&pb, tree, 0, func(n int) []int { return rng.Perm(n) })
		perms = append(perms, pb.String())
	}
	return sb.String(), perms
}

// ---------------------------------------------------------------------------
// structural shape (abstraction key) and coverage classes

func vC18Shape(d *vC18Doc) string {
	nx, nto := 0, 0
	for _, s := range d.Services {
		nx += len(s.Expose)
		for _, e := range s.Expose {
			nto += len(e.To)
		}
	}
	var cl []string
	for _, c := range vC18Classes(d) {
		if !strings.Contains(c, "suffix:") {
			cl = append(cl, c)
		}
	}
	return fmt.Sprintf("S%d P%d L%d D%d X%d T%d|%s", len(d.Services), len(d.Profiles), len(d.Placements), len(d.Deploy), nx, nto, strings.Join(cl, ","))
}

// vC18Classes lists the coverage classes a description belongs to.
func vC18Classes(d *vC18Doc) []string {
	set := map[string]bool{}
	deployed := map[string]bool{}
	usedProf := map[string]map[string]bool{}
	usedPlace := map[string]bool{}
	for _, dep := range d.Deploy {
		deployed[dep.Service] = true
		usedPlace[dep.Placement] = true
		if usedProf[dep.Profile] == nil {
			usedProf[dep.Profile] = map[string]bool{}
		}
		usedProf[dep.Profile][dep.Service] = true
	}
	if len(usedPlace) >= 2 {
		set["with_2plus_placements"] = true
	}
	if len(usedPlace) < len(d.Placements) {
		set["with_unused_placement"] = true
	}
	for prof, svcs := range usedProf {
		if len(svcs) >= 2 {
			set["with_shared_profile"] = true
		}
		p := d.profile(prof)
		if strings.HasSuffix(p.CPU, "m") {
			set["with_milli_cpu"] = true
		} else if vC18IsDecimalLiteral(p.CPU) {
			set["with_decimal_cpu"] = true
		} else {
			set["with_whole_cpu"] = true
		}
		_, ms := vC18SplitSize(p.Memory)
		_, ss := vC18SplitSize(p.Storage)
		if ms == "" {
			ms = "none"
		}
		if ss == "" {
			ss = "none"
		}
		set["mem_suffix:"+ms] = true
		set["storage_suffix:"+ss] = true
		if vC18IsDecimalLiteral(p.Memory) || vC18IsDecimalLiteral(p.Storage) {
			set["with_decimal_size"] = true
		}
		if p.CPUArch != "" || len(p.StorageAttrs) > 0 {
			set["with_resource_attributes"] = true
		}
	}
	perPlaceProfiles := map[string]map[string]bool{}
	for _, dep := range d.Deploy {
		if perPlaceProfiles[dep.Placement] == nil {
			perPlaceProfiles[dep.Placement] = map[string]bool{}
		}
		perPlaceProfiles[dep.Placement][dep.Profile] = true
	}
	for _, m := range perPlaceProfiles {
		if len(m) >= 2 {
			set["with_2plus_prices_in_group"] = true
		}
	}
	for _, s := range d.Services {
		if !deployed[s.Name] {
			continue
		}
		if len(s.Command) > 0 {
			set["with_command"] = true
		}
		if len(s.Args) > 0 {
			set["with_args"] = true
		}
		if len(s.Env) > 0 {
			set["with_env"] = true
		}
		for _, e := range s.Expose {
			if len(e.To) == 0 {
				set["with_expose_without_to"] = true
			}
			if len(e.Accept) > 0 {
				set["with_accept_hosts"] = true
			}
			if e.As != 0 && e.As != e.Port {
				set["with_as_differs_from_port"] = true
			}
			for _, to := range e.To {
				switch {
				case to.Global && vC18IsHTTP(e):
					set["with_global_http_expose"] = true
				case to.Global:
					set["with_global_nonhttp_expose"] = true
				default:
					set["with_service_expose"] = true
				}
			}
		}
	}
	for _, pl := range d.Placements {
		if !usedPlace[pl.Name] {
			continue
		}
		if len(pl.AllOf)+len(pl.AnyOf) > 0 {
			set["with_signed_by"] = true
		}
		if len(pl.Attrs) > 0 {
			set["with_placement_attributes"] = true
		}
	}
	if len(d.Services) >= 2 {
		set["with_2plus_services"] = true
	}
	out := make([]string, 0, len(set))
	for k := range set {
		out = append(out, k)
	}
	sort.Strings(out)
	return out
}

// vC18IsHTTP states the documented endpoint-kind rule: a global expose is
// served by the provider's shared HTTP ingress exactly when it is TCP (the
// default when no proto is declared; the proto word is case-insensitive) and
// the externally visible port — `as` when declared, else `port` — is 80.
// Every other global expose needs a randomly assigned port on the provider.
func vC18IsHTTP(e vC18Expose) bool {
	ext := e.As
	if ext == 0 {
		ext = e.Port
	}
	return (e.Proto == "" || strings.EqualFold(e.Proto, "tcp")) && ext == 80
}
