//go:build verif
// +build verif

package pubsub

// C15 — the event bus delivers every event exactly once, in order, to every
// subscriber; clones get what the original had not yet handed out; closing
// never blocks.  DESIGN.md §5 C15 (engine E4 "buslog").
//
// A run drives the real bus with concurrent publishers, subscribers, clones
// (and clones of clones), slow / stalled readers and closes.  Every operation
// is logged at the caller boundary with stamps from one atomic counter; the
// recorded history is judged offline by vCheckBusHistory.

import (
	"fmt"
	"runtime"
	"sort"
	"strings"
	"sync"
	"sync/atomic"
	"testing"
	"time"

	"github.com/ovrclk/akash/util/verifhook"
	vs "github.com/ovrclk/akash/verifsupport"
)

type vEv struct {
	P int `json:"p"`
	N int `json:"n"`
}

func (e vEv) String() string { return fmt.Sprintf("%d.%d", e.P, e.N) }

// vAsEv: anything the bus hands out that is not one of our events (e.g. a
// nil) is an observation in its own right.
func vAsEv(x Event) vEv {
	if e, ok := x.(vEv); ok {
		return e
	}
	return vEv{P: -1, N: -1}
}

type vPubRec struct {
	Ev   vEv   `json:"ev"`
	Call int64 `json:"call"`
	Ret  int64 `json:"ret"`
	Err  bool  `json:"err,omitempty"`
}

type vRecv struct {
	Ev   vEv   `json:"ev"`
	Pre  int64 `json:"pre"`  // stamp taken before waiting for this event
	Post int64 `json:"post"` // stamp taken after receiving it
}

type vSubRec struct {
	ID        int     `json:"id"`
	Parent    int     `json:"parent"` // -1: subscribed on the bus itself
	SubCall   int64   `json:"sub_call"`
	SubRet    int64   `json:"sub_ret"`
	SubErr    bool    `json:"sub_err,omitempty"`
	Recv      []vRecv `json:"recv"`
	Stalled   bool    `json:"stalled,omitempty"` // never reads
	CloseCall int64   `json:"close_call,omitempty"`
	CloseRet  int64   `json:"close_ret,omitempty"`
	DoneSeen  int64   `json:"done_seen,omitempty"` // stamp at which the reader saw Done()
}

type vBusHistory struct {
	Mode         string      `json:"mode"` // drain | midclose | directed:<name>
	Pubs         [][]vPubRec `json:"pubs"`
	Subs         []*vSubRec  `json:"subs"`
	BusCloseCall int64       `json:"bus_close_call,omitempty"`
	BusCloseRet  int64       `json:"bus_close_ret,omitempty"`
	Hang         string      `json:"hang,omitempty"`
}

type vBusViolation struct{ Rule, Trigger, Detail string }

// ---------------------------------------------------------------------------
// offline checker

func vCheckBusHistory(h *vBusHistory) []vBusViolation {
	var out []vBusViolation
	bad := func(rule, trigger, detail string) {
		if len(out) < 8 {
			out = append(out, vBusViolation{rule, trigger, detail})
		}
	}
	if h.Hang != "" {
		bad("never-blocks", h.Mode, h.Hang)
	}
	if len(h.Subs) == 0 {
		return out
	}
	pub := map[vEv]vPubRec{}
	accepted := 0
	for _, ps := range h.Pubs {
		for _, p := range ps {
			pub[p.Ev] = p
			if !p.Err {
				accepted++
			}
		}
	}
	s0 := h.Subs[0]
	// (1) S0: no duplicates, per-publisher order, real-time order, completeness
	idx := map[vEv]int{}
	last := map[int]int{}
	for i, r := range s0.Recv {
		if _, dup := idx[r.Ev]; dup {
			bad("exactly-once", "s0-duplicate", fmt.Sprintf("S0 received %v twice (positions %d and %d)", r.Ev, idx[r.Ev], i))
			continue
		}
		idx[r.Ev] = i
		p, known := pub[r.Ev]
		if !known {
			bad("only-published-events", "s0", fmt.Sprintf("S0 received %v which nobody published", r.Ev))
			continue
		}
		if p.Err {
			bad("only-accepted-events", "s0", fmt.Sprintf("S0 received %v although its Publish returned an error", r.Ev))
		}
		if l, ok := last[r.Ev.P]; ok && r.Ev.N <= l {
			bad("publication-order", "per-publisher", fmt.Sprintf("S0 received %v after %d.%d", r.Ev, r.Ev.P, l))
		}
		last[r.Ev.P] = r.Ev.N
	}
	// real-time order of non-overlapping publishes (O(n log n): sweep by ret)
	type pe struct {
		ev  vEv
		pos int
	}
	var byCall []pe
	for ev, i := range idx {
		byCall = append(byCall, pe{ev, i})
	}
	sort.Slice(byCall, func(a, b int) bool { return pub[byCall[a].ev].Call < pub[byCall[b].ev].Call })
	byRet := append([]pe(nil), byCall...)
	sort.Slice(byRet, func(a, b int) bool { return pub[byRet[a].ev].Ret < pub[byRet[b].ev].Ret })
	maxPos, maxEv, j := -1, vEv{}, 0
	for _, c := range byCall {
		for j < len(byRet) && pub[byRet[j].ev].Ret < pub[c.ev].Call {
			if byRet[j].pos > maxPos {
				maxPos, maxEv = byRet[j].pos, byRet[j].ev
			}
			j++
		}
		if maxPos > c.pos {
			bad("publication-order", "real-time", fmt.Sprintf("Publish(%v) returned before Publish(%v) was called, but S0 received %v first", maxEv, c.ev, c.ev))
			break
		}
	}
	drained := strings.HasPrefix(h.Mode, "drain") || strings.HasPrefix(h.Mode, "directed")
	if drained {
		for _, ps := range h.Pubs {
			for _, p := range ps {
				if _, ok := idx[p.Ev]; !ok && !p.Err {
					bad("every-event-delivered", "s0-missing", fmt.Sprintf("Publish(%v) returned nil but S0 (subscribed before any publish, read to the end) never received it; S0 got %d of %d", p.Ev, len(s0.Recv), accepted))
				}
			}
		}
	}
	order := make([]vEv, len(s0.Recv))
	for i, r := range s0.Recv {
		order[i] = r.Ev
	}
	closedBefore := func(s *vSubRec) bool {
		// the subscriber (or an ancestor, or the bus) was closed: it need not run to the end
		for cur := s; cur != nil; {
			if cur.CloseCall != 0 {
				return true
			}
			if cur.Parent < 0 {
				break
			}
			cur = h.Subs[cur.Parent]
		}
		return !drained
	}
	// (2)/(3) every other subscriber: contiguous segment of S0's sequence
	for _, s := range h.Subs[1:] {
		if s.SubErr {
			continue
		}
		kind := "subscriber"
		if s.Parent >= 0 {
			kind = "clone"
		}
		// start bounds (index into S0's order): lo <= start <= hi
		lo, hi := 0, len(order)
		why := map[string]string{}
		raiseLo := func(v int, reason string) {
			if v > lo {
				lo = v
				why["lo"] = reason
			}
		}
		lowerHi := func(v int, reason string) {
			if v < hi {
				hi = v
				why["hi"] = reason
			}
		}
		// root of the clone chain decides what was published "before"
		root := s
		for root.Parent >= 0 {
			root = h.Subs[root.Parent]
		}
		for ev, i := range idx {
			p := pub[ev]
			if p.Ret < root.SubCall {
				raiseLo(i+1, fmt.Sprintf("Publish(%v) returned before the subscription was requested", ev))
			}
			if p.Call > s.SubRet {
				lowerHi(i, fmt.Sprintf("Publish(%v) was called after the subscription returned", ev))
			}
		}
		if s.Parent >= 0 {
			par := h.Subs[s.Parent]
			if len(par.Recv) > 0 {
				if i, ok := idx[par.Recv[0].Ev]; ok {
					raiseLo(i, "a clone cannot start before its original's first event")
				}
			}
			for _, r := range par.Recv {
				i, ok := idx[r.Ev]
				if !ok {
					continue
				}
				if r.Post < s.SubCall {
					raiseLo(i+1, fmt.Sprintf("the original's reader had received %v before Clone() was called", r.Ev))
				}
				if r.Pre > s.SubRet {
					lowerHi(i, fmt.Sprintf("the original handed out %v after Clone() returned", r.Ev))
				}
			}
		}
		if s.Stalled {
			continue // never read: only the non-blocking clause applies
		}
		if len(s.Recv) == 0 {
			if drained && !closedBefore(s) && hi < len(order) {
				bad(kind+"-misses-no-later-events", kind, fmt.Sprintf("%s %d (parent %d) was never closed and received nothing, although %s", kind, s.ID, s.Parent, why["hi"]))
			}
			continue
		}
		start, ok := idx[s.Recv[0].Ev]
		if !ok {
			if drained {
				bad("segment-of-publication-order", kind, fmt.Sprintf("%s %d received %v which S0 never received", kind, s.ID, s.Recv[0].Ev))
			}
			continue
		}
		if start < lo {
			bad(kind+"-gets-no-earlier-events", kind, fmt.Sprintf("%s %d (parent %d) starts with %v (position %d) but must not start before position %d: %s", kind, s.ID, s.Parent, s.Recv[0].Ev, start, lo, why["lo"]))
		}
		if start > hi {
			bad(kind+"-misses-no-later-events", kind, fmt.Sprintf("%s %d (parent %d) starts with %v (position %d) but must start no later than position %d: %s", kind, s.ID, s.Parent, s.Recv[0].Ev, start, hi, why["hi"]))
		}
		for k, r := range s.Recv {
			if start+k >= len(order) {
				if drained {
					bad("segment-of-publication-order", kind, fmt.Sprintf("%s %d received %v beyond the end of S0's sequence", kind, s.ID, r.Ev))
				}
				break
			}
			if order[start+k] != r.Ev {
				rule := "segment-of-publication-order"
				if _, dupe := idx[r.Ev]; dupe && idx[r.Ev] < start+k {
					rule = "exactly-once"
				}
				bad(rule, kind, fmt.Sprintf("%s %d (parent %d): event #%d is %v, the publication order has %v there (segment starts at %v)", kind, s.ID, s.Parent, k, r.Ev, order[start+k], s.Recv[0].Ev))
				break
			}
		}
		if !closedBefore(s) && start+len(s.Recv) < len(order) {
			bad("runs-to-the-end", kind, fmt.Sprintf("%s %d (parent %d) was never closed but stopped after %d events at %v; %d later events were delivered to S0", kind, s.ID, s.Parent, len(s.Recv), s.Recv[len(s.Recv)-1].Ev, len(order)-start-len(s.Recv)))
		}
	}
	return out
}

// ---------------------------------------------------------------------------
// workload

type vBusPlan struct {
	Seed     int64 `json:"seed"`
	Run      int   `json:"run"`
	Mode     string
	NPub     int
	PerPub   int
	NDynamic int
	Stalled  bool
	CloseAt  int // midclose: close the bus after this many publishes
}

// vClock is the one logical clock of a run; its value is also the run's
// progress counter (every stamped operation is progress).
type vClock struct{ n int64 }

func (c *vClock) stamp() int64 { return atomic.AddInt64(&c.n, 1) }

type vLiveSub struct {
	rec  *vSubRec
	sub  Subscriber
	mu   sync.Mutex
	got  int64 // atomic: number received
	quit chan struct{}
}

// waitProgress waits for cond; returns false if nothing in the whole process
// made progress for `stall`.
func vWaitProgress(clk *vClock, cond func() bool, stall time.Duration) bool {
	if atomic.LoadInt32(&vSettled) != 0 && stall > 300*time.Millisecond {
		stall = 300 * time.Millisecond
	}
	lastP := atomic.LoadInt64(&clk.n)
	lastT := time.Now()
	for !cond() {
		time.Sleep(200 * time.Microsecond)
		if p := atomic.LoadInt64(&clk.n); p != lastP {
			lastP, lastT = p, time.Now()
		} else if time.Since(lastT) > stall {
			return false
		}
	}
	return true
}

func vGoroutineDump() string {
	buf := make([]byte, 1<<16)
	n := runtime.Stack(buf, true)
	s := string(buf[:n])
	if len(s) > 6000 {
		s = s[:6000] + "…"
	}
	return s
}

const vStall = 15 * time.Second

// once the run has recorded a violation the verdict is settled; later waits
// only need to be long enough to collect further evidence quickly
var vSettled int32

func vRunBusPlan(pl vBusPlan) *vBusHistory {
	r := vs.NewRand(pl.Seed, uint64(pl.Run)+0xB05)
	clk := &vClock{}
	h := &vBusHistory{Mode: pl.Mode, Pubs: make([][]vPubRec, pl.NPub)}
	theBus := NewBus()
	busDone := func() bool {
		select {
		case <-theBus.Done():
			return true
		default:
			return false
		}
	}
	var published int64
	var wg sync.WaitGroup
	var subsMu sync.Mutex
	live := []*vLiveSub{}

	startReader := func(ls *vLiveSub, mode int, closeAfter int) {
		wg.Add(1)
		go func() {
			defer wg.Done()
			rr := vs.NewRand(pl.Seed, uint64(pl.Run*1000+ls.rec.ID))
			for {
				pre := clk.stamp()
				select {
				case ev := <-ls.sub.Events():
					post := clk.stamp()
					ls.mu.Lock()
					ls.rec.Recv = append(ls.rec.Recv, vRecv{Ev: vAsEv(ev), Pre: pre, Post: post})
					ls.mu.Unlock()
					n := atomic.AddInt64(&ls.got, 1)
					if closeAfter > 0 && int(n) >= closeAfter {
						ls.mu.Lock()
						ls.rec.CloseCall = clk.stamp()
						ls.mu.Unlock()
						ls.sub.Close()
						ls.mu.Lock()
						ls.rec.CloseRet = clk.stamp()
						ls.mu.Unlock()
						return
					}
					switch mode {
					case 1:
						if rr.Chance(1, 3) {
							runtime.Gosched()
						}
					case 2:
						if rr.Chance(1, 6) {
							time.Sleep(time.Duration(rr.Range(5, 120)) * time.Microsecond)
						}
					}
				case <-ls.sub.Done():
					ls.mu.Lock()
					ls.rec.DoneSeen = clk.stamp()
					ls.mu.Unlock()
					return
				case <-ls.quit:
					return
				}
			}
		}()
	}

	subscribe := func(parent int, stalled bool) *vLiveSub {
		rec := &vSubRec{Parent: parent, Stalled: stalled}
		var psub Subscriber
		if parent >= 0 {
			subsMu.Lock()
			psub = live[parent].sub
			subsMu.Unlock()
		}
		rec.SubCall = clk.stamp()
		var sub Subscriber
		var err error
		if psub != nil {
			sub, err = psub.Clone()
		} else {
			sub, err = theBus.Subscribe()
		}
		rec.SubRet = clk.stamp()
		rec.SubErr = err != nil
		ls := &vLiveSub{rec: rec, sub: sub, quit: make(chan struct{})}
		subsMu.Lock()
		rec.ID = len(live)
		live = append(live, ls)
		h.Subs = append(h.Subs, rec)
		subsMu.Unlock()
		return ls
	}

	// S0 and (optionally) a subscriber that never reads
	s0 := subscribe(-1, false)
	startReader(s0, 0, 0)
	if pl.Stalled {
		subscribe(-1, true)
	}

	total := pl.NPub * pl.PerPub
	// dynamic subscribers / clones
	var dynWG sync.WaitGroup
	for d := 0; d < pl.NDynamic; d++ {
		startAt := r.Intn(total + 1)
		cloneOf := -1
		if r.Chance(1, 2) {
			cloneOf = -2 // decide at start time among existing
		}
		mode := r.Intn(3)
		closeAfter := 0
		if r.Chance(1, 3) {
			closeAfter = r.Range(1, 20)
		}
		stalled := r.Chance(1, 10)
		pick := r.Intn(1 << 20)
		dynWG.Add(1)
		go func() {
			defer dynWG.Done()
			if !vWaitProgress(clk, func() bool { return atomic.LoadInt64(&published) >= int64(startAt) || busDone() }, vStall) {
				return
			}
			if busDone() {
				return
			}
			parent := -1
			if cloneOf == -2 {
				subsMu.Lock()
				var cands []int
				for i, l := range live {
					l.mu.Lock()
					if !l.rec.SubErr && l.rec.CloseCall == 0 {
						cands = append(cands, i)
					}
					l.mu.Unlock()
				}
				subsMu.Unlock()
				if len(cands) > 0 {
					parent = cands[pick%len(cands)]
				}
			}
			ls := subscribe(parent, stalled)
			if ls.rec.SubErr {
				return
			}
			if !stalled {
				startReader(ls, mode, closeAfter)
			}
		}()
	}

	// publishers
	var pubWG sync.WaitGroup
	for p := 0; p < pl.NPub; p++ {
		p := p
		pubWG.Add(1)
		go func() {
			defer pubWG.Done()
			rr := vs.NewRand(pl.Seed, uint64(pl.Run*100+p)+77)
			for n := 0; n < pl.PerPub; n++ {
				ev := vEv{p, n}
				rec := vPubRec{Ev: ev}
				rec.Call = clk.stamp()
				err := theBus.Publish(ev)
				rec.Ret = clk.stamp()
				rec.Err = err != nil
				h.Pubs[p] = append(h.Pubs[p], rec)
				atomic.AddInt64(&published, 1)
				if rr.Chance(1, 8) {
					runtime.Gosched()
				}
			}
		}()
	}
	if pl.Mode == "midclose" {
		wg.Add(1)
		go func() {
			defer wg.Done()
			vWaitProgress(clk, func() bool { return atomic.LoadInt64(&published) >= int64(pl.CloseAt) }, vStall)
			h.BusCloseCall = clk.stamp()
			theBus.Close()
			h.BusCloseRet = clk.stamp()
		}()
	}

	waitGroup := func(w *sync.WaitGroup, what string) bool {
		done := make(chan struct{})
		go func() { w.Wait(); close(done) }()
		ok := vWaitProgress(clk, func() bool {
			select {
			case <-done:
				return true
			default:
				return false
			}
		}, vStall)
		if !ok && h.Hang == "" {
			h.Hang = what + " did not complete although nothing else was pending (no progress for " + vStall.String() + ")\n" + vGoroutineDump()
		}
		return ok
	}

	if !waitGroup(&pubWG, "publishers") {
		return h
	}
	if !waitGroup(&dynWG, "subscribe/clone calls") {
		return h
	}
	if pl.Mode == "drain" {
		// let every live reader catch up with S0, then close the bus
		accepted := 0
		for _, ps := range h.Pubs {
			for _, p := range ps {
				if !p.Err {
					accepted++
				}
			}
		}
		ok := vWaitProgress(clk, func() bool { return int(atomic.LoadInt64(&s0.got)) >= accepted }, vStall)
		if ok {
			// all other live, non-closing readers: wait until they stop making progress towards the end
			subsMu.Lock()
			ls := append([]*vLiveSub(nil), live...)
			subsMu.Unlock()
			s0.mu.Lock()
			var lastEv vEv
			if len(s0.rec.Recv) > 0 {
				lastEv = s0.rec.Recv[len(s0.rec.Recv)-1].Ev
			}
			s0.mu.Unlock()
			for _, l := range ls[1:] {
				if l.rec.Stalled || l.rec.SubErr || accepted == 0 {
					continue
				}
				l := l
				vWaitProgress(clk, func() bool {
					// this one or an ancestor closed => it is being shut down
					for cur := l; ; {
						cur.mu.Lock()
						closed := cur.rec.CloseCall != 0 || cur.rec.DoneSeen != 0
						parent := cur.rec.Parent
						cur.mu.Unlock()
						if closed {
							return true
						}
						if parent < 0 {
							break
						}
						cur = ls[parent]
					}
					l.mu.Lock()
					defer l.mu.Unlock()
					n := len(l.rec.Recv)
					if n == 0 {
						// nothing observed yet: whether anything is owed to this
						// subscriber (late publishes, the backlog of a stalled
						// original, ...) is the checker's business; here we only give
						// it time: the wait ends when the whole run has been quiet
						// for the stall period below
						return false
					}
					return l.rec.Recv[n-1].Ev == lastEv
				}, 400*time.Millisecond)
			}
		}
		h.BusCloseCall = clk.stamp()
		closed := make(chan struct{})
		go func() { theBus.Close(); close(closed) }()
		if !vWaitProgress(clk, func() bool {
			select {
			case <-closed:
				return true
			default:
				return false
			}
		}, vStall) {
			if h.Hang == "" {
				h.Hang = "bus.Close() did not return although nothing else was pending (no progress for " + vStall.String() + ")\n" + vGoroutineDump()
			}
			return h
		}
		h.BusCloseRet = clk.stamp()
	}
	// after the bus is closed every reader sees Done()
	if !waitGroup(&wg, "readers / closers after bus close") {
		return h
	}
	select {
	case <-theBus.Done():
	case <-time.After(vStall):
		if h.Hang == "" {
			h.Hang = "bus.Done() not closed after Close() returned\n" + vGoroutineDump()
		}
	}
	return h
}

// ---------------------------------------------------------------------------
// directed single-threaded variants: publish n, read k, clone => the clone
// gets exactly k+1..n and then everything published later.

func vDirectedClone(n, k, later int, cloneOfClone bool) (*vBusHistory, []vBusViolation) {
	var vio []vBusViolation
	h := &vBusHistory{Mode: fmt.Sprintf("directed:clone n=%d k=%d later=%d coc=%v", n, k, later, cloneOfClone)}
	bus := NewBus()
	defer func() { go bus.Close() }() // (never waits: a wedged bus must not take the harness with it)
	s, err := bus.Subscribe()
	if err != nil {
		return h, []vBusViolation{{"subscribe-works", "directed", err.Error()}}
	}
	for i := 0; i < n; i++ {
		if err := bus.Publish(vEv{0, i}); err != nil {
			return h, []vBusViolation{{"publish-works", "directed", err.Error()}}
		}
	}
	// barrier: the bus loop handles this after forwarding all n events
	if b, err := bus.Subscribe(); err == nil {
		b.Close()
	}
	recv := func(sub Subscriber, who string, want vEv) bool {
		select {
		case ev := <-sub.Events():
			if vAsEv(ev) != want {
				vio = append(vio, vBusViolation{"clone-gets-exactly-unread-then-later", "directed", fmt.Sprintf("%s: %s received %v, expected %v", h.Mode, who, ev, want)})
				return false
			}
			return true
		case <-time.After(3 * time.Second):
			vio = append(vio, vBusViolation{"clone-gets-exactly-unread-then-later", "directed", fmt.Sprintf("%s: %s received nothing, expected %v", h.Mode, who, want)})
			return false
		}
	}
	for i := 0; i < k; i++ {
		if !recv(s, "original", vEv{0, i}) {
			return h, vio
		}
	}
	c, err := s.Clone()
	if err != nil {
		return h, []vBusViolation{{"clone-works", "directed", err.Error()}}
	}
	target := c
	if cloneOfClone {
		cc, err := c.Clone()
		if err != nil {
			return h, []vBusViolation{{"clone-works", "directed", err.Error()}}
		}
		target = cc
	}
	for i := 0; i < later; i++ {
		if err := bus.Publish(vEv{0, n + i}); err != nil {
			return h, []vBusViolation{{"publish-works", "directed", err.Error()}}
		}
	}
	for i := k; i < n+later; i++ {
		if !recv(target, "clone", vEv{0, i}) {
			return h, vio
		}
	}
	// the original still gets the rest, too
	for i := k; i < n+later; i++ {
		if !recv(s, "original", vEv{0, i}) {
			return h, vio
		}
	}
	// nothing further
	select {
	case ev := <-target.Events():
		vio = append(vio, vBusViolation{"exactly-once", "directed", fmt.Sprintf("%s: clone received an extra event %v", h.Mode, ev)})
	case <-time.After(2 * time.Millisecond):
	}
	return h, vio
}

// ---------------------------------------------------------------------------

var vHookOn int32
var vHookRnd uint64 = 88172645463325252

func vBusLoopHook(point string, args ...interface{}) {
	if point != "pubsub.bus.loop" || atomic.LoadInt32(&vHookOn) == 0 {
		return
	}
	x := atomic.AddUint64(&vHookRnd, 0x9E3779B97F4A7C15)
	x ^= x >> 31
	x *= 0xBF58476D1CE4E5B9
	x ^= x >> 29
	switch x % 20 {
	case 0:
		time.Sleep(time.Duration(x>>8%50) * time.Microsecond)
	case 1:
		runtime.Gosched()
	}
}

func TestVerif_C15(t *testing.T) {
	res := vs.NewResult("C15", "exploration",
		"concurrent runs of the real bus: 1/2/4 publishers x up to 200 uniquely numbered events, a subscriber S0 created first and read to the end, subscribers and clones (also clones of clones) created at random points, fast / yielding / sleeping / stalled readers, closes after k events, bus closed after draining or mid-run, random delays injected at the bus loop hook; every call is stamped at the caller boundary and the recorded history is checked offline (no duplicates, per-publisher and real-time order, completeness, every subscriber a contiguous segment of S0's order within the start bounds implied by the stamps, clones bounded by what the original had handed out, no blocking); plus single-threaded publish-n/read-k/clone variants with an exact expectation. distinct = run configurations that produced at least one clone or mid-run subscriber with observed events")
	res.Assume("hang detection is bounded progress: an operation is reported as blocked when the whole process made no progress for 15 s while nothing else was pending")
	for _, f := range []string{"runs_drain", "runs_midclose", "clones_observed", "clones_of_clones_observed", "mid_run_subscribers_observed", "stalled_subscriber_runs", "subscriber_closed_mid_run", "directed_variants"} {
		res.Floor(f, 1)
	}
	defer func() {
		if err := res.Write(); err != nil {
			t.Fatalf("cannot write result: %v", err)
		}
		if n := res.Violations(); n > 0 {
			t.Errorf("%d violation(s) recorded", n)
		}
	}()
	if rp := vs.ReplayFile(); rp != "" {
		var h vBusHistory
		if err := vs.LoadReplay(rp, &h); err != nil {
			t.Fatalf("replay: %v", err)
		}
		for _, v := range vCheckBusHistory(&h) {
			res.AddViolation(v.Rule, "C15/"+v.Rule+"/"+v.Trigger, v.Detail, &h)
		}
		res.Eval(1)
		return
	}
	verifhook.Set(vBusLoopHook)
	defer verifhook.Set(nil)

	// directed variants (hook delays off: they are single-threaded and exact)
	nd := 0
	for n := 0; n <= 6; n++ {
		for k := 0; k <= n; k++ {
			for _, later := range []int{0, 3} {
				for _, coc := range []bool{false, true} {
					if res.Violations() >= 3 {
						continue // the directed part has made its point; do not wait out every timeout
					}
					h, vio := vDirectedClone(n, k, later, coc)
					nd++
					res.Eval(1)
					for _, v := range vio {
						res.AddViolation(v.Rule, "C15/"+v.Rule+"/"+v.Trigger, v.Detail, h)
						atomic.StoreInt32(&vSettled, 1)
					}
					res.Distinct(h.Mode)
				}
			}
		}
	}
	res.Count("directed_variants", nd)

	atomic.StoreInt32(&vHookOn, 1)
	runs := vs.Scale(400, 20000)
	if vs.Stage() == "race" {
		runs = vs.Scale(100, 3000)
	}
	seed := vs.Seed()
	workers := runtime.NumCPU() / 2
	if workers < 2 {
		workers = 2
	}
	vs.Parallel(runs, workers, func(i int) {
		r := vs.NewRand(seed, uint64(i)+0xC15)
		pl := vBusPlan{Seed: seed, Run: i, Mode: "drain", NPub: []int{1, 2, 4}[r.Intn(3)], PerPub: r.Range(1, 200), NDynamic: r.Range(0, 7), Stalled: r.Chance(1, 2)}
		if i%10 == 0 {
			pl.PerPub = r.Range(1, 6) // many tiny histories
		}
		if r.Chance(1, 3) {
			pl.Mode = "midclose"
			pl.CloseAt = r.Intn(pl.NPub*pl.PerPub + 1)
		}
		h := vRunBusPlan(pl)
		res.Eval(1)
		res.Count("runs_"+pl.Mode, 1)
		if pl.Stalled {
			res.Count("stalled_subscriber_runs", 1)
		}
		clones, coc, mid, closed := 0, 0, 0, 0
		for _, s := range h.Subs {
			if s.SubErr || len(s.Recv) == 0 {
				continue
			}
			if s.Parent >= 0 {
				clones++
				if h.Subs[s.Parent].Parent >= 0 {
					coc++
				}
			} else if s.ID > 0 {
				mid++
			}
			if s.CloseCall != 0 {
				closed++
			}
		}
		res.Count("clones_observed", clones)
		res.Count("clones_of_clones_observed", coc)
		res.Count("mid_run_subscribers_observed", mid)
		res.Count("subscriber_closed_mid_run", closed)
		n := 0
		for _, s := range h.Subs {
			n += len(s.Recv)
		}
		res.Count("events_delivered_observed", n)
		if clones+mid > 0 {
			res.Distinct(fmt.Sprintf("%s|pub=%d|per=%d|dyn=%d|stalled=%v|clones=%d|coc=%d|mid=%d|closed=%d", pl.Mode, pl.NPub, pl.PerPub/20, pl.NDynamic, pl.Stalled, clones, coc, mid, closed))
		}
		for _, v := range vCheckBusHistory(h) {
			res.AddViolation(v.Rule, "C15/"+v.Rule+"/"+v.Trigger, v.Detail, h)
			atomic.StoreInt32(&vSettled, 1)
		}
		if res.WantSample() && clones > 0 && n < 60 {
			res.Sample(h)
		}
	})
}
