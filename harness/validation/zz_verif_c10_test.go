//go:build verif
// +build verif

package validation_test

// C10 — manifest integrity: the provider deploys only what the chain agreed.
// DESIGN.md §5 C10.  This file: the cross-validation of a submitted manifest
// against the on-chain deployment groups (both directions alarm).  The hash
// part lives in zz_verif_c10hash_test.go.
//
// The package is the external test package `validation_test` because package
// sdl (whose ManifestVersion is the hash under observation) imports package
// validation; everything observed here is exported.
//
// Oracle, from the statement only (set / multiset algebra, no call into the
// code under observation):
//
//   accept  <=>  the manifest's group names are pairwise different and are
//                exactly the deployment's group names
//            AND for every group:  multiset{canon(unit) -> sum of count} of the
//                manifest's services == the same multiset of the deployment
//                group's resources
//            AND for every group:  (#global exposes that are HTTP ingress,
//                #other global exposes) == (#endpoints of kind SHARED_HTTP,
//                #endpoints of kind RANDOM_PORT) of the deployment group.
//
// Decisions on what the statement leaves open (all documented in the evidence):
//
//  * canon(unit) = cpu units + cpu attributes, memory quantity + attributes,
//    storage quantity + attributes.  ResourceUnits.Endpoints are NOT part of
//    canon(unit): the statement lists "compute resources, replica counts and
//    endpoint counts" and speaks of endpoint *counts* per group, so endpoints
//    are judged only through the per-group count by kind.  One endpoint entry
//    of a unit counts once, not once per replica (that is how sdl/v2.go
//    writes them: one entry per global expose of the service, whatever its
//    replica count), and one global expose of a service counts once.
//  * An expose is "HTTP ingress" iff it is global, TCP and its externally
//    visible port (ExternalPort, or Port when ExternalPort is 0) is 80 — the
//    rule sdl/v2.go uses when it writes the endpoint kinds on chain.
//  * The Resources.Endpoints list *inside a manifest service* is not looked at
//    by the oracle (the statement speaks of exposed endpoints); the generator
//    sometimes leaves it inconsistent with the exposes on purpose.
//  * Attribute lists are compared as lists.  A pair that differs ONLY in the
//    order of the attributes of a unit is a corner the statement does not
//    determine: it is counted (corner_attribute_order_only:*), never alarmed.
//  * ValidateManifest (name, image, env, port, host, resource-limit rules) runs
//    before the cross-validation in the provider.  Generated manifests satisfy
//    those rules; if it nevertheless rejects for a rule that has nothing to do
//    with the property the pair is counted as rejected_for_unrelated_rule and
//    does not count towards a floor.  Its "duplicate group" / "manifest is
//    empty" rejections belong to the property (set of group names).
//  * false-accept is judged on what the provider runs (ValidateManifest AND
//    cross-validation); false-reject is judged on the cross-validation alone
//    ("the resource comparison rejects no manifest whose totals are equal").

import (
	"encoding/json"
	"fmt"
	"runtime"
	"sort"
	"strings"
	"testing"

	sdk "github.com/cosmos/cosmos-sdk/types"

	"github.com/ovrclk/akash/manifest"
	"github.com/ovrclk/akash/types"
	"github.com/ovrclk/akash/validation"
	vs "github.com/ovrclk/akash/verifsupport"
	dtypes "github.com/ovrclk/akash/x/deployment/types"
)

const (
	vMi = uint64(1) << 20
	vGi = uint64(1) << 30
)

var (
	vCPUSet = []uint64{100, 250, 500}
	vMemSet = []uint64{128 * vMi, 256 * vMi}
	vStoSet = []uint64{512 * vMi, vGi}

	vTransforms = []string{"identity", "split", "merge", "permute-services", "permute-groups"}
	vNearMisses = []string{"cpu", "memory", "storage", "attribute", "count", "endpoint-added", "endpoint-removed", "endpoint-kind", "group-renamed", "group-dropped", "group-added"}
)

// vC10Case is the replay case: everything needed to re-run one pair (or one
// hash mutation) deterministically.
type vC10Case struct {
	Kind      string            `json:"kind"` // "pair" | "hash-mutation" | "hash-serialization"
	Transform string            `json:"transform,omitempty"`
	NearMiss  string            `json:"near_miss,omitempty"`
	Variant   string            `json:"variant,omitempty"`
	Origin    string            `json:"origin,omitempty"`
	Groups    []dtypes.Group    `json:"groups,omitempty"`
	Manifest  manifest.Manifest `json:"manifest,omitempty"`
	// hash cases are regenerated from the stream (a manifest field dropped
	// from JSON would otherwise also be dropped from the replay file)
	HashStream   uint64 `json:"hash_stream,omitempty"`
	HashMode     int    `json:"hash_mode,omitempty"`
	HashMutation string `json:"hash_mutation,omitempty"`
	Seed         int64  `json:"seed,omitempty"`
}

// ---------------------------------------------------------------------------
// oracle

func vCanonRV(v types.ResourceValue) string {
	if v.Val.IsNil() {
		return "nil"
	}
	return v.Val.BigInt().String()
}

func vCanonAttrs(a []types.Attribute, sorted bool) string {
	parts := make([]string, 0, len(a))
	for _, x := range a {
		parts = append(parts, fmt.Sprintf("%q=%q", x.Key, x.Value))
	}
	if sorted {
		sort.Strings(parts)
	}
	return "[" + strings.Join(parts, ",") + "]"
}

// vCanonUnit is the canonical string of the compute part of a unit.
func vCanonUnit(u types.ResourceUnits, sortedAttrs bool) string {
	c, m, s := "nil", "nil", "nil"
	if u.CPU != nil {
		c = vCanonRV(u.CPU.Units) + vCanonAttrs(u.CPU.Attributes, sortedAttrs)
	}
	if u.Memory != nil {
		m = vCanonRV(u.Memory.Quantity) + vCanonAttrs(u.Memory.Attributes, sortedAttrs)
	}
	if u.Storage != nil {
		s = vCanonRV(u.Storage.Quantity) + vCanonAttrs(u.Storage.Attributes, sortedAttrs)
	}
	return "cpu=" + c + ";mem=" + m + ";sto=" + s
}

func vMultisetEqual(a, b map[string]uint64) bool {
	for k, v := range a {
		if v != 0 && b[k] != v {
			return false
		}
	}
	for k, v := range b {
		if v != 0 && a[k] != v {
			return false
		}
	}
	return true
}

// vIsHTTPIngress: global, TCP, externally visible on port 80.
func vIsHTTPIngress(e manifest.ServiceExpose) bool {
	ext := e.ExternalPort
	if ext == 0 {
		ext = e.Port
	}
	return e.Global && e.Proto == manifest.TCP && ext == 80
}

type vOracle struct {
	Equal        bool   // the statement demands acceptance
	Corner       string // non-empty: the statement does not determine the verdict
	Why          string // first clause that fails: group-names | resources | endpoints
	TotalsD      uint64 // replicas on the deployment side (all groups)
	TotalsM      uint64
	EPD, EPM     [2]int // (http, other) summed over all groups
	Groups, Unit int
}

func vC10Oracle(groups []dtypes.Group, m manifest.Manifest) vOracle {
	o := vOracle{Groups: len(groups)}
	dn := map[string]int{}
	for i, g := range groups {
		if _, dup := dn[g.GroupSpec.Name]; dup {
			o.Corner = "deployment-group-names-not-unique"
			return o
		}
		dn[g.GroupSpec.Name] = i
		o.Unit += len(g.GroupSpec.Resources)
	}
	namesEqual := len(m) == len(groups)
	mn := map[string]int{}
	for i, g := range m {
		if _, dup := mn[g.Name]; dup {
			namesEqual = false
		}
		mn[g.Name] = i
		if _, ok := dn[g.Name]; !ok {
			namesEqual = false
		}
	}
	if !namesEqual {
		o.Why = "group-names"
		return o
	}
	strictEq, sortedEq, epEq := true, true, true
	for name, di := range dn {
		dg, mg := groups[di].GroupSpec, m[mn[name]]
		ds, dso := map[string]uint64{}, map[string]uint64{}
		ms, mso := map[string]uint64{}, map[string]uint64{}
		var epd, epm [2]int
		for _, r := range dg.Resources {
			ds[vCanonUnit(r.Resources, false)] += uint64(r.Count)
			dso[vCanonUnit(r.Resources, true)] += uint64(r.Count)
			o.TotalsD += uint64(r.Count)
			for _, e := range r.Resources.Endpoints {
				switch e.Kind {
				case types.Endpoint_SHARED_HTTP:
					epd[0]++
				case types.Endpoint_RANDOM_PORT:
					epd[1]++
				default:
					o.Corner = "deployment-endpoint-of-unknown-kind"
				}
			}
		}
		for _, s := range mg.Services {
			ms[vCanonUnit(s.Resources, false)] += uint64(s.Count)
			mso[vCanonUnit(s.Resources, true)] += uint64(s.Count)
			o.TotalsM += uint64(s.Count)
			for _, e := range s.Expose {
				if !e.Global {
					continue
				}
				if vIsHTTPIngress(e) {
					epm[0]++
				} else {
					epm[1]++
				}
			}
		}
		if !vMultisetEqual(ds, ms) {
			strictEq = false
		}
		if !vMultisetEqual(dso, mso) {
			sortedEq = false
		}
		if epd != epm {
			epEq = false
		}
		o.EPD[0] += epd[0]
		o.EPD[1] += epd[1]
		o.EPM[0] += epm[0]
		o.EPM[1] += epm[1]
	}
	if o.Corner != "" {
		return o
	}
	switch {
	case strictEq && epEq:
		o.Equal = true
	case !strictEq && sortedEq && epEq:
		o.Corner = "attribute-order-only"
	case !strictEq:
		o.Why = "resources"
	default:
		o.Why = "endpoints"
	}
	return o
}

// ---------------------------------------------------------------------------
// the code under observation, one call each, panics recovered

func vGuard(f func() error) (err error, panicked bool) {
	defer func() {
		if r := recover(); r != nil {
			err, panicked = fmt.Errorf("panic: %v", r), true
		}
	}()
	return f(), false
}

type vVerdict struct {
	VM, CD, CS error
	Panic      bool
}

func vObserve(groups []dtypes.Group, m manifest.Manifest) vVerdict {
	var v vVerdict
	var p bool
	v.VM, p = vGuard(func() error { return validation.ValidateManifest(m) })
	v.Panic = v.Panic || p
	v.CD, p = vGuard(func() error { return validation.ValidateManifestWithDeployment(&m, groups) })
	v.Panic = v.Panic || p
	gs := make([]*dtypes.GroupSpec, 0, len(groups))
	for i := range groups {
		s := groups[i].GroupSpec
		gs = append(gs, &s)
	}
	v.CS, p = vGuard(func() error { return validation.ValidateManifestWithGroupSpecs(&m, gs) })
	v.Panic = v.Panic || p
	return v
}

func vErrS(err error) string {
	if err == nil {
		return "<accepted>"
	}
	return err.Error()
}

// vVMRelated: does this ValidateManifest rejection belong to the property
// (set of group names)?
func vVMRelated(err error) bool {
	if err == nil {
		return false
	}
	s := err.Error()
	return strings.Contains(s, "duplicate group") || strings.Contains(s, "manifest is empty")
}

func vUnrelatedClass(err error) string {
	s := err.Error()
	for _, k := range []string{"zero global services", "invalid unit count", "invalid unit CPU", "invalid unit memory", "invalid unit storage", "invalid total", "too many units", "hostname", "name is invalid", "env. var", "port is zero", "protocol", "contains no services", "empty image"} {
		if strings.Contains(s, k) {
			return strings.Replace(k, " ", "-", -1)
		}
	}
	return "other"
}

// vJudge applies the oracle to one pair and records the outcome.
// floorEq / floorNM name the floor counters the pair may count towards.
func vJudge(res *vs.Result, c *vC10Case, floorPrefix string) {
	o := vC10Oracle(c.Groups, c.Manifest)
	v := vObserve(c.Groups, c.Manifest)
	res.Eval(1)
	crossAccept := v.CD == nil && v.CS == nil
	provAccept := v.VM == nil && (v.CD == nil || v.CS == nil)
	verd := fmt.Sprintf("vm=%v cd=%v cs=%v", v.VM == nil, v.CD == nil, v.CS == nil)
	res.Distinct(fmt.Sprintf("%s|g=%d|u=%d|t=%s|n=%s|eq=%v|%s|%s", c.Origin, o.Groups, o.Unit, c.Transform, c.NearMiss, o.Equal, o.Corner, verd))
	if v.Panic {
		res.Count("validator_panics", 1)
	}
	detail := func() string {
		return fmt.Sprintf("transform=%s near-miss=%s (%s); oracle: equal=%v why=%q; ValidateManifest: %s; ValidateManifestWithDeployment: %s; ValidateManifestWithGroupSpecs: %s",
			c.Transform, c.NearMiss, c.Variant, o.Equal, o.Why, vErrS(v.VM), vErrS(v.CD), vErrS(v.CS))
	}
	if o.Corner != "" {
		if crossAccept {
			res.Count("corner_"+strings.Replace(o.Corner, "-", "_", -1)+":accepted", 1)
		} else {
			res.Count("corner_"+strings.Replace(o.Corner, "-", "_", -1)+":rejected", 1)
		}
		return
	}
	if o.Equal {
		if v.CD != nil || v.CS != nil {
			trig := c.Transform
			if trig == "" {
				trig = "identity"
			}
			res.AddViolation("false-reject", "C10/false-reject/"+trig,
				"the cross-validation rejects a manifest whose per-group totals and endpoint counts equal the deployment's: "+detail(), c)
			return
		}
		if v.VM != nil {
			res.Count("rejected_for_unrelated_rule", 1)
			res.Count("unrelated:"+vUnrelatedClass(v.VM), 1)
			return
		}
		res.Count("equal_accepted", 1)
		if c.NearMiss == "" {
			res.Count(floorPrefix+"equal:"+c.Transform, 1)
			if floorPrefix == "" && strings.Contains(c.Transform, "+") {
				// combinations under one floor; the precise name stays in the key
				res.Count("equal:combination", 1)
			}
		} else {
			// the injected difference cancelled out (e.g. an endpoint
			// removed from a non-global expose): still an equal pair
			res.Count(floorPrefix+"nearmiss_turned_out_equal", 1)
		}
		return
	}
	// oracle: not equal
	if provAccept {
		trig := c.NearMiss
		if trig == "" {
			trig = vTriggerFromOracle(o)
		}
		res.AddViolation("false-accept", "C10/false-accept/"+trig,
			"the provider-side validation accepts a manifest that differs from the deployment ("+o.Why+"): "+detail(), c)
		return
	}
	res.Count("unequal_rejected", 1)
	if crossAccept {
		// only ValidateManifest stood between this manifest and acceptance
		if vVMRelated(v.VM) {
			res.Count("unequal_rejected_by_group_name_rule_of_ValidateManifest", 1)
		} else {
			res.Count("rejected_for_unrelated_rule", 1)
			res.Count("unrelated:"+vUnrelatedClass(v.VM), 1)
			res.Count("cross_validation_alone_would_accept_unequal", 1)
			return
		}
	} else if v.VM != nil && !vVMRelated(v.VM) {
		// both reject; the cross-validation verdict is clear on its own
		res.Count("also_rejected_by_unrelated_rule", 1)
	}
	nm := c.NearMiss
	if nm == "" {
		nm = vTriggerFromOracle(o)
	}
	res.Count(floorPrefix+"nearmiss:"+nm, 1)
	res.Count("reject_reason:"+o.Why, 1)
}

// vTriggerFromOracle names the kind of difference of an enumerated pair.
func vTriggerFromOracle(o vOracle) string {
	switch o.Why {
	case "group-names":
		return "group-renamed"
	case "endpoints":
		td, tm := o.EPD[0]+o.EPD[1], o.EPM[0]+o.EPM[1]
		switch {
		case tm > td:
			return "endpoint-added"
		case tm < td:
			return "endpoint-removed"
		}
		return "endpoint-kind"
	}
	if o.TotalsD != o.TotalsM {
		return "count"
	}
	return "unit"
}

// ---------------------------------------------------------------------------
// generator

func vRV(n uint64) types.ResourceValue { return types.NewResourceValue(n) }

func vCopyAttrs(a []types.Attribute) []types.Attribute {
	if a == nil {
		return nil
	}
	out := make([]types.Attribute, len(a))
	copy(out, a)
	return out
}

// vCopyUnits deep-copies the compute part; endpoints are copied too.
func vCopyUnits(u types.ResourceUnits) types.ResourceUnits {
	var out types.ResourceUnits
	if u.CPU != nil {
		out.CPU = &types.CPU{Units: u.CPU.Units, Attributes: vCopyAttrs(u.CPU.Attributes)}
	}
	if u.Memory != nil {
		out.Memory = &types.Memory{Quantity: u.Memory.Quantity, Attributes: vCopyAttrs(u.Memory.Attributes)}
	}
	if u.Storage != nil {
		out.Storage = &types.Storage{Quantity: u.Storage.Quantity, Attributes: vCopyAttrs(u.Storage.Attributes)}
	}
	if u.Endpoints != nil {
		out.Endpoints = make([]types.Endpoint, len(u.Endpoints))
		copy(out.Endpoints, u.Endpoints)
	}
	return out
}

func vMkUnits(cpu, mem, sto uint64) types.ResourceUnits {
	return types.ResourceUnits{
		CPU:     &types.CPU{Units: vRV(cpu)},
		Memory:  &types.Memory{Quantity: vRV(mem)},
		Storage: &types.Storage{Quantity: vRV(sto)},
	}
}

func vRandUnits(r *vs.Rand) types.ResourceUnits {
	u := vMkUnits(vCPUSet[r.Intn(len(vCPUSet))], vMemSet[r.Intn(len(vMemSet))], vStoSet[r.Intn(len(vStoSet))])
	if r.Chance(1, 4) {
		switch r.Intn(5) {
		case 0:
			u.CPU.Attributes = []types.Attribute{{Key: "arch", Value: "amd64"}}
		case 1:
			u.CPU.Attributes = []types.Attribute{{Key: "arch", Value: "arm64"}}
		case 2:
			u.Storage.Attributes = []types.Attribute{{Key: "class", Value: "ssd"}}
		case 3:
			u.Memory.Attributes = []types.Attribute{{Key: "ecc", Value: "true"}}
		case 4:
			u.CPU.Attributes = []types.Attribute{{Key: "arch", Value: "amd64"}, {Key: "vendor", Value: "intel"}}
		}
	}
	return u
}

type vGenOpts struct {
	minGroups        int
	forceDup         bool // group 0: unit 1 equals unit 0 (merge possible)
	forceSplit       bool // group 0: unit 0 has count >= 2
	forceTwoUnits    bool // group 0 has >= 2 units
	forceTwoDistinct bool // group 0: unit 1 differs from unit 0
	forceAttr        bool // group 0: unit 0 carries an attribute
	forceTwoAttrs    bool // group 0: unit 0 carries two cpu attributes
	twinGroups       bool // group 1 has exactly the resources of group 0
	minEndpoints     int
}

var vGroupNames = []string{"westcoast", "eastcoast", "europe", "asia-1"}

func vGenDeployment(r *vs.Rand, o vGenOpts) []dtypes.Group {
	ng := r.Range(1, 3)
	if ng < o.minGroups {
		ng = o.minGroups
	}
	perm := r.Perm(len(vGroupNames))
	var groups []dtypes.Group
	for gi := 0; gi < ng; gi++ {
		nu := r.Range(1, 5)
		if gi == 0 && nu < 2 && (o.forceDup || o.forceTwoUnits || o.forceTwoDistinct) {
			nu = r.Range(2, 5)
		}
		var rs []dtypes.Resource
		for ui := 0; ui < nu; ui++ {
			var u types.ResourceUnits
			switch {
			case gi == 0 && ui == 1 && o.forceDup:
				u = vCopyUnits(rs[0].Resources)
				u.Endpoints = nil
			case gi == 0 && ui == 1 && o.forceTwoDistinct:
				u = vRandUnits(r)
				for vCanonUnit(u, true) == vCanonUnit(rs[0].Resources, true) {
					u = vRandUnits(r)
				}
			case ui > 0 && r.Chance(1, 3):
				u = vCopyUnits(rs[r.Intn(ui)].Resources)
				u.Endpoints = nil
			default:
				u = vRandUnits(r)
			}
			if gi == 0 && ui == 0 {
				if o.forceTwoAttrs {
					u.CPU.Attributes = []types.Attribute{{Key: "arch", Value: "amd64"}, {Key: "vendor", Value: "intel"}}
				} else if o.forceAttr && len(u.CPU.Attributes)+len(u.Memory.Attributes)+len(u.Storage.Attributes) == 0 {
					u.Storage.Attributes = []types.Attribute{{Key: "class", Value: "ssd"}}
				}
			}
			cnt := r.Range(1, 6)
			if gi == 0 && ui == 0 && o.forceSplit && cnt < 2 {
				cnt = r.Range(2, 6)
			}
			for k := r.Pick([]int{5, 3, 1}); k > 0; k-- {
				kind := types.Endpoint_SHARED_HTTP
				if r.Bool() {
					kind = types.Endpoint_RANDOM_PORT
				}
				u.Endpoints = append(u.Endpoints, types.Endpoint{Kind: kind})
			}
			rs = append(rs, dtypes.Resource{Resources: u, Count: uint32(cnt), Price: sdk.NewInt64Coin("uakt", int64(1+r.Intn(50)))})
		}
		groups = append(groups, dtypes.Group{
			GroupID:   dtypes.GroupID{Owner: "akash1verifc10", DSeq: 7, GSeq: uint32(gi + 1)},
			State:     dtypes.GroupOpen,
			GroupSpec: dtypes.GroupSpec{Name: vGroupNames[perm[gi]], Resources: rs},
		})
	}
	if o.twinGroups && len(groups) > 1 {
		var rs []dtypes.Resource
		for _, rr := range groups[0].GroupSpec.Resources {
			rs = append(rs, dtypes.Resource{Resources: vCopyUnits(rr.Resources), Count: rr.Count, Price: rr.Price})
		}
		groups[1].GroupSpec.Resources = rs
	}
	// every deployment exposes something (ValidateManifest: "zero global
	// services" is an unrelated rule we do not want to trip over)
	min := o.minEndpoints
	if min < 1 {
		min = 1
	}
	total := 0
	for _, g := range groups {
		for _, rr := range g.GroupSpec.Resources {
			total += len(rr.Resources.Endpoints)
		}
	}
	for ; total < min; total++ {
		g := &groups[r.Intn(len(groups))].GroupSpec
		rr := &g.Resources[r.Intn(len(g.Resources))]
		kind := types.Endpoint_SHARED_HTTP
		if r.Bool() {
			kind = types.Endpoint_RANDOM_PORT
		}
		rr.Resources.Endpoints = append(rr.Resources.Endpoints, types.Endpoint{Kind: kind})
	}
	return groups
}

// vItem is one future manifest service: compute, replicas, endpoint kinds.
type vItem struct {
	U     types.ResourceUnits
	Count uint32
	EPs   []types.Endpoint_Kind
}

type vNamer struct{ svc, host int }

func (n *vNamer) service() string { n.svc++; return fmt.Sprintf("svc-%d", n.svc) }
func (n *vNamer) hostname() string {
	n.host++
	return fmt.Sprintf("h%d.verif.example.com", n.host)
}

func vMkExpose(r *vs.Rand, nm *vNamer, kind types.Endpoint_Kind) manifest.ServiceExpose {
	var e manifest.ServiceExpose
	if kind == types.Endpoint_SHARED_HTTP {
		switch r.Intn(2) {
		case 0:
			e = manifest.ServiceExpose{Port: 80, Proto: manifest.TCP}
		case 1:
			e = manifest.ServiceExpose{Port: 8080, ExternalPort: 80, Proto: manifest.TCP}
		}
		if r.Chance(1, 3) {
			e.Hosts = []string{nm.hostname()}
		}
	} else {
		switch r.Intn(4) {
		case 0:
			e = manifest.ServiceExpose{Port: 8080, Proto: manifest.TCP}
		case 1:
			e = manifest.ServiceExpose{Port: 80, Proto: manifest.UDP}
		case 2:
			e = manifest.ServiceExpose{Port: 80, ExternalPort: 8080, Proto: manifest.TCP}
		case 3:
			e = manifest.ServiceExpose{Port: 5353, ExternalPort: 53, Proto: manifest.UDP}
		}
	}
	e.Global = true
	return e
}

func vMkService(r *vs.Rand, nm *vNamer, it vItem) manifest.Service {
	s := manifest.Service{
		Name:      nm.service(),
		Image:     "registry.example.com/app:1",
		Resources: vCopyUnits(it.U),
		Count:     it.Count,
	}
	s.Resources.Endpoints = nil
	if r.Chance(1, 4) {
		s.Env = []string{"MODE=prod", "EMPTY="}
		s.Args = []string{"--serve"}
	}
	for _, k := range it.EPs {
		s.Expose = append(s.Expose, vMkExpose(r, nm, k))
		s.Resources.Endpoints = append(s.Resources.Endpoints, types.Endpoint{Kind: k})
	}
	if r.Chance(1, 4) {
		// noise: an internal expose that looks like an ingress but is not global
		s.Expose = append(s.Expose, manifest.ServiceExpose{Port: 80, Proto: manifest.TCP, Service: "svc-1", Global: false})
	}
	if len(s.Expose) > 1 && r.Bool() {
		p := r.Perm(len(s.Expose))
		ex := make([]manifest.ServiceExpose, len(s.Expose))
		for i, j := range p {
			ex[i] = s.Expose[j]
		}
		s.Expose = ex
	}
	return s
}

type vXform struct{ split, merge, permSvc, permGrp bool }

func (x vXform) String() string {
	var p []string
	if x.split {
		p = append(p, "split")
	}
	if x.merge {
		p = append(p, "merge")
	}
	if x.permSvc {
		p = append(p, "permute-services")
	}
	if x.permGrp {
		p = append(p, "permute-groups")
	}
	if len(p) == 0 {
		return "identity"
	}
	return strings.Join(p, "+")
}

// vDeriveEqual builds a manifest whose per-group totals equal the
// deployment's, applying the wanted transformations where they are possible.
// It returns what was really applied.
func vDeriveEqual(r *vs.Rand, nm *vNamer, groups []dtypes.Group, want vXform) (manifest.Manifest, vXform) {
	var done vXform
	var m manifest.Manifest
	for _, g := range groups {
		var items []vItem
		for _, rr := range g.GroupSpec.Resources {
			it := vItem{U: vCopyUnits(rr.Resources), Count: rr.Count}
			it.U.Endpoints = nil
			for _, e := range rr.Resources.Endpoints {
				it.EPs = append(it.EPs, e.Kind)
			}
			items = append(items, it)
		}
		if want.merge {
			var merged []vItem
			idx := map[string]int{}
			for _, it := range items {
				k := vCanonUnit(it.U, false)
				if j, ok := idx[k]; ok && r.Chance(3, 4) {
					merged[j].Count += it.Count
					merged[j].EPs = append(merged[j].EPs, it.EPs...)
					done.merge = true
					continue
				}
				idx[k] = len(merged)
				merged = append(merged, it)
			}
			items = merged
		}
		if want.split {
			var out []vItem
			first := true
			for _, it := range items {
				if it.Count < 2 || (!first && r.Bool()) {
					out = append(out, it)
					continue
				}
				first = false
				k := 2
				if it.Count >= 3 && r.Bool() {
					k = 3
				}
				// k positive parts summing to Count
				parts := make([]uint32, k)
				for i := range parts {
					parts[i] = 1
				}
				for left := int(it.Count) - k; left > 0; left-- {
					parts[r.Intn(k)]++
				}
				pieces := make([]vItem, k)
				for i := range pieces {
					pieces[i] = vItem{U: vCopyUnits(it.U), Count: parts[i]}
				}
				for _, e := range it.EPs {
					j := r.Intn(k)
					pieces[j].EPs = append(pieces[j].EPs, e)
				}
				out = append(out, pieces...)
				done.split = true
			}
			items = out
		}
		if want.permSvc && len(items) > 1 {
			p := r.Perm(len(items))
			ident := true
			for i, j := range p {
				if i != j {
					ident = false
				}
			}
			if ident {
				p[0], p[1] = p[1], p[0]
			}
			out := make([]vItem, len(items))
			for i, j := range p {
				out[i] = items[j]
			}
			items = out
			done.permSvc = true
		}
		mg := manifest.Group{Name: g.GroupSpec.Name}
		for _, it := range items {
			mg.Services = append(mg.Services, vMkService(r, nm, it))
		}
		m = append(m, mg)
	}
	if want.permGrp && len(m) > 1 {
		k := 1 + r.Intn(len(m)-1) // rotation by k != 0
		out := make(manifest.Manifest, len(m))
		for i := range m {
			out[i] = m[(i+k)%len(m)]
		}
		m = out
		done.permGrp = true
	}
	return m, done
}

// ---- near misses -----------------------------------------------------------

func vBump(r *vs.Rand, v types.ResourceValue) (types.ResourceValue, string) {
	if r.Bool() {
		return types.ResourceValue{Val: v.Val.AddRaw(1)}, "+1"
	}
	return types.ResourceValue{Val: v.Val.SubRaw(1)}, "-1"
}

// vMutAttrs changes one attribute list so that it differs as a set as well.
func vMutAttrs(r *vs.Rand, a []types.Attribute) ([]types.Attribute, string) {
	a = vCopyAttrs(a)
	if len(a) == 0 {
		return []types.Attribute{{Key: "tier", Value: "gold"}}, "added"
	}
	switch r.Intn(4) {
	case 0:
		return append(a, types.Attribute{Key: "tier", Value: "gold"}), "added"
	case 1:
		i := r.Intn(len(a))
		return append(a[:i:i], a[i+1:]...), "removed"
	case 2:
		i := r.Intn(len(a))
		a[i].Key += "x"
		return a, "key-changed"
	}
	i := r.Intn(len(a))
	a[i].Value += "x"
	return a, "value-changed"
}

// vUnitRef points at one unit on either side.
type vUnitRef struct {
	U     *types.ResourceUnits
	Count *uint32
	Side  string
	G     int
}

func vAllUnits(groups []dtypes.Group, m manifest.Manifest, side string) []vUnitRef {
	var out []vUnitRef
	if side == "deployment" {
		for gi := range groups {
			rs := groups[gi].GroupSpec.Resources
			for ui := range rs {
				out = append(out, vUnitRef{&rs[ui].Resources, &rs[ui].Count, side, gi})
			}
		}
		return out
	}
	for gi := range m {
		for si := range m[gi].Services {
			s := &m[gi].Services[si]
			out = append(out, vUnitRef{&s.Resources, &s.Count, side, gi})
		}
	}
	return out
}

type vExposeRef struct{ G, S, E int }

func vGlobalExposes(m manifest.Manifest) []vExposeRef {
	var out []vExposeRef
	for gi := range m {
		for si := range m[gi].Services {
			for ei, e := range m[gi].Services[si].Expose {
				if e.Global {
					out = append(out, vExposeRef{gi, si, ei})
				}
			}
		}
	}
	return out
}

// vGroupCanon: resources and endpoint vector of a manifest group as a string.
func vGroupCanon(g manifest.Group) string {
	ms := map[string]uint64{}
	var ep [2]int
	for _, s := range g.Services {
		ms[vCanonUnit(s.Resources, false)] += uint64(s.Count)
		for _, e := range s.Expose {
			if e.Global {
				if vIsHTTPIngress(e) {
					ep[0]++
				} else {
					ep[1]++
				}
			}
		}
	}
	keys := make([]string, 0, len(ms))
	for k, v := range ms {
		keys = append(keys, fmt.Sprintf("%s x%d", k, v))
	}
	sort.Strings(keys)
	return fmt.Sprint(keys, ep)
}

// vInject applies one near-miss of the given class.  ok=false when the pair
// offers no place for it (never happens for the directed generator options).
func vInject(r *vs.Rand, nm *vNamer, class string, groups []dtypes.Group, m manifest.Manifest) (outG []dtypes.Group, outM manifest.Manifest, variant string, ok bool) {
	side := "manifest"
	if r.Bool() {
		side = "deployment"
	}
	switch class {
	case "cpu", "memory", "storage", "attribute", "attribute-order":
		units := vAllUnits(groups, m, side)
		if class == "attribute-order" {
			var two []vUnitRef
			for _, u := range units {
				if len(u.U.CPU.Attributes) >= 2 {
					two = append(two, u)
				}
			}
			if len(two) == 0 {
				return groups, m, "", false
			}
			u := two[r.Intn(len(two))]
			a := vCopyAttrs(u.U.CPU.Attributes)
			a[0], a[1] = a[1], a[0]
			u.U.CPU = &types.CPU{Units: u.U.CPU.Units, Attributes: a}
			return groups, m, side + "-side/cpu-attributes-swapped", true
		}
		u := units[r.Intn(len(units))]
		var how string
		switch class {
		case "cpu":
			var v types.ResourceValue
			v, how = vBump(r, u.U.CPU.Units)
			u.U.CPU = &types.CPU{Units: v, Attributes: vCopyAttrs(u.U.CPU.Attributes)}
		case "memory":
			var v types.ResourceValue
			v, how = vBump(r, u.U.Memory.Quantity)
			u.U.Memory = &types.Memory{Quantity: v, Attributes: vCopyAttrs(u.U.Memory.Attributes)}
		case "storage":
			var v types.ResourceValue
			v, how = vBump(r, u.U.Storage.Quantity)
			u.U.Storage = &types.Storage{Quantity: v, Attributes: vCopyAttrs(u.U.Storage.Attributes)}
		case "attribute":
			var a []types.Attribute
			// prefer a resource that already carries attributes half of the time
			which := r.Intn(3)
			if r.Bool() {
				for k, l := range []int{len(u.U.CPU.Attributes), len(u.U.Memory.Attributes), len(u.U.Storage.Attributes)} {
					if l > 0 {
						which = k
					}
				}
			}
			switch which {
			case 0:
				a, how = vMutAttrs(r, u.U.CPU.Attributes)
				u.U.CPU = &types.CPU{Units: u.U.CPU.Units, Attributes: a}
				how = "cpu-attribute-" + how
			case 1:
				a, how = vMutAttrs(r, u.U.Memory.Attributes)
				u.U.Memory = &types.Memory{Quantity: u.U.Memory.Quantity, Attributes: a}
				how = "memory-attribute-" + how
			case 2:
				a, how = vMutAttrs(r, u.U.Storage.Attributes)
				u.U.Storage = &types.Storage{Quantity: u.U.Storage.Quantity, Attributes: a}
				how = "storage-attribute-" + how
			}
		}
		return groups, m, fmt.Sprintf("%s-side/%s%s", side, class, how), true

	case "count":
		units := vAllUnits(groups, m, side)
		// move one replica between two different units of one group
		var pairs [][2]int
		for i, a := range units {
			if *a.Count < 2 {
				continue
			}
			for j, b := range units {
				if i != j && a.G == b.G && vCanonUnit(*a.U, true) != vCanonUnit(*b.U, true) {
					pairs = append(pairs, [2]int{i, j})
				}
			}
		}
		if len(pairs) > 0 && r.Chance(3, 4) {
			p := pairs[r.Intn(len(pairs))]
			*units[p[0]].Count--
			*units[p[1]].Count++
			return groups, m, side + "-side/one-replica-moved-between-different-units", true
		}
		u := units[r.Intn(len(units))]
		if *u.Count >= 2 && r.Bool() {
			*u.Count--
			return groups, m, side + "-side/count-1", true
		}
		*u.Count++
		return groups, m, side + "-side/count+1", true

	case "endpoint-added":
		kind := types.Endpoint_SHARED_HTTP
		if r.Bool() {
			kind = types.Endpoint_RANDOM_PORT
		}
		if side == "deployment" {
			units := vAllUnits(groups, m, side)
			u := units[r.Intn(len(units))]
			u.U.Endpoints = append(u.U.Endpoints, types.Endpoint{Kind: kind})
			return groups, m, fmt.Sprintf("deployment-side/endpoint kind=%d added", kind), true
		}
		g := &m[r.Intn(len(m))]
		s := &g.Services[r.Intn(len(g.Services))]
		s.Expose = append(s.Expose, vMkExpose(r, nm, kind))
		if r.Bool() { // keep the service's own endpoint list consistent, or not
			s.Resources.Endpoints = append(s.Resources.Endpoints, types.Endpoint{Kind: kind})
		}
		return groups, m, fmt.Sprintf("manifest-side/global expose kind=%d added", kind), true

	case "endpoint-removed":
		if side == "deployment" {
			var with []vUnitRef
			for _, u := range vAllUnits(groups, m, side) {
				if len(u.U.Endpoints) > 0 {
					with = append(with, u)
				}
			}
			if len(with) == 0 {
				return groups, m, "", false
			}
			u := with[r.Intn(len(with))]
			i := r.Intn(len(u.U.Endpoints))
			u.U.Endpoints = append(u.U.Endpoints[:i:i], u.U.Endpoints[i+1:]...)
			return groups, m, "deployment-side/endpoint removed", true
		}
		refs := vGlobalExposes(m)
		if len(refs) < 2 {
			return groups, m, "", false
		}
		x := refs[r.Intn(len(refs))]
		s := &m[x.G].Services[x.S]
		if r.Bool() {
			s.Expose[x.E].Global = false
			s.Expose[x.E].Service = "svc-1"
			s.Expose[x.E].Hosts = nil
			return groups, m, "manifest-side/global expose made internal", true
		}
		s.Expose = append(s.Expose[:x.E:x.E], s.Expose[x.E+1:]...)
		if r.Bool() && len(s.Resources.Endpoints) > 0 {
			s.Resources.Endpoints = s.Resources.Endpoints[1:]
		}
		return groups, m, "manifest-side/global expose removed", true

	case "endpoint-kind":
		if side == "deployment" {
			var with []vUnitRef
			for _, u := range vAllUnits(groups, m, side) {
				if len(u.U.Endpoints) > 0 {
					with = append(with, u)
				}
			}
			if len(with) == 0 {
				return groups, m, "", false
			}
			u := with[r.Intn(len(with))]
			eps := make([]types.Endpoint, len(u.U.Endpoints))
			copy(eps, u.U.Endpoints)
			i := r.Intn(len(eps))
			eps[i].Kind = 1 - eps[i].Kind
			u.U.Endpoints = eps
			return groups, m, "deployment-side/endpoint kind flipped", true
		}
		refs := vGlobalExposes(m)
		if len(refs) == 0 {
			return groups, m, "", false
		}
		x := refs[r.Intn(len(refs))]
		e := &m[x.G].Services[x.S].Expose[x.E]
		if vIsHTTPIngress(*e) {
			switch r.Intn(3) {
			case 0:
				e.Proto = manifest.UDP
				variant = "http->udp"
			case 1:
				e.Port, e.ExternalPort = 81, 0
				variant = "http->port81"
			case 2:
				e.Port, e.ExternalPort = 80, 8080
				variant = "http->external8080"
			}
		} else {
			switch r.Intn(2) {
			case 0:
				e.Port, e.ExternalPort, e.Proto = 80, 0, manifest.TCP
				variant = "other->tcp80"
			case 1:
				e.Port, e.ExternalPort, e.Proto = 3000, 80, manifest.TCP
				variant = "other->external80"
			}
		}
		return groups, m, "manifest-side/" + variant, true

	case "group-renamed":
		if side == "deployment" {
			g := &groups[r.Intn(len(groups))]
			g.GroupSpec.Name += "-x"
			return groups, m, "deployment-side/group renamed", true
		}
		gi := r.Intn(len(m))
		if len(m) > 1 && r.Bool() {
			// prefer a twin group (same resources) as the name donor
			other := (gi + 1) % len(m)
			for k := range m {
				if k != gi && vGroupCanon(m[k]) == vGroupCanon(m[gi]) {
					other = k
				}
			}
			m[gi].Name = m[other].Name
			return groups, m, "manifest-side/group renamed to the name of another group", true
		}
		m[gi].Name += "-x"
		return groups, m, "manifest-side/group renamed", true

	case "group-dropped":
		if len(m) < 2 {
			return groups, m, "", false
		}
		if side == "deployment" {
			i := r.Intn(len(groups))
			groups = append(groups[:i:i], groups[i+1:]...)
			return groups, m, "deployment-side/group dropped", true
		}
		// keep at least one global expose in what is left
		var cand []int
		for i := range m {
			rest := append(append(manifest.Manifest{}, m[:i]...), m[i+1:]...)
			if len(vGlobalExposes(rest)) > 0 {
				cand = append(cand, i)
			}
		}
		if len(cand) == 0 {
			return groups, m, "", false
		}
		i := cand[r.Intn(len(cand))]
		m = append(m[:i:i], m[i+1:]...)
		return groups, m, "manifest-side/group dropped", true

	case "group-added":
		if side == "deployment" {
			src := groups[r.Intn(len(groups))]
			g := dtypes.Group{GroupID: src.GroupID, State: src.State, GroupSpec: dtypes.GroupSpec{Name: "extra-group"}}
			g.GroupID.GSeq = uint32(len(groups) + 1)
			for _, rr := range src.GroupSpec.Resources {
				g.GroupSpec.Resources = append(g.GroupSpec.Resources, dtypes.Resource{Resources: vCopyUnits(rr.Resources), Count: rr.Count, Price: rr.Price})
			}
			groups = append(groups, g)
			return groups, m, "deployment-side/group added", true
		}
		src := m[r.Intn(len(m))]
		g := manifest.Group{Name: "extra-group"}
		for _, s := range src.Services {
			it := vItem{U: vCopyUnits(s.Resources), Count: s.Count}
			for _, e := range s.Expose {
				if e.Global {
					k := types.Endpoint_RANDOM_PORT
					if vIsHTTPIngress(e) {
						k = types.Endpoint_SHARED_HTTP
					}
					it.EPs = append(it.EPs, k)
				}
			}
			g.Services = append(g.Services, vMkService(r, nm, it))
		}
		m = append(m, g)
		return groups, m, "manifest-side/group added (copy of " + src.Name + ")", true
	}
	return groups, m, "", false
}

// vRandomCase builds the i-th random pair.  Classes cycle with the index so
// that every class is reached for every seed.
func vRandomCase(seed int64, i int) *vC10Case {
	r := vs.NewRand(seed, uint64(1000000+i))
	nm := &vNamer{}
	classes := 6 + len(vNearMisses) + 1 // 5 single transformations, combos, near misses, attribute-order corner
	cls := i % classes
	var o vGenOpts
	var want vXform
	near := ""
	switch {
	case cls == 0: // identity
	case cls == 1:
		want.split, o.forceSplit = true, true
	case cls == 2:
		want.merge, o.forceDup = true, true
	case cls == 3:
		want.permSvc, o.forceTwoUnits = true, true
	case cls == 4:
		want.permGrp, o.minGroups = true, 2
	case cls == 5: // random combination of at least two
		for n := 0; n < 2; {
			want = vXform{r.Bool(), r.Bool(), r.Bool(), r.Bool()}
			n = 0
			for _, b := range []bool{want.split, want.merge, want.permSvc, want.permGrp} {
				if b {
					n++
				}
			}
		}
		o = vGenOpts{minGroups: 2, forceDup: want.merge, forceSplit: want.split, forceTwoUnits: want.permSvc}
	case cls == classes-1:
		near, o.forceTwoAttrs = "attribute-order", true
		want = vXform{r.Chance(1, 3), false, r.Chance(1, 3), r.Chance(1, 3)}
	default:
		near = vNearMisses[cls-6]
		want = vXform{r.Chance(1, 3), r.Chance(1, 3), r.Chance(1, 3), r.Chance(1, 3)}
		switch near {
		case "count":
			o.forceTwoDistinct, o.forceSplit = true, true
		case "attribute":
			o.forceAttr = r.Bool()
		case "endpoint-removed":
			o.minEndpoints = 2
		case "group-dropped":
			o.minGroups, o.minEndpoints = 2, 2
		case "group-renamed":
			// sometimes two groups with the same resources: a manifest that
			// names both alike then passes every per-group comparison
			if r.Chance(1, 4) {
				o.minGroups, o.twinGroups = 2, true
			}
		}
	}
	groups := vGenDeployment(r, o)
	if near == "group-dropped" {
		// make sure two different groups expose something
		for gi := 0; gi < 2; gi++ {
			has := false
			for _, rr := range groups[gi].GroupSpec.Resources {
				has = has || len(rr.Resources.Endpoints) > 0
			}
			if !has {
				rr := &groups[gi].GroupSpec.Resources[0]
				rr.Resources.Endpoints = append(rr.Resources.Endpoints, types.Endpoint{Kind: types.Endpoint_SHARED_HTTP})
			}
		}
	}
	m, done := vDeriveEqual(r, nm, groups, want)
	c := &vC10Case{Kind: "pair", Origin: "random", Transform: done.String(), Seed: seed}
	if near != "" {
		var ok bool
		var variant string
		groups, m, variant, ok = vInject(r, nm, near, groups, m)
		if !ok {
			near, variant = "", "near-miss not applicable"
		}
		c.NearMiss, c.Variant = near, variant
	}
	c.Groups, c.Manifest = groups, m
	return c
}

// ---------------------------------------------------------------------------
// small scope: every (deployment group, manifest group) pair over two distinct
// units with counts 1..3

type vSmallCfg struct {
	Dim      string // in what unit B differs from unit A
	EPD, EPM [2]int // (http, other) endpoints of the deployment group / global exposes of the manifest group
}

type vEntry struct {
	T int // 0 = unit A, 1 = unit B
	N uint32
}

func vSmallLists(maxLen int) [][]vEntry {
	var all [][]vEntry
	var rec func(cur []vEntry)
	rec = func(cur []vEntry) {
		if len(cur) > 0 {
			all = append(all, append([]vEntry{}, cur...))
		}
		if len(cur) == maxLen {
			return
		}
		for t := 0; t < 2; t++ {
			for n := uint32(1); n <= 3; n++ {
				rec(append(cur, vEntry{t, n}))
			}
		}
	}
	rec(nil)
	return all
}

func vSmallConfigs() []vSmallCfg {
	var cfgs []vSmallCfg
	for _, d := range []string{"cpu", "memory", "storage", "attribute"} {
		cfgs = append(cfgs, vSmallCfg{d, [2]int{1, 0}, [2]int{1, 0}})
	}
	eps := [][2]int{{1, 0}, {0, 1}, {1, 1}}
	for _, a := range eps {
		for _, b := range eps {
			if a == [2]int{1, 0} && b == [2]int{1, 0} {
				continue
			}
			cfgs = append(cfgs, vSmallCfg{"cpu", a, b})
		}
	}
	return cfgs
}

func vSmallUnit(cfg vSmallCfg, t int) types.ResourceUnits {
	u := vMkUnits(100, 128*vMi, 512*vMi)
	if t == 1 {
		switch cfg.Dim {
		case "cpu":
			u.CPU.Units = vRV(101)
		case "memory":
			u.Memory.Quantity = vRV(128*vMi + 1)
		case "storage":
			u.Storage.Quantity = vRV(512*vMi + 1)
		case "attribute":
			u.Storage.Attributes = []types.Attribute{{Key: "class", Value: "ssd"}}
		}
	}
	return u
}

func vSmallCase(cfg vSmallCfg, d, m []vEntry) *vC10Case {
	var rs []dtypes.Resource
	for i, e := range d {
		u := vSmallUnit(cfg, e.T)
		if i == 0 {
			for k := 0; k < cfg.EPD[0]; k++ {
				u.Endpoints = append(u.Endpoints, types.Endpoint{Kind: types.Endpoint_SHARED_HTTP})
			}
			for k := 0; k < cfg.EPD[1]; k++ {
				u.Endpoints = append(u.Endpoints, types.Endpoint{Kind: types.Endpoint_RANDOM_PORT})
			}
		}
		rs = append(rs, dtypes.Resource{Resources: u, Count: e.N, Price: sdk.NewInt64Coin("uakt", 1)})
	}
	groups := []dtypes.Group{{
		GroupID:   dtypes.GroupID{Owner: "akash1verifc10", DSeq: 7, GSeq: 1},
		State:     dtypes.GroupOpen,
		GroupSpec: dtypes.GroupSpec{Name: "westcoast", Resources: rs},
	}}
	mg := manifest.Group{Name: "westcoast"}
	for i, e := range m {
		s := manifest.Service{Name: fmt.Sprintf("svc-%d", i+1), Image: "img", Resources: vSmallUnit(cfg, e.T), Count: e.N}
		if i == 0 {
			for k := 0; k < cfg.EPM[0]; k++ {
				s.Expose = append(s.Expose, manifest.ServiceExpose{Port: 80, Proto: manifest.TCP, Global: true})
			}
			for k := 0; k < cfg.EPM[1]; k++ {
				s.Expose = append(s.Expose, manifest.ServiceExpose{Port: 8080, Proto: manifest.TCP, Global: true})
			}
		}
		mg.Services = append(mg.Services, s)
	}
	// name the relation of the two lists for the violation key
	tr := "identity"
	if fmt.Sprint(d) != fmt.Sprint(m) {
		ds, ms := vSortedEntries(d), vSortedEntries(m)
		switch {
		case fmt.Sprint(ds) == fmt.Sprint(ms):
			tr = "permute-services"
		case len(m) > len(d):
			tr = "split"
		case len(m) < len(d):
			tr = "merge"
		default:
			tr = "split+merge"
		}
	}
	return &vC10Case{Kind: "pair", Origin: "small-scope", Transform: tr,
		Variant: fmt.Sprintf("dim=%s deployment=%v endpoints=%v manifest=%v exposes=%v", cfg.Dim, d, cfg.EPD, m, cfg.EPM),
		Groups:  groups, Manifest: manifest.Manifest{mg}}
}

func vSortedEntries(e []vEntry) []vEntry {
	out := append([]vEntry{}, e...)
	sort.Slice(out, func(i, j int) bool {
		if out[i].T != out[j].T {
			return out[i].T < out[j].T
		}
		return out[i].N < out[j].N
	})
	return out
}

// ---------------------------------------------------------------------------

func vC10JSONRoundTrip(c *vC10Case) (*vC10Case, error) {
	buf, err := json.Marshal(c)
	if err != nil {
		return nil, err
	}
	var out vC10Case
	if err := json.Unmarshal(buf, &out); err != nil {
		return nil, err
	}
	return &out, nil
}

func TestVerif_C10(t *testing.T) {
	res := vs.NewResult("C10", "exploration",
		"pairs (on-chain deployment groups, submitted manifest): from a random deployment (1-3 groups, 1-5 units, counts 1-6, values from small sets, attributes sometimes) an EQUAL manifest is derived by splitting / merging / permuting services / permuting groups, then a NEAR MISS by one injected difference on either side (cpu, memory, storage +-1, attribute, replica moved or +-1, endpoint added/removed/kind flipped, group renamed/dropped/added); plus exhaustive small scope; judged against a multiset oracle in both directions through ValidateManifest + ValidateManifestWithDeployment + ValidateManifestWithGroupSpecs. Hash: sdl.ManifestVersion under JSON key permutation / re-decoding and under every single-field mutation found by reflection over the manifest types. distinct = (origin, #groups, #units, transformation, near-miss class, oracle verdict, validator verdicts)")
	defer func() {
		if err := res.Write(); err != nil {
			t.Errorf("writing result: %v", err)
		}
		if res.Violations() > 0 {
			t.Errorf("C10: %d violation(s)", res.Violations())
		}
	}()
	res.Assume("on-chain deployment groups have pairwise different names and only endpoint kinds SHARED_HTTP / RANDOM_PORT (enforced at admission, C19)")
	res.Assume("ResourceUnits.Endpoints are judged only through the per-group endpoint count by kind (one entry = one endpoint, not multiplied by the replica count); they are not part of the canonical unit")
	res.Assume("an expose is an HTTP ingress iff global, TCP and externally visible on port 80 (the rule sdl/v2.go uses to write endpoint kinds on chain); the Resources.Endpoints list inside a manifest service is not judged")
	res.Assume("a pair differing only in the ORDER of a unit's attributes is not determined by the statement: counted as corner_attribute_order_only, not alarmed")
	res.Assume("acceptance through provider/manifest manager.validateRequest (hash != on-chain version => ErrManifestVersion) is exercised by C20; here the hash function and the validators it calls are observed directly")
	res.Extra("entry_points", "validation.ValidateManifest, validation.ValidateManifestWithDeployment, validation.ValidateManifestWithGroupSpecs, sdl.ManifestVersion")

	seed := vs.Seed()
	workers := runtime.NumCPU()

	if path := vs.ReplayFile(); path != "" {
		var c vC10Case
		if err := vs.LoadReplay(path, &c); err != nil {
			res.Inconclusive("cannot load replay file: " + err.Error())
			return
		}
		switch c.Kind {
		case "pair":
			vJudge(res, &c, "replay:")
		case "hash-mutation", "hash-serialization":
			vC10HashReplay(res, &c)
		default:
			res.Inconclusive("unknown replay case kind " + c.Kind)
		}
		return
	}

	for _, tr := range vTransforms {
		res.Floor("equal:"+tr, int64(vs.Scale(50, 2000)))
	}
	res.Floor("equal:combination", int64(vs.Scale(50, 2000)))
	for _, nmc := range vNearMisses {
		res.Floor("nearmiss:"+nmc, int64(vs.Scale(50, 2000)))
	}
	res.Floor("corner_attribute_order_only", 1)
	res.Floor("replay_roundtrip_checked", 1)
	// two on-chain groups with the same resources, the manifest names both
	// alike: only the unique-name rule of ValidateManifest can reject it
	res.Floor("unequal_rejected_by_group_name_rule_of_ValidateManifest", 1)

	var harnessPanic int64
	guard := func(what string, f func()) {
		defer func() {
			if r := recover(); r != nil {
				res.Count("harness_panics", 1)
				if harnessPanic == 0 {
					harnessPanic = 1
					res.Inconclusive(fmt.Sprintf("harness panic in %s: %v", what, r))
				}
			}
		}()
		f()
	}

	// ---- small scope, exhaustive (first: the replay cases kept per key are then
	// the smallest ones)
	cfgs := vSmallConfigs()
	dl, ml := vSmallLists(2), vSmallLists(3)
	expected := len(cfgs) * len(dl) * len(ml)
	res.Floor("smallscope:pairs", int64(expected))
	res.Floor("smallscope:equal_accepted", 1)
	res.Floor("smallscope:unequal_rejected", 1)
	res.Extra("small_scope", fmt.Sprintf("exhaustive: one deployment group of 1-2 resource entries x one manifest group of 1-3 services, every entry one of two units (B differs from A by cpu+1 | memory+1 byte | storage+1 byte | one attribute) with count 1..3, endpoint vectors (http,other) in {(1,0),(0,1),(1,1)} on both sides for dim=cpu: %d configurations x %d deployment lists x %d manifest lists = %d pairs, all judged", len(cfgs), len(dl), len(ml), expected))
	vs.Parallel(len(cfgs)*len(dl), workers, func(j int) {
		guard(fmt.Sprintf("small-scope job %d", j), func() {
			cfg, d := cfgs[j/len(dl)], dl[j%len(dl)]
			for _, m := range ml {
				c := vSmallCase(cfg, d, m)
				vJudge(res, c, "smallscope:")
				res.Count("smallscope:pairs", 1)
			}
		})
	})
	res.Count("smallscope:equal_accepted", int(vSumPrefix(res, "smallscope:equal:")))
	res.Count("smallscope:unequal_rejected", int(vSumPrefix(res, "smallscope:nearmiss:")))

	// ---- random pairs
	n := vs.Scale(20000, 1000000)
	vs.Parallel(n, workers, func(i int) {
		guard(fmt.Sprintf("random pair %d", i), func() {
			c := vRandomCase(seed, i)
			if i%997 == 0 {
				// the replay encoding must not change the verdicts
				rc, err := vC10JSONRoundTrip(c)
				if err != nil {
					res.Inconclusive("replay case does not survive JSON: " + err.Error())
				} else {
					o1, o2 := vC10Oracle(c.Groups, c.Manifest), vC10Oracle(rc.Groups, rc.Manifest)
					v1, v2 := vObserve(c.Groups, c.Manifest), vObserve(rc.Groups, rc.Manifest)
					if o1.Equal != o2.Equal || o1.Why != o2.Why || (v1.VM == nil) != (v2.VM == nil) || (v1.CD == nil) != (v2.CD == nil) || (v1.CS == nil) != (v2.CS == nil) {
						res.Count("replay_roundtrip_differs", 1)
					}
					res.Count("replay_roundtrip_checked", 1)
				}
			}
			if res.WantSample() && i%3331 == 7 {
				res.Sample(map[string]interface{}{"transform": c.Transform, "near_miss": c.NearMiss, "variant": c.Variant, "groups": c.Groups, "manifest": c.Manifest})
			}
			vJudge(res, c, "")
		})
	})
	if k := res.Counter("replay_roundtrip_differs"); k > 0 {
		res.Inconclusive(fmt.Sprintf("%d replay cases were judged differently after their JSON round trip (replay files of pair violations may not reproduce)", k))
	}
	// corner counters under one name for the floor
	res.Count("corner_attribute_order_only", int(res.Counter("corner_attribute_order_only:accepted")+res.Counter("corner_attribute_order_only:rejected")))

	// ---- hash
	vC10Hash(res, seed, workers, guard)
}

func vSumPrefix(res *vs.Result, prefix string) int64 {
	var sum int64
	for _, tr := range []string{"identity", "split", "merge", "permute-services", "split+merge"} {
		sum += res.Counter(prefix + tr)
	}
	for _, nmc := range append([]string{"unit"}, vNearMisses...) {
		sum += res.Counter(prefix + nmc)
	}
	return sum
}
