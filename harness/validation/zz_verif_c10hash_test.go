//go:build verif
// +build verif

package validation_test

// C10, hash part: "The hash does not depend on serialization order and
// changes when any manifest field changes."  The hash under observation is
// sdl.ManifestVersion — the function provider/manifest manager.validateRequest
// compares with the on-chain deployment version and sdl.Version uses to
// produce that version.
//
//  (a) hash-independent-of-serialization: marshal the manifest, decode into
//      generic maps, re-encode with permuted object keys and other white
//      space, decode into manifest.Manifest, hash again: must be equal.
//  (b) hash-sensitive-to-field: every single-field mutation of the manifest
//      must change the hash.  The field list comes from REFLECTION over the
//      manifest types (not from the JSON tags), so a field that is hidden from
//      the hashed serialization is found.  Mutations: every scalar changed,
//      every slice element removed / duplicated / swapped with a different
//      neighbour, nil slice -> one element, nil pointer <-> value.
//      Not mutated (no semantic difference, documented): nil slice <-> empty
//      slice, uninitialised sdk.Int <-> 0.

import (
	"bytes"
	"encoding/hex"
	"encoding/json"
	"fmt"
	"reflect"
	"sort"
	"strings"

	sdk "github.com/cosmos/cosmos-sdk/types"

	"github.com/ovrclk/akash/manifest"
	"github.com/ovrclk/akash/sdl"
	"github.com/ovrclk/akash/types"
	vs "github.com/ovrclk/akash/verifsupport"
)

var vSDKIntType = reflect.TypeOf(sdk.Int{})

// vTypePaths lists every place of the manifest type tree that can be mutated,
// named by the chain of field names ("Group.Services.Expose.Hosts").
func vTypePaths(t reflect.Type, path string, out map[string]bool, skipped map[string]bool) {
	if t == vSDKIntType {
		out[path] = true
		return
	}
	switch t.Kind() {
	case reflect.Struct:
		for i := 0; i < t.NumField(); i++ {
			f := t.Field(i)
			if f.PkgPath != "" {
				skipped[path+"."+f.Name] = true
				continue
			}
			vTypePaths(f.Type, path+"."+f.Name, out, skipped)
		}
	case reflect.Slice:
		out[path] = true
		ep := path
		if path == "Manifest" {
			ep = "Group"
		}
		switch t.Elem().Kind() {
		case reflect.Struct, reflect.Ptr, reflect.Slice:
			vTypePaths(t.Elem(), ep, out, skipped)
		}
	case reflect.Ptr:
		out[path] = true
		vTypePaths(t.Elem(), path, out, skipped)
	default:
		out[path] = true
	}
}

// vPopulated returns a value of type t none of whose parts is zero / nil.
func vPopulated(t reflect.Type) reflect.Value {
	v := reflect.New(t).Elem()
	if t == vSDKIntType {
		v.Set(reflect.ValueOf(sdk.NewInt(5)))
		return v
	}
	switch t.Kind() {
	case reflect.Struct:
		for i := 0; i < t.NumField(); i++ {
			if t.Field(i).PkgPath == "" {
				v.Field(i).Set(vPopulated(t.Field(i).Type))
			}
		}
	case reflect.Slice:
		s := reflect.MakeSlice(t, 1, 1)
		s.Index(0).Set(vPopulated(t.Elem()))
		v.Set(s)
	case reflect.Ptr:
		p := reflect.New(t.Elem())
		p.Elem().Set(vPopulated(t.Elem()))
		v.Set(p)
	case reflect.String:
		v.SetString("new")
	case reflect.Bool:
		v.SetBool(true)
	case reflect.Int, reflect.Int8, reflect.Int16, reflect.Int32, reflect.Int64:
		v.SetInt(1)
	case reflect.Uint, reflect.Uint8, reflect.Uint16, reflect.Uint32, reflect.Uint64:
		v.SetUint(7)
	}
	return v
}

// vDeepCopyInto copies src into the settable dst without sharing slices or
// pointers (sdk.Int values are immutable and are shared).
func vDeepCopyInto(dst, src reflect.Value) {
	t := src.Type()
	if t == vSDKIntType {
		dst.Set(src)
		return
	}
	switch t.Kind() {
	case reflect.Struct:
		for i := 0; i < t.NumField(); i++ {
			if t.Field(i).PkgPath == "" {
				vDeepCopyInto(dst.Field(i), src.Field(i))
			}
		}
	case reflect.Slice:
		if src.IsNil() {
			dst.Set(reflect.Zero(t))
			return
		}
		s := reflect.MakeSlice(t, src.Len(), src.Len())
		for i := 0; i < src.Len(); i++ {
			vDeepCopyInto(s.Index(i), src.Index(i))
		}
		dst.Set(s)
	case reflect.Ptr:
		if src.IsNil() {
			dst.Set(reflect.Zero(t))
			return
		}
		p := reflect.New(t.Elem())
		vDeepCopyInto(p.Elem(), src.Elem())
		dst.Set(p)
	default:
		dst.Set(src)
	}
}

type vMutation struct {
	ID    string // path with indices + operation: unique within one manifest
	Field string // path of field names: the trigger class
	Op    string
	Apply func(root reflect.Value)
}

type vGetter func(root reflect.Value) reflect.Value

// vEnumMutations walks the value v (of the base manifest) and lists every
// single-field mutation; get navigates to the same place in a copy.
func vEnumMutations(v reflect.Value, get vGetter, field, id string, out *[]vMutation) {
	t := v.Type()
	add := func(op string, f func(x reflect.Value)) {
		*out = append(*out, vMutation{ID: id + " " + op, Field: field, Op: op, Apply: func(root reflect.Value) { f(get(root)) }})
	}
	if t == vSDKIntType {
		old := v.Interface().(sdk.Int)
		if old.IsNil() {
			return
		}
		add("value+1", func(x reflect.Value) { x.Set(reflect.ValueOf(old.AddRaw(1))) })
		return
	}
	switch t.Kind() {
	case reflect.Struct:
		for i := 0; i < t.NumField(); i++ {
			f := t.Field(i)
			if f.PkgPath != "" {
				continue
			}
			idx := i
			vEnumMutations(v.Field(i), func(root reflect.Value) reflect.Value { return get(root).Field(idx) }, field+"."+f.Name, id+"."+f.Name, out)
		}
	case reflect.Slice:
		n := v.Len()
		if n == 0 {
			if v.IsNil() {
				add("nil->one-element", func(x reflect.Value) { x.Set(vPopulated(t)) })
			} else {
				add("empty->one-element", func(x reflect.Value) { x.Set(vPopulated(t)) })
			}
			return
		}
		for i := 0; i < n; i++ {
			idx := i
			add(fmt.Sprintf("remove[%d]", i), func(x reflect.Value) {
				s := reflect.MakeSlice(t, 0, n-1)
				for k := 0; k < n; k++ {
					if k != idx {
						s = reflect.Append(s, x.Index(k))
					}
				}
				x.Set(s)
			})
			add(fmt.Sprintf("duplicate[%d]", i), func(x reflect.Value) {
				s := reflect.MakeSlice(t, 0, n+1)
				for k := 0; k < n; k++ {
					s = reflect.Append(s, x.Index(k))
					if k == idx {
						s = reflect.Append(s, x.Index(k))
					}
				}
				x.Set(s)
			})
			if i+1 < n && !reflect.DeepEqual(v.Index(i).Interface(), v.Index(i+1).Interface()) {
				add(fmt.Sprintf("swap[%d,%d]", i, i+1), func(x reflect.Value) {
					a := reflect.New(t.Elem()).Elem()
					a.Set(x.Index(idx))
					x.Index(idx).Set(x.Index(idx + 1))
					x.Index(idx + 1).Set(a)
				})
			}
		}
		ef := field
		if field == "Manifest" {
			ef = "Group"
		}
		for i := 0; i < n; i++ {
			idx := i
			vEnumMutations(v.Index(i), func(root reflect.Value) reflect.Value { return get(root).Index(idx) }, ef, fmt.Sprintf("%s[%d]", id, i), out)
		}
	case reflect.Ptr:
		if v.IsNil() {
			add("nil->value", func(x reflect.Value) { x.Set(vPopulated(t)) })
			return
		}
		add("value->nil", func(x reflect.Value) { x.Set(reflect.Zero(t)) })
		vEnumMutations(v.Elem(), func(root reflect.Value) reflect.Value { return get(root).Elem() }, field, id, out)
	case reflect.String:
		add("changed", func(x reflect.Value) { x.SetString(x.String() + "x") })
		if v.Len() > 0 {
			add("emptied", func(x reflect.Value) { x.SetString("") })
		}
	case reflect.Bool:
		add("flipped", func(x reflect.Value) { x.SetBool(!x.Bool()) })
	case reflect.Int, reflect.Int8, reflect.Int16, reflect.Int32, reflect.Int64:
		add("value+1", func(x reflect.Value) { x.SetInt(x.Int() + 1) })
	case reflect.Uint, reflect.Uint8, reflect.Uint16, reflect.Uint32, reflect.Uint64:
		add("value+1", func(x reflect.Value) { x.SetUint(x.Uint() + 1) })
		if v.Uint() != 0 {
			add("zeroed", func(x reflect.Value) { x.SetUint(0) })
		}
	}
}

func vApplyMutation(base manifest.Manifest, mu vMutation) manifest.Manifest {
	root := reflect.New(reflect.TypeOf(base)).Elem()
	vDeepCopyInto(root, reflect.ValueOf(base))
	mu.Apply(root)
	return root.Interface().(manifest.Manifest)
}

// ---- manifests for the hash part ---------------------------------------------

func vHashAttrs(r *vs.Rand, n int) []types.Attribute {
	var a []types.Attribute
	for i := 0; i < n; i++ {
		a = append(a, types.Attribute{Key: fmt.Sprintf("k%d", i), Value: fmt.Sprintf("v%d", r.Intn(3))})
	}
	return a
}

func vHashStrings(r *vs.Rand, prefix string, n int) []string {
	var s []string
	for i := 0; i < n; i++ {
		s = append(s, fmt.Sprintf("%s%d=%d", prefix, i, r.Intn(4)))
	}
	return s
}

// vHashManifest: mode 0 = everything populated with >= 2 different elements,
// mode 1 = everything that can be nil is nil, mode 2 = the nil manifest,
// otherwise random.
func vHashManifest(r *vs.Rand, mode int) manifest.Manifest {
	if mode == 2 {
		return nil
	}
	cnt := func(lo, hi int) int {
		switch mode {
		case 0:
			return 2
		case 1:
			return 0
		}
		return r.Range(lo, hi)
	}
	ng := cnt(1, 2)
	if mode == 1 {
		ng = 1
	}
	var m manifest.Manifest
	for gi := 0; gi < ng; gi++ {
		g := manifest.Group{Name: fmt.Sprintf("group-%d", gi)}
		ns := cnt(1, 3)
		if mode == 1 {
			ns = 2
		}
		for si := 0; si < ns; si++ {
			s := manifest.Service{
				Name:    fmt.Sprintf("svc-%d-%d", gi, si),
				Image:   fmt.Sprintf("image:%d", r.Intn(5)),
				Command: vHashStrings(r, "cmd", cnt(0, 2)),
				Args:    vHashStrings(r, "--arg", cnt(0, 3)),
				Env:     vHashStrings(r, "ENV", cnt(0, 3)),
				Count:   uint32(r.Range(1, 6)),
			}
			if mode != 1 && (mode == 0 || r.Chance(5, 6)) {
				s.Resources.CPU = &types.CPU{Units: vRV(vCPUSet[r.Intn(len(vCPUSet))]), Attributes: vHashAttrs(r, cnt(0, 2))}
			}
			if mode != 1 && (mode == 0 || r.Chance(5, 6)) {
				s.Resources.Memory = &types.Memory{Quantity: vRV(vMemSet[r.Intn(len(vMemSet))]), Attributes: vHashAttrs(r, cnt(0, 2))}
			}
			if mode != 1 && (mode == 0 || r.Chance(5, 6)) {
				s.Resources.Storage = &types.Storage{Quantity: vRV(vStoSet[r.Intn(len(vStoSet))]), Attributes: vHashAttrs(r, cnt(0, 2))}
			}
			for k, ne := 0, cnt(0, 2); k < ne; k++ {
				s.Resources.Endpoints = append(s.Resources.Endpoints, types.Endpoint{Kind: types.Endpoint_Kind(k % 2)})
			}
			nx := cnt(0, 3)
			if mode == 1 && si == 1 {
				nx = 1 // one expose with nil hosts
			}
			for k := 0; k < nx; k++ {
				e := manifest.ServiceExpose{
					Port:         uint16(80 + k + r.Intn(3)*1000),
					ExternalPort: uint16(r.Intn(2) * (8000 + k)),
					Proto:        manifest.TCP,
					Service:      []string{"", "other"}[r.Intn(2)],
					Global:       r.Bool(),
				}
				if r.Chance(1, 3) {
					e.Proto = manifest.UDP
				}
				if mode == 0 {
					e.Service, e.ExternalPort = "svc", uint16(8000+k)
				}
				for h, nh := 0, cnt(0, 2); h < nh && mode != 1; h++ {
					e.Hosts = append(e.Hosts, fmt.Sprintf("h%d-%d-%d-%d.example.com", gi, si, k, h))
				}
				s.Expose = append(s.Expose, e)
			}
			g.Services = append(g.Services, s)
		}
		m = append(m, g)
	}
	return m
}

// ---- serialization permutation -------------------------------------------------

func vEncodePermuted(buf *bytes.Buffer, v interface{}, r *vs.Rand, ws bool) {
	sp := func() {
		if ws {
			buf.WriteString([]string{"", " ", "\n ", "\t"}[r.Intn(4)])
		}
	}
	switch x := v.(type) {
	case map[string]interface{}:
		keys := make([]string, 0, len(x))
		for k := range x {
			keys = append(keys, k)
		}
		sort.Strings(keys)
		p := r.Perm(len(keys))
		buf.WriteByte('{')
		for i, j := range p {
			if i > 0 {
				buf.WriteByte(',')
			}
			sp()
			kb, _ := json.Marshal(keys[j])
			buf.Write(kb)
			sp()
			buf.WriteByte(':')
			sp()
			vEncodePermuted(buf, x[keys[j]], r, ws)
		}
		sp()
		buf.WriteByte('}')
	case []interface{}:
		buf.WriteByte('[')
		for i, e := range x {
			if i > 0 {
				buf.WriteByte(',')
			}
			sp()
			vEncodePermuted(buf, e, r, ws)
		}
		buf.WriteByte(']')
	case json.Number:
		buf.WriteString(x.String())
	default:
		b, _ := json.Marshal(x)
		buf.Write(b)
	}
}

func vHashOf(m manifest.Manifest) (h string, err error) {
	defer func() {
		if r := recover(); r != nil {
			err = fmt.Errorf("panic: %v", r)
		}
	}()
	b, err := sdl.ManifestVersion(m)
	if err != nil {
		return "", err
	}
	return hex.EncodeToString(b), nil
}

// vHashSerialization: rule hash-independent-of-serialization on one manifest.
func vHashSerialization(res *vs.Result, m manifest.Manifest, r *vs.Rand, rc *vC10Case) {
	h0, err := vHashOf(m)
	if err != nil {
		res.Count("hash_errors", 1)
		return
	}
	plain, err := json.Marshal(m)
	if err != nil {
		res.Count("hash_errors", 1)
		return
	}
	dec := json.NewDecoder(bytes.NewReader(plain))
	dec.UseNumber()
	var generic interface{}
	if err := dec.Decode(&generic); err != nil {
		res.Inconclusive("manifest JSON does not decode generically: " + err.Error())
		return
	}
	for k := 0; k < 4; k++ {
		var buf bytes.Buffer
		vEncodePermuted(&buf, generic, r, k%2 == 1)
		res.Eval(1)
		if !bytes.Equal(buf.Bytes(), plain) {
			res.Count("serializations_differing_bytewise", 1)
		}
		var m2 manifest.Manifest
		if err := json.Unmarshal(buf.Bytes(), &m2); err != nil {
			res.AddViolation("hash-independent-of-serialization", "C10/hash-independent-of-serialization/decode-error",
				fmt.Sprintf("a key-permuted serialization of the manifest no longer decodes: %v\n%s", err, buf.String()), rc)
			continue
		}
		h2, err := vHashOf(m2)
		if err != nil || h2 != h0 {
			res.AddViolation("hash-independent-of-serialization", "C10/hash-independent-of-serialization/key-order",
				fmt.Sprintf("version %s of the manifest, version %s (err=%v) after re-encoding it with permuted keys and decoding again\noriginal: %s\npermuted: %s", h0, h2, err, plain, buf.String()), rc)
			continue
		}
		res.Count("serialization_permutations_held", 1)
	}
}

// vHashMutations: rule hash-sensitive-to-field on one manifest; only != "" restricts
// to one mutation id (replay).
func vHashMutations(res *vs.Result, m manifest.Manifest, rc vC10Case, only string) {
	h0, err := vHashOf(m)
	if err != nil {
		res.Count("hash_errors", 1)
		return
	}
	var muts []vMutation
	vEnumMutations(reflect.ValueOf(m), func(root reflect.Value) reflect.Value { return root }, "Manifest", "Manifest", &muts)
	for _, mu := range muts {
		if only != "" && mu.ID != only {
			continue
		}
		mm := vApplyMutation(m, mu)
		if reflect.DeepEqual(m, mm) {
			res.Count("hash_mutation_noop", 1)
			continue
		}
		res.Eval(1)
		h1, err := vHashOf(mm)
		if err != nil {
			res.Count("hash_errors", 1)
			continue
		}
		res.Count("hashmut:"+mu.Field, 1)
		op := mu.Op
		if i := strings.IndexAny(op, "["); i >= 0 {
			op = op[:i]
		}
		res.Count("hashop:"+op, 1)
		res.Distinct("hash|" + mu.Field + "|" + op)
		if h1 == h0 {
			c := rc
			c.Kind, c.HashMutation = "hash-mutation", mu.ID
			c.Manifest = m
			res.AddViolation("hash-sensitive-to-field", "C10/hash-sensitive-to-field/"+mu.Field,
				fmt.Sprintf("mutation %q (%s of %s) leaves the manifest version unchanged (%s): two different manifests would both be accepted for the same on-chain version", mu.ID, mu.Op, mu.Field, h0), &c)
		}
	}
}

func vC10Hash(res *vs.Result, seed int64, workers int, guard func(string, func())) {
	paths, skipped := map[string]bool{}, map[string]bool{}
	vTypePaths(reflect.TypeOf(manifest.Manifest{}), "Manifest", paths, skipped)
	var names, skippedNames []string
	for p := range paths {
		names = append(names, p)
		res.Floor("hashmut:"+p, 1)
	}
	for p := range skipped {
		skippedNames = append(skippedNames, p)
	}
	sort.Strings(names)
	sort.Strings(skippedNames)
	res.Extra("hash_fields_by_reflection", names)
	res.Extra("hash_unexported_fields_not_mutated", skippedNames)
	for _, op := range []string{"changed", "value+1", "flipped", "remove", "duplicate", "swap", "nil->one-element", "nil->value", "value->nil"} {
		res.Floor("hashop:"+op, 1)
	}
	res.Floor("serialization_permutations_held", 1)
	res.Floor("serializations_differing_bytewise", 1)

	n := vs.Scale(60, 3000)
	vs.Parallel(n, workers, func(i int) {
		guard(fmt.Sprintf("hash manifest %d", i), func() {
			stream := uint64(5000000 + i)
			r := vs.NewRand(seed, stream)
			m := vHashManifest(r, i)
			rc := vC10Case{Kind: "hash-serialization", HashStream: stream, HashMode: i, Seed: seed, Manifest: m}
			vHashSerialization(res, m, r, &rc)
			vHashMutations(res, m, rc, "")
			res.Count("hash_manifests", 1)
		})
	})
}

func vC10HashReplay(res *vs.Result, c *vC10Case) {
	seed := c.Seed
	if seed == 0 {
		seed = vs.Seed()
	}
	r := vs.NewRand(seed, c.HashStream)
	m := vHashManifest(r, c.HashMode)
	rc := *c
	if c.Kind == "hash-serialization" {
		vHashSerialization(res, m, r, &rc)
		return
	}
	vHashMutations(res, m, rc, c.HashMutation)
}
