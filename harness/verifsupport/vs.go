// Package verifsupport holds the helpers shared by every overlaid monitor
// test: environment access, a deterministic PRNG, and the result record the
// driver (/verif/bin/check) turns into verdict lines and an evidence file.
//
// The package only exists in the build overlay (see /verif/bin/check); it is
// mapped to github.com/ovrclk/akash/verifsupport.
package verifsupport

import (
	"crypto/sha256"
	"encoding/hex"
	"encoding/json"
	"fmt"
	"io/ioutil"
	"os"
	"path/filepath"
	"reflect"
	"sort"
	"strconv"
	"sync"
	"time"
	"unsafe"
)

// ---------------------------------------------------------------------------
// environment

func Seed() int64 {
	if v := os.Getenv("VERIF_SEED"); v != "" {
		if n, err := strconv.ParseInt(v, 10, 64); err == nil {
			return n
		}
	}
	return 1
}

func Tier() string {
	if os.Getenv("VERIF_TIER") == "thorough" {
		return "thorough"
	}
	return "quick"
}

func Thorough() bool { return Tier() == "thorough" }

// Stage distinguishes several go-test invocations of one check (e.g. the
// -race pass).  Empty for the main stage.
func Stage() string { return os.Getenv("VERIF_STAGE") }

func OutDir() string {
	if v := os.Getenv("VERIF_OUT"); v != "" {
		return v
	}
	return "/verif/out"
}

// ReplayFile is the path given with --replay, or "".
func ReplayFile() string { return os.Getenv("VERIF_REPLAY") }

// Scale picks the quick or thorough value of a bound.
func Scale(quick, thorough int) int {
	if Thorough() {
		return thorough
	}
	return quick
}

// ---------------------------------------------------------------------------
// deterministic PRNG (splitmix64); independent of math/rand's algorithm so
// that case lists depend on VERIF_SEED only.

type Rand struct{ s uint64 }

func NewRand(seed int64, stream uint64) *Rand {
	r := &Rand{s: uint64(seed)*0x9E3779B97F4A7C15 ^ (stream+1)*0xBF58476D1CE4E5B9}
	r.Uint64()
	return r
}

func (r *Rand) Uint64() uint64 {
	r.s += 0x9E3779B97F4A7C15
	z := r.s
	z = (z ^ (z >> 30)) * 0xBF58476D1CE4E5B9
	z = (z ^ (z >> 27)) * 0x94D049BB133111EB
	return z ^ (z >> 31)
}

// Intn returns a value in [0,n).
func (r *Rand) Intn(n int) int {
	if n <= 0 {
		return 0
	}
	return int(r.Uint64() % uint64(n))
}

func (r *Rand) Int63n(n int64) int64 {
	if n <= 0 {
		return 0
	}
	return int64(r.Uint64() % uint64(n))
}

// Range returns a value in [lo,hi].
func (r *Rand) Range(lo, hi int) int { return lo + r.Intn(hi-lo+1) }

func (r *Rand) Bool() bool { return r.Uint64()&1 == 1 }

// Chance is true with probability num/den.
func (r *Rand) Chance(num, den int) bool { return r.Intn(den) < num }

func (r *Rand) Float() float64 { return float64(r.Uint64()>>11) / float64(1<<53) }

// Pick returns an index chosen with the given weights.
func (r *Rand) Pick(weights []int) int {
	total := 0
	for _, w := range weights {
		total += w
	}
	if total <= 0 {
		return 0
	}
	n := r.Intn(total)
	for i, w := range weights {
		if n < w {
			return i
		}
		n -= w
	}
	return len(weights) - 1
}

func (r *Rand) Perm(n int) []int {
	p := make([]int, n)
	for i := range p {
		p[i] = i
	}
	for i := n - 1; i > 0; i-- {
		j := r.Intn(i + 1)
		p[i], p[j] = p[j], p[i]
	}
	return p
}

func (r *Rand) Bytes(n int) []byte {
	b := make([]byte, n)
	for i := range b {
		b[i] = byte(r.Uint64())
	}
	return b
}

// ---------------------------------------------------------------------------
// result record

type Violation struct {
	// Rule is the oracle clause that failed (stable, short).
	Rule string `json:"rule"`
	// Key identifies rule + trigger class; known findings are matched on it.
	Key string `json:"key"`
	// Detail is the human-readable observed-vs-admissible text.
	Detail string `json:"detail"`
	// Replay is the path of the replay file (written by AddViolation).
	Replay string `json:"replay"`
}

type Result struct {
	mu sync.Mutex

	Property string
	Level    string
	Rule     string
	start    time.Time

	evaluations int64
	distinct    map[string]struct{}
	samples     []interface{}
	maxSamples  int
	counters    map[string]int64
	extra       map[string]interface{}
	assumptions []string
	violations  []Violation
	vioKeys     map[string]int
	inconcl     []string
	exhaustive  bool
	floors      map[string]int64 // name -> required minimum
}

func NewResult(property, level, rule string) *Result {
	return &Result{
		Property:   property,
		Level:      level,
		Rule:       rule,
		start:      time.Now(),
		distinct:   map[string]struct{}{},
		counters:   map[string]int64{},
		extra:      map[string]interface{}{},
		vioKeys:    map[string]int{},
		floors:     map[string]int64{},
		maxSamples: 6,
	}
}

func (r *Result) Eval(n int) {
	r.mu.Lock()
	r.evaluations += int64(n)
	r.mu.Unlock()
}

// Distinct records one non-trivial case under its abstraction key.
func (r *Result) Distinct(key string) {
	h := sha256.Sum256([]byte(key))
	k := string(h[:12])
	r.mu.Lock()
	r.distinct[k] = struct{}{}
	r.mu.Unlock()
}

func (r *Result) Count(name string, n int) {
	r.mu.Lock()
	r.counters[name] += int64(n)
	r.mu.Unlock()
}

func (r *Result) Counter(name string) int64 {
	r.mu.Lock()
	defer r.mu.Unlock()
	return r.counters[name]
}

// Floor declares that counter `name` must reach min, else INCONCLUSIVE.
func (r *Result) Floor(name string, min int64) {
	if ReplayFile() != "" {
		// a replay runs one recorded case: coverage floors do not apply
		min = 0
	}
	r.mu.Lock()
	r.floors[name] = min
	if _, ok := r.counters[name]; !ok {
		r.counters[name] = 0
	}
	r.mu.Unlock()
}

func (r *Result) Sample(s interface{}) {
	r.mu.Lock()
	if len(r.samples) < r.maxSamples {
		r.samples = append(r.samples, s)
	}
	r.mu.Unlock()
}

func (r *Result) WantSample() bool {
	r.mu.Lock()
	defer r.mu.Unlock()
	return len(r.samples) < r.maxSamples
}

func (r *Result) Extra(k string, v interface{}) {
	r.mu.Lock()
	r.extra[k] = v
	r.mu.Unlock()
}

func (r *Result) Assume(s string) {
	r.mu.Lock()
	r.assumptions = append(r.assumptions, s)
	r.mu.Unlock()
}

func (r *Result) SetExhaustive(b bool) {
	r.mu.Lock()
	r.exhaustive = b
	r.mu.Unlock()
}

func (r *Result) Inconclusive(why string) {
	r.mu.Lock()
	r.inconcl = append(r.inconcl, why)
	r.mu.Unlock()
}

func (r *Result) Violations() int {
	r.mu.Lock()
	defer r.mu.Unlock()
	return len(r.violations)
}

// AddViolation records a violation and writes its replay file. At most
// three violations per key are kept in full (the count is always exact).
func (r *Result) AddViolation(rule, key, detail string, replay interface{}) {
	r.mu.Lock()
	defer r.mu.Unlock()
	r.vioKeys[key]++
	if r.vioKeys[key] > 3 {
		return
	}
	dir := filepath.Join(OutDir(), "replay", r.Property)
	_ = os.MkdirAll(dir, 0o755)
	doc := map[string]interface{}{
		"property": r.Property,
		"seed":     Seed(),
		"tier":     Tier(),
		"stage":    Stage(),
		"rule":     rule,
		"key":      key,
		"detail":   detail,
		"case":     replay,
	}
	buf, err := json.MarshalIndent(doc, "", " ")
	if err != nil {
		buf = []byte(fmt.Sprintf(`{"property":%q,"rule":%q,"key":%q,"detail":%q,"marshal_error":%q}`, r.Property, rule, key, detail, err.Error()))
	}
	h := sha256.Sum256(buf)
	path := filepath.Join(dir, hex.EncodeToString(h[:8])+".json")
	_ = ioutil.WriteFile(path, buf, 0o644)
	r.violations = append(r.violations, Violation{Rule: rule, Key: key, Detail: detail, Replay: path})
}

type resultDoc struct {
	Property     string                 `json:"property_id"`
	Tier         string                 `json:"tier"`
	Seed         int64                  `json:"seed"`
	Stage        string                 `json:"stage"`
	Level        string                 `json:"level"`
	Coverage     map[string]interface{} `json:"coverage"`
	Assumptions  []string               `json:"assumptions"`
	WallS        float64                `json:"wall_s"`
	Violations   []Violation            `json:"violation_list"`
	VioCounts    map[string]int         `json:"violation_counts"`
	Inconclusive []string               `json:"inconclusive"`
}

// Write stores the result record for the driver. It must be called exactly
// once, at the end of the test, also when violations were found.
func (r *Result) Write() error {
	r.mu.Lock()
	defer r.mu.Unlock()

	names := make([]string, 0, len(r.floors))
	for name := range r.floors {
		names = append(names, name)
	}
	sort.Strings(names)
	for _, name := range names {
		if r.counters[name] < r.floors[name] {
			r.inconcl = append(r.inconcl, fmt.Sprintf("coverage floor %q not reached: %d < %d", name, r.counters[name], r.floors[name]))
		}
	}

	cov := map[string]interface{}{
		"evaluations":         r.evaluations,
		"distinct_nontrivial": len(r.distinct),
		"rule":                r.Rule,
		"samples":             r.samples,
		"counters":            r.counters,
		"exhaustive":          r.exhaustive,
	}
	for k, v := range r.extra {
		cov[k] = v
	}
	if r.samples == nil {
		cov["samples"] = []interface{}{}
	}
	doc := resultDoc{
		Property:     r.Property,
		Tier:         Tier(),
		Seed:         Seed(),
		Stage:        Stage(),
		Level:        r.Level,
		Coverage:     cov,
		Assumptions:  r.assumptions,
		WallS:        time.Since(r.start).Seconds(),
		Violations:   r.violations,
		VioCounts:    r.vioKeys,
		Inconclusive: r.inconcl,
	}
	buf, err := json.MarshalIndent(doc, "", " ")
	if err != nil {
		return err
	}
	dir := filepath.Join(OutDir(), "result")
	if err := os.MkdirAll(dir, 0o755); err != nil {
		return err
	}
	name := r.Property
	if Stage() != "" {
		name += "." + Stage()
	}
	return ioutil.WriteFile(filepath.Join(dir, name+".json"), buf, 0o644)
}

// ---------------------------------------------------------------------------
// small helpers

// Parallel runs fn(i) for i in [0,n) on `workers` goroutines.
func Parallel(n, workers int, fn func(i int)) {
	if workers < 1 {
		workers = 1
	}
	var wg sync.WaitGroup
	ch := make(chan int)
	for w := 0; w < workers; w++ {
		wg.Add(1)
		go func() {
			defer wg.Done()
			for i := range ch {
				fn(i)
			}
		}()
	}
	for i := 0; i < n; i++ {
		ch <- i
	}
	close(ch)
	wg.Wait()
}

// LoadReplay reads the "case" member of a replay file into v.
func LoadReplay(path string, v interface{}) error {
	buf, err := ioutil.ReadFile(path)
	if err != nil {
		return err
	}
	var doc struct {
		Case json.RawMessage `json:"case"`
	}
	if err := json.Unmarshal(buf, &doc); err != nil {
		return err
	}
	return json.Unmarshal(doc.Case, v)
}

// InitNilMaps gives every nil map field of the struct that ptr points to an
// empty map (unexported fields included).  Harnesses that build a component
// from a struct literal - to register its loop hook before the loop starts -
// call it so that bookkeeping maps a constructor would have made exist.
func InitNilMaps(ptr interface{}) {
	v := reflect.ValueOf(ptr)
	if v.Kind() != reflect.Ptr || v.Elem().Kind() != reflect.Struct {
		return
	}
	e := v.Elem()
	for i := 0; i < e.NumField(); i++ {
		f := e.Field(i)
		if f.Kind() == reflect.Map && f.IsNil() {
			reflect.NewAt(f.Type(), unsafe.Pointer(f.UnsafeAddr())).Elem().Set(reflect.MakeMap(f.Type()))
		}
	}
}
