package verifsupport

// Schedule control for single-goroutine event loops (engine E3, DESIGN.md
// §4.3): a Stepper parks the loop goroutine inside its loop-top hook until
// the harness grants an iteration; Gates make every asynchronous step of a
// scripted collaborator block until the harness releases it with a chosen
// result, and keep the call log the monitors judge.

import (
	"fmt"
	"runtime"
	"sync"
	"sync/atomic"
	"time"
)

// ---------------------------------------------------------------------------
// Stepper

type Stepper struct {
	mu      sync.Mutex
	cond    *sync.Cond
	parked  bool
	credits int
	free    bool
	visits  int64
	// Last holds the hook arguments of the most recent loop-top visit.
	Last []interface{}
}

func NewStepper() *Stepper {
	s := &Stepper{}
	s.cond = sync.NewCond(&s.mu)
	return s
}

// AtLoopTop is called from the hook, in the loop goroutine.
func (s *Stepper) AtLoopTop(args ...interface{}) {
	s.mu.Lock()
	s.visits++
	s.Last = args
	s.parked = true
	s.cond.Broadcast()
	for !s.free && s.credits == 0 {
		s.cond.Wait()
	}
	if !s.free {
		s.credits--
	}
	s.parked = false
	s.cond.Broadcast()
	s.mu.Unlock()
}

// Grant lets the loop run n more iterations.
func (s *Stepper) Grant(n int) {
	s.mu.Lock()
	s.credits += n
	s.cond.Broadcast()
	s.mu.Unlock()
}

// Free lets the loop run without parking (used to finish a scenario).
func (s *Stepper) Free() {
	s.mu.Lock()
	s.free = true
	s.cond.Broadcast()
	s.mu.Unlock()
}

// LastArgs returns the hook arguments of the most recent loop-top visit.
func (s *Stepper) LastArgs() []interface{} {
	s.mu.Lock()
	defer s.mu.Unlock()
	return s.Last
}

func (s *Stepper) Visits() int64 {
	s.mu.Lock()
	defer s.mu.Unlock()
	return s.visits
}

// WaitParked waits until the loop is parked at its top with no credit left
// (= it consumed and fully processed everything it was allowed to), or
// until done is closed (the loop has ended).  Returns "parked", "done" or
// "timeout".
func (s *Stepper) WaitParked(done <-chan struct{}, timeout time.Duration) string {
	deadline := time.Now().Add(timeout)
	for {
		s.mu.Lock()
		ok := s.parked && s.credits == 0 && !s.free
		s.mu.Unlock()
		if ok {
			return "parked"
		}
		select {
		case <-done:
			return "done"
		default:
		}
		if time.Now().After(deadline) {
			return "timeout"
		}
		runtime.Gosched()
		time.Sleep(20 * time.Microsecond)
	}
}

// ---------------------------------------------------------------------------
// Gates

type GateCall struct {
	ID     int         `json:"id"`
	Kind   string      `json:"kind"`
	Arg    interface{} `json:"arg,omitempty"`
	Start  int64       `json:"start"`
	End    int64       `json:"end,omitempty"` // 0 while in flight
	Err    string      `json:"err,omitempty"`
	Result interface{} `json:"-"`

	release chan gateResult
	mu      sync.Mutex
	done    bool
}

type gateResult struct {
	val interface{}
	err error
}

type Gates struct {
	mu    sync.Mutex
	clock int64
	calls []*GateCall
	auto  map[string]func(arg interface{}) (interface{}, error)
}

func NewGates() *Gates {
	return &Gates{auto: map[string]func(arg interface{}) (interface{}, error){}}
}

// Stamp returns the next value of the run's logical clock.
func (g *Gates) Stamp() int64 { return atomic.AddInt64(&g.clock, 1) }

// Auto makes calls of a kind return immediately with fn's result (they are
// still logged).
func (g *Gates) Auto(kind string, fn func(arg interface{}) (interface{}, error)) {
	g.mu.Lock()
	g.auto[kind] = fn
	g.mu.Unlock()
}

// Enter is called by a scripted collaborator on behalf of the component: it
// logs the call and blocks until the harness releases it.
func (g *Gates) Enter(kind string, arg interface{}) (interface{}, error) {
	c := &GateCall{Kind: kind, Arg: arg, release: make(chan gateResult, 1)}
	g.mu.Lock()
	c.ID = len(g.calls)
	c.Start = g.Stamp()
	g.calls = append(g.calls, c)
	fn := g.auto[kind]
	g.mu.Unlock()
	if fn != nil {
		v, err := fn(arg)
		g.finish(c, v, err)
		return v, err
	}
	r := <-c.release
	g.finish(c, r.val, r.err)
	return r.val, r.err
}

func (g *Gates) finish(c *GateCall, v interface{}, err error) {
	g.mu.Lock()
	c.End = g.Stamp()
	c.Result = v
	if err != nil {
		c.Err = err.Error()
	}
	g.mu.Unlock()
}

// Pending returns the oldest call of the kind that is still in flight and
// has not been released yet.
func (g *Gates) Pending(kind string) *GateCall {
	g.mu.Lock()
	defer g.mu.Unlock()
	for _, c := range g.calls {
		if c.Kind == kind && c.End == 0 {
			c.mu.Lock()
			d := c.done
			c.mu.Unlock()
			if !d {
				return c
			}
		}
	}
	return nil
}

// AnyPending reports whether any call (of any kind) is blocked.
func (g *Gates) AnyPending() []*GateCall {
	g.mu.Lock()
	defer g.mu.Unlock()
	var out []*GateCall
	for _, c := range g.calls {
		c.mu.Lock()
		d := c.done
		c.mu.Unlock()
		if c.End == 0 && !d {
			out = append(out, c)
		}
	}
	return out
}

func (g *Gates) WaitPending(kind string, timeout time.Duration) *GateCall {
	deadline := time.Now().Add(timeout)
	for {
		if c := g.Pending(kind); c != nil {
			return c
		}
		if time.Now().After(deadline) {
			return nil
		}
		runtime.Gosched()
		time.Sleep(20 * time.Microsecond)
	}
}

// Release lets a blocked call return (val, err).  Releasing twice is a no-op.
func (g *Gates) Release(c *GateCall, val interface{}, err error) {
	c.mu.Lock()
	if c.done {
		c.mu.Unlock()
		return
	}
	c.done = true
	c.mu.Unlock()
	c.release <- gateResult{val, err}
}

// WaitEnded waits until the released call has actually returned to the
// component (its End stamp is set).
func (g *Gates) WaitEnded(c *GateCall, timeout time.Duration) bool {
	deadline := time.Now().Add(timeout)
	for {
		g.mu.Lock()
		e := c.End
		g.mu.Unlock()
		if e != 0 {
			return true
		}
		if time.Now().After(deadline) {
			return false
		}
		runtime.Gosched()
		time.Sleep(20 * time.Microsecond)
	}
}

// ReleaseAll releases everything in flight with the result chosen by fn.
func (g *Gates) ReleaseAll(fn func(c *GateCall) (interface{}, error)) int {
	n := 0
	for _, c := range g.AnyPending() {
		v, err := fn(c)
		g.Release(c, v, err)
		n++
	}
	return n
}

type GateCallView struct {
	ID    int    `json:"id"`
	Kind  string `json:"kind"`
	Arg   string `json:"arg,omitempty"`
	Start int64  `json:"start"`
	End   int64  `json:"end,omitempty"`
	Err   string `json:"err,omitempty"`
}

// Log returns a snapshot of the call log.
func (g *Gates) Log() []GateCallView {
	g.mu.Lock()
	defer g.mu.Unlock()
	out := make([]GateCallView, 0, len(g.calls))
	for _, c := range g.calls {
		out = append(out, GateCallView{ID: c.ID, Kind: c.Kind, Arg: fmt.Sprint(c.Arg), Start: c.Start, End: c.End, Err: c.Err})
	}
	return out
}

// Calls returns the raw calls (Arg and Result usable by in-package monitors).
func (g *Gates) Calls() []*GateCall {
	g.mu.Lock()
	defer g.mu.Unlock()
	return append([]*GateCall(nil), g.calls...)
}

// ---------------------------------------------------------------------------
// dispatch of the global loop hook to per-instance steppers

type HookRouter struct {
	m sync.Map // component pointer -> *Stepper
	// Default, if set, is asked for a stepper the first time an unregistered
	// component reaches its loop top (components whose constructor starts the
	// loop before the harness can register them).  nil result = run free.
	Default func(component interface{}) *Stepper
}

// Lookup returns the stepper of a component (nil if none).
func (r *HookRouter) Lookup(component interface{}) *Stepper {
	if v, ok := r.m.Load(component); ok {
		return v.(*Stepper)
	}
	return nil
}

func (r *HookRouter) Register(component interface{}, s *Stepper) { r.m.Store(component, s) }
func (r *HookRouter) Unregister(component interface{})           { r.m.Delete(component) }

// Handler returns the function to install with verifhook.Set: hook calls
// whose first argument is a registered component are routed to its stepper;
// everything else passes through.
func (r *HookRouter) Handler(point string) func(string, ...interface{}) {
	return func(p string, args ...interface{}) {
		if p != point || len(args) == 0 {
			return
		}
		if v, ok := r.m.Load(args[0]); ok {
			v.(*Stepper).AtLoopTop(args...)
			return
		}
		if r.Default != nil {
			if st := r.Default(args[0]); st != nil {
				r.m.Store(args[0], st)
				st.AtLoopTop(args...)
			}
		}
	}
}
