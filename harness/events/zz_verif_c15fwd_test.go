//go:build verif
// +build verif

package events

// C15, stage "forward" — events/publish.go is how chain events reach the
// provider's bus: two goroutines (transaction results, block results) parse
// tendermint results and publish the marketplace events they carry.  The
// stage runs the real Publish against a scripted tendermint event source and a
// real bus, with both streams busy at the same time, slow subscribers and
// results full of foreign / malformed / failed-transaction events, and judges
// what every subscriber received: each marketplace event of a successful
// result exactly once, unaltered, in the order of its stream; nothing else.

import (
	"context"
	"fmt"
	"runtime"
	"sync"
	"sync/atomic"
	"testing"
	"time"

	sdk "github.com/cosmos/cosmos-sdk/types"
	abci "github.com/tendermint/tendermint/abci/types"
	ctypes "github.com/tendermint/tendermint/rpc/core/types"
	tmtmtypes "github.com/tendermint/tendermint/types"

	"github.com/ovrclk/akash/pubsub"
	"github.com/ovrclk/akash/sdkutil"
	atypes "github.com/ovrclk/akash/x/audit/types"
	dtypes "github.com/ovrclk/akash/x/deployment/types"
	mtypes "github.com/ovrclk/akash/x/market/types"
	ptypes "github.com/ovrclk/akash/x/provider/types"

	vs "github.com/ovrclk/akash/verifsupport"
)

// vFwdEvent is one marketplace event as the script knows it: which stream
// carried it ("tx"/"blk"), its position in that stream, and its identity.
type vFwdEvent struct {
	Stream string `json:"stream"`
	Seq    int    `json:"seq"`
	Kind   string `json:"kind"`
	ID     uint64 `json:"id"` // unique number placed in the event (dseq)
}

type vFwdResult struct {
	Stream  string      `json:"stream"`
	Failed  bool        `json:"failed,omitempty"` // failed transaction: nothing of it may be forwarded
	Events  []vFwdEvent `json:"events"`           // marketplace events, in order
	Foreign int         `json:"foreign"`          // other events mixed in
}

type vFwdHistory struct {
	Seed     int64               `json:"seed"`
	Run      int                 `json:"run"`
	Results  []vFwdResult        `json:"results"`
	Received map[string][]string `json:"received"` // subscriber -> events as received ("stream/seq/kind/id" or "?...")
	Problems []string            `json:"problems,omitempty"`
}

var (
	vFwdOwner    = sdk.AccAddress([]byte("verif-fwd-owner-----")[:20])
	vFwdProvider = sdk.AccAddress([]byte("verif-fwd-provider--")[:20])
	vFwdAuditor  = sdk.AccAddress([]byte("verif-fwd-auditor---")[:20])
)

var vFwdKinds = []string{"deployment-created", "deployment-updated", "deployment-closed", "group-closed", "order-created", "order-closed", "bid-created", "bid-closed", "lease-created", "lease-closed", "provider-updated", "attrs-signed"}

// vFwdMake builds the typed event for (kind, id).  Stream and seq are encoded
// in fields the event carries anyway, so that a received event identifies the
// scripted one it came from:  dseq = id, gseq = stream (1 tx / 2 blk), price /
// version carry seq.
func vFwdMake(e vFwdEvent) sdkutil.ModuleEvent {
	g := uint32(1)
	if e.Stream == "blk" {
		g = 2
	}
	did := dtypes.DeploymentID{Owner: vFwdOwner.String(), DSeq: e.ID}
	gid := dtypes.GroupID{Owner: vFwdOwner.String(), DSeq: e.ID, GSeq: g}
	oid := mtypes.OrderID{Owner: vFwdOwner.String(), DSeq: e.ID, GSeq: g, OSeq: uint32(e.Seq%1000 + 1)}
	bid := mtypes.MakeBidID(oid, vFwdProvider)
	lid := mtypes.MakeLeaseID(bid)
	price := sdk.NewInt64Coin("uakt", int64(e.Seq+1))
	ver := []byte(fmt.Sprintf("%s-%08d", e.Stream, e.Seq))
	switch e.Kind {
	case "deployment-created":
		return dtypes.NewEventDeploymentCreated(did, ver)
	case "deployment-updated":
		return dtypes.NewEventDeploymentUpdated(did, ver)
	case "deployment-closed":
		return dtypes.NewEventDeploymentClosed(did)
	case "group-closed":
		return dtypes.NewEventGroupClosed(gid)
	case "order-created":
		return mtypes.NewEventOrderCreated(oid)
	case "order-closed":
		return mtypes.NewEventOrderClosed(oid)
	case "bid-created":
		return mtypes.NewEventBidCreated(bid, price)
	case "bid-closed":
		return mtypes.NewEventBidClosed(bid, price)
	case "lease-created":
		return mtypes.NewEventLeaseCreated(lid, price)
	case "lease-closed":
		return mtypes.NewEventLeaseClosed(lid, price)
	case "provider-updated":
		// carries no number: the owner address is derived from the id
		return ptypes.NewEventProviderUpdated(vFwdAddr(e.ID))
	case "attrs-signed":
		return atypes.NewEventTrustedAuditorCreated(vFwdAddr(e.ID), vFwdAuditor)
	}
	panic("kind " + e.Kind)
}

func vFwdAddr(id uint64) sdk.AccAddress {
	b := make([]byte, 20)
	copy(b, "verif-fwd-")
	for i := 0; i < 8; i++ {
		b[12+i] = byte(id >> (8 * uint(i)))
	}
	return sdk.AccAddress(b)
}

// vFwdKey is the canonical text of a typed event (type name + its chain encoding).
func vFwdKey(ev interface{}) string {
	if m, ok := ev.(sdkutil.ModuleEvent); ok {
		return fmt.Sprintf("%T %v", ev, sdk.StringifyEvent(abci.Event(m.ToSDKEvent())))
	}
	return fmt.Sprintf("%T %v", ev, ev)
}

func (e vFwdEvent) String() string { return fmt.Sprintf("%s/%d/%s/%d", e.Stream, e.Seq, e.Kind, e.ID) }

// vFwdSource is the scripted tendermint event source.
type vFwdSource struct {
	mu     sync.Mutex
	chans  map[string]chan ctypes.ResultEvent
	unsubs map[string]int
}

func (s *vFwdSource) Subscribe(ctx context.Context, subscriber, query string, outCapacity ...int) (<-chan ctypes.ResultEvent, error) {
	s.mu.Lock()
	defer s.mu.Unlock()
	n := 1
	if len(outCapacity) > 0 {
		n = outCapacity[0]
	}
	ch := make(chan ctypes.ResultEvent, n)
	s.chans[query] = ch
	return ch, nil
}
func (s *vFwdSource) Unsubscribe(ctx context.Context, subscriber, query string) error { return nil }
func (s *vFwdSource) UnsubscribeAll(ctx context.Context, subscriber string) error {
	s.mu.Lock()
	defer s.mu.Unlock()
	s.unsubs[subscriber]++
	return nil
}
func (s *vFwdSource) ch(query string) chan ctypes.ResultEvent {
	s.mu.Lock()
	defer s.mu.Unlock()
	return s.chans[query]
}

var vFwdProgress int64

// vFwdWait waits for cond; gives up only when nothing in the process made
// progress for the stall time (bounded progress, not a deadline on the run).
func vFwdWait(cond func() bool, stall time.Duration) bool {
	last := atomic.LoadInt64(&vFwdProgress)
	t0 := time.Now()
	for !cond() {
		time.Sleep(200 * time.Microsecond)
		if p := atomic.LoadInt64(&vFwdProgress); p != last {
			last, t0 = p, time.Now()
		} else if time.Since(t0) > stall {
			return cond()
		}
	}
	return true
}

func vFwdForeign(r *vs.Rand, n int) abci.Event {
	switch r.Intn(4) {
	case 0:
		return abci.Event(sdk.NewEvent("message", sdk.NewAttribute("action", "create-bid"), sdk.NewAttribute("sender", vFwdOwner.String())))
	case 1:
		return abci.Event(sdk.NewEvent("transfer", sdk.NewAttribute("recipient", vFwdOwner.String()), sdk.NewAttribute("amount", fmt.Sprintf("%duakt", n+1))))
	case 2:
		// marketplace module, unknown action: not a marketplace event
		return abci.Event(sdk.NewEvent("akash.v1", sdk.NewAttribute("module", "market"), sdk.NewAttribute("action", "order-exploded"), sdk.NewAttribute("dseq", "1")))
	default:
		// known action, mandatory attribute missing
		return abci.Event(sdk.NewEvent("akash.v1", sdk.NewAttribute("module", "market"), sdk.NewAttribute("action", "order-created"), sdk.NewAttribute("owner", vFwdOwner.String())))
	}
}

func vRunForward(seed int64, run int) *vFwdHistory {
	r := vs.NewRand(seed, uint64(run)+0xF15)
	h := &vFwdHistory{Seed: seed, Run: run, Received: map[string][]string{}}
	// script
	nres := map[string]int{"tx": r.Range(1, 40), "blk": r.Range(1, 40)}
	if r.Chance(1, 5) {
		nres["blk"] = 0
	} else if r.Chance(1, 5) {
		nres["tx"] = 0
	}
	id := uint64(run)*100000 + 1
	seq := map[string]int{}
	for _, stream := range []string{"tx", "blk"} {
		for i := 0; i < nres[stream]; i++ {
			res := vFwdResult{Stream: stream, Foreign: r.Intn(4)}
			if stream == "tx" && r.Chance(1, 8) {
				res.Failed = true
			}
			n := r.Intn(7)
			if r.Chance(1, 6) {
				n = r.Range(8, 30) // a block that closes many orders, a big transaction
			}
			for k := 0; k < n; k++ {
				res.Events = append(res.Events, vFwdEvent{Stream: stream, Seq: seq[stream], Kind: vFwdKinds[r.Intn(len(vFwdKinds))], ID: id})
				seq[stream]++
				id++
			}
			h.Results = append(h.Results, res)
		}
	}
	// expected index: what a received typed event maps back to
	index := map[string]vFwdEvent{}
	var want = map[string][]vFwdEvent{}
	for _, res := range h.Results {
		for _, e := range res.Events {
			key := vFwdKey(vFwdMake(e))
			if !res.Failed {
				index[key] = e
				want[res.Stream] = append(want[res.Stream], e)
			} else {
				index[key] = vFwdEvent{Stream: "failed-" + e.Stream, Seq: e.Seq, Kind: e.Kind, ID: e.ID}
			}
		}
	}
	total := len(want["tx"]) + len(want["blk"])

	bus := pubsub.NewBus()
	nsub := r.Range(1, 3)
	type subState struct {
		name string
		sub  pubsub.Subscriber
		mu   sync.Mutex
		got  []string
		slow int
	}
	var subs []*subState
	var wg sync.WaitGroup
	for i := 0; i < nsub; i++ {
		s, err := bus.Subscribe()
		if err != nil {
			h.Problems = append(h.Problems, "subscribe: "+err.Error())
			return h
		}
		st := &subState{name: fmt.Sprintf("s%d", i), sub: s, slow: []int{0, 0, 1, 2}[r.Intn(4)]}
		subs = append(subs, st)
		wg.Add(1)
		go func() {
			defer wg.Done()
			n := 0
			for {
				var ev pubsub.Event
				select {
				case ev = <-st.sub.Events():
				case <-st.sub.Done():
					return
				}
				key := vFwdKey(ev)
				name := "?" + key
				if e, ok := index[key]; ok {
					name = e.String()
				}
				st.mu.Lock()
				st.got = append(st.got, name)
				st.mu.Unlock()
				atomic.AddInt64(&vFwdProgress, 1)
				n++
				switch st.slow {
				case 1:
					runtime.Gosched()
				case 2:
					if n%7 == 0 {
						time.Sleep(50 * time.Microsecond)
					}
				}
			}
		}()
	}

	src := &vFwdSource{chans: map[string]chan ctypes.ResultEvent{}, unsubs: map[string]int{}}
	ctx, cancel := context.WithCancel(context.Background())
	pubDone := make(chan error, 1)
	go func() { pubDone <- Publish(ctx, src, "verif", bus) }()
	if !vFwdWait(func() bool { return src.ch(txQuery().String()) != nil && src.ch(blkQuery().String()) != nil }, 10*time.Second) {
		h.Problems = append(h.Problems, "Publish did not subscribe to both tendermint streams")
		cancel()
		return h
	}
	chs := map[string]chan ctypes.ResultEvent{"tx": src.ch(txQuery().String()), "blk": src.ch(blkQuery().String())}

	// feed both streams at the same time
	var fw sync.WaitGroup
	for _, stream := range []string{"tx", "blk"} {
		stream := stream
		fr := vs.NewRand(seed, uint64(run)*2+uint64(len(stream))+0xFEED)
		fw.Add(1)
		go func() {
			defer fw.Done()
			for _, res := range h.Results {
				if res.Stream != stream {
					continue
				}
				var evs []abci.Event
				fleft := res.Foreign
				for _, e := range res.Events {
					for fleft > 0 && fr.Chance(1, 2) {
						evs = append(evs, vFwdForeign(fr, fleft))
						fleft--
					}
					evs = append(evs, abci.Event(vFwdMake(e).ToSDKEvent()))
				}
				for ; fleft > 0; fleft-- {
					evs = append(evs, vFwdForeign(fr, fleft))
				}
				var data tmtmtypes.TMEventData
				if stream == "tx" {
					code := uint32(0)
					if res.Failed {
						code = 5
					}
					data = tmtmtypes.EventDataTx{TxResult: abci.TxResult{Height: 1, Result: abci.ResponseDeliverTx{Code: code, Events: evs}}}
				} else {
					data = tmtmtypes.EventDataNewBlockHeader{ResultEndBlock: abci.ResponseEndBlock{Events: evs}}
				}
				chs[stream] <- ctypes.ResultEvent{Data: data}
				atomic.AddInt64(&vFwdProgress, 1)
				if fr.Chance(1, 4) {
					runtime.Gosched()
				}
			}
		}()
	}
	fw.Wait()
	complete := vFwdWait(func() bool {
		for _, st := range subs {
			st.mu.Lock()
			n := len(st.got)
			st.mu.Unlock()
			if n < total {
				return false
			}
		}
		return len(chs["tx"]) == 0 && len(chs["blk"]) == 0
	}, 10*time.Second)
	// let a straggler (a duplicate, an event of a failed transaction) arrive
	for i := 0; i < 20; i++ {
		runtime.Gosched()
	}
	time.Sleep(time.Millisecond)
	cancel()
	select {
	case <-pubDone:
	case <-time.After(20 * time.Second):
		h.Problems = append(h.Problems, "Publish did not return 20 s after its context was cancelled")
	}
	if src.unsubs["verif-tx"] == 0 || src.unsubs["verif-blk"] == 0 {
		h.Problems = append(h.Problems, fmt.Sprintf("Publish returned without unsubscribing from tendermint: %v", src.unsubs))
	}
	bus.Close()
	wg.Wait()
	for _, st := range subs {
		h.Received[st.name] = st.got
	}
	if !complete {
		h.Problems = append(h.Problems, "not every scripted event arrived although nothing made progress for 10 s")
	}
	return h
}

type vFwdViolation struct{ Rule, Trigger, Detail string }

// vCheckForward judges a recorded run.
func vCheckForward(h *vFwdHistory) (out []vFwdViolation) {
	want := map[string][]string{}
	for _, res := range h.Results {
		if res.Failed {
			continue
		}
		for _, e := range res.Events {
			want[res.Stream] = append(want[res.Stream], e.String())
		}
	}
	both := len(want["tx"]) > 0 && len(want["blk"]) > 0
	trig := "one-stream"
	if both {
		trig = "both-streams-busy"
	}
	for _, p := range h.Problems {
		if len(p) > 3 && p[:3] == "not" {
			continue // judged below, per event
		}
		out = append(out, vFwdViolation{"forwarder-lifecycle", trig, p})
	}
	for name, got := range h.Received {
		count := map[string]int{}
		perStream := map[string][]string{}
		for _, g := range got {
			count[g]++
			switch {
			case len(g) > 0 && g[0] == '?':
				out = append(out, vFwdViolation{"only-scripted-events-forwarded", trig, fmt.Sprintf("subscriber %s received an event no result carried (altered or invented): %s", name, g)})
			case len(g) > 7 && g[:7] == "failed-":
				out = append(out, vFwdViolation{"failed-transaction-not-forwarded", trig, fmt.Sprintf("subscriber %s received %s, an event of a failed transaction", name, g)})
			case len(g) > 3 && g[:3] == "tx/":
				perStream["tx"] = append(perStream["tx"], g)
			default:
				perStream["blk"] = append(perStream["blk"], g)
			}
		}
		for _, stream := range []string{"tx", "blk"} {
			for _, w := range want[stream] {
				switch c := count[w]; {
				case c == 0:
					out = append(out, vFwdViolation{"forwarded-exactly-once", trig, fmt.Sprintf("subscriber %s never received %s (run %d, seed %d)", name, w, h.Run, h.Seed)})
				case c > 1:
					out = append(out, vFwdViolation{"forwarded-exactly-once", trig, fmt.Sprintf("subscriber %s received %s %d times", name, w, c)})
				}
			}
			// order within the stream (over the events received once)
			pos := map[string]int{}
			for i, w := range want[stream] {
				pos[w] = i
			}
			last := -1
			for _, g := range perStream[stream] {
				p, ok := pos[g]
				if !ok || count[g] != 1 {
					continue
				}
				if p < last {
					out = append(out, vFwdViolation{"forwarded-in-stream-order", trig, fmt.Sprintf("subscriber %s received %s after a later event of the same stream", name, g)})
					break
				}
				last = p
			}
		}
		if len(out) > 12 {
			break
		}
	}
	return out
}

func TestVerif_C15(t *testing.T) {
	res := vs.NewResult("C15", "exploration",
		"stage forward: the real events.Publish between a scripted tendermint event source and a real bus; transaction results and block results (1-40 each, 0-30 marketplace events per result, 12 event kinds, foreign / unknown-action / incomplete events mixed in, failed transactions) fed concurrently by two goroutines, 1-3 subscribers of differing speed; judged per subscriber: every marketplace event of a successful result received exactly once, unaltered, in the order of its stream, nothing of a failed transaction, nothing invented; Publish unsubscribes and returns when cancelled. distinct = (results per stream, subscribers, events) classes")
	res.Assume("hang detection is bounded progress: a run is given up when nothing in the process made progress for 10 s")
	for _, f := range []string{"runs_both_streams_busy", "events_received_observed", "failed_transactions_fed", "foreign_events_fed"} {
		res.Floor(f, 1)
	}
	defer func() {
		if err := res.Write(); err != nil {
			t.Fatalf("cannot write result: %v", err)
		}
		if n := res.Violations(); n > 0 {
			t.Errorf("%d violation(s) recorded", n)
		}
	}()
	if rp := vs.ReplayFile(); rp != "" {
		var h vFwdHistory
		if err := vs.LoadReplay(rp, &h); err != nil {
			t.Fatalf("replay: %v", err)
		}
		// the recorded run is judged again and the same script is run afresh
		for _, v := range vCheckForward(&h) {
			res.AddViolation(v.Rule, "C15/forward/"+v.Rule+"/"+v.Trigger, v.Detail, &h)
		}
		for i := 0; i < 50 && res.Violations() == 0; i++ {
			h2 := vRunForward(h.Seed, h.Run)
			for _, v := range vCheckForward(h2) {
				res.AddViolation(v.Rule, "C15/forward/"+v.Rule+"/"+v.Trigger, v.Detail, h2)
			}
		}
		res.Eval(1)
		return
	}
	runs := vs.Scale(600, 20000)
	if vs.Stage() == "forwardrace" {
		runs = vs.Scale(150, 3000)
	}
	seed := vs.Seed()
	workers := runtime.NumCPU() / 2
	if workers < 2 {
		workers = 2
	}
	vs.Parallel(runs, workers, func(i int) {
		if res.Violations() >= 6 {
			return
		}
		h := vRunForward(seed, i)
		res.Eval(1)
		ntx, nblk, failed, foreign, nev := 0, 0, 0, 0, 0
		for _, r := range h.Results {
			if r.Stream == "tx" {
				ntx++
			} else {
				nblk++
			}
			if r.Failed {
				failed++
			}
			foreign += r.Foreign
		}
		for _, g := range h.Received {
			nev += len(g)
		}
		if ntx > 0 && nblk > 0 {
			res.Count("runs_both_streams_busy", 1)
		}
		res.Count("events_received_observed", nev)
		res.Count("failed_transactions_fed", failed)
		res.Count("foreign_events_fed", foreign)
		res.Distinct(fmt.Sprintf("tx=%d|blk=%d|subs=%d|ev=%d", ntx/5, nblk/5, len(h.Received), nev/40))
		for _, v := range vCheckForward(h) {
			res.AddViolation(v.Rule, "C15/forward/"+v.Rule+"/"+v.Trigger, v.Detail, h)
		}
		if res.WantSample() && nev < 40 && ntx > 0 && nblk > 0 {
			res.Sample(h)
		}
	})
}
