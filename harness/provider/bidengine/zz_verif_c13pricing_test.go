//go:build verif
// +build verif

package bidengine

// C13, real pricing strategies — "never above the order's maximum price".
// The stepping scenarios script the price; here the real order pipeline runs
// with the three real strategies of pricing.go (scale, random range, shell
// script) over generated group specifications, with strategy parameters
// chosen so that the computed price falls below, exactly on, one above and
// far above the order's maximum, overflows, is zero or negative, or the
// script fails / prints garbage / outlives its time limit.  Judged with the
// same oracle as every other C13 run (vJudgeCalls): at most one bid, price in
// the order's denomination and not above its maximum, reservation released
// and bid closed when the order ends without a lease.

import (
	"context"
	"fmt"
	"io/ioutil"
	"os"
	"path/filepath"
	"strings"
	"sync/atomic"
	"time"

	lifecycle "github.com/boz/go-lifecycle"
	sdk "github.com/cosmos/cosmos-sdk/types"
	"github.com/shopspring/decimal"
	"github.com/tendermint/tendermint/libs/log"

	"github.com/ovrclk/akash/pubsub"
	"github.com/ovrclk/akash/types"
	"github.com/ovrclk/akash/types/unit"
	vs "github.com/ovrclk/akash/verifsupport"
	"github.com/ovrclk/akash/verifsupport/venv"
	dtypes "github.com/ovrclk/akash/x/deployment/types"
	mtypes "github.com/ovrclk/akash/x/market/types"
	ptypes "github.com/ovrclk/akash/x/provider/types"
)

// vGuardedPricing runs the real strategy; a panic inside it is turned into an
// error and counted (in the provider it would end the process: the strategy
// runs in a goroutine of its own, see DESIGN 11.2 observations).
type vGuardedPricing struct {
	inner  BidPricingStrategy
	panics *int32
	last   *atomic.Value
}

func (p vGuardedPricing) CalculatePrice(ctx context.Context, owner string, gspec *dtypes.GroupSpec) (c sdk.Coin, err error) {
	defer func() {
		if r := recover(); r != nil {
			atomic.AddInt32(p.panics, 1)
			c, err = sdk.Coin{}, fmt.Errorf("pricing strategy panicked: %v", r)
		}
		if err == nil {
			p.last.Store(c.String())
		} else {
			p.last.Store("error: " + err.Error())
		}
	}()
	return p.inner.CalculatePrice(ctx, owner, gspec)
}

type vPricingCase struct {
	Index    int               `json:"index"`
	Strategy string            `json:"strategy"`
	Param    string            `json:"parameter"`
	Units    []vPricingUnit    `json:"units"`
	Max      string            `json:"order_maximum"`
	Priced   string            `json:"strategy_returned"`
	Calls    []vs.GateCallView `json:"calls"`
}

type vPricingUnit struct {
	CPU, Mem, Sto uint64
	Count         uint32
	Endpoints     int
	Price         int64
}

func vPricingSpec(us []vPricingUnit) dtypes.GroupSpec {
	gs := dtypes.GroupSpec{Name: "g"}
	for _, u := range us {
		ru := types.ResourceUnits{CPU: &types.CPU{Units: types.NewResourceValue(u.CPU)}, Memory: &types.Memory{Quantity: types.NewResourceValue(u.Mem)}, Storage: &types.Storage{Quantity: types.NewResourceValue(u.Sto)}}
		for e := 0; e < u.Endpoints; e++ {
			ru.Endpoints = append(ru.Endpoints, types.Endpoint{})
		}
		gs.Resources = append(gs.Resources, dtypes.Resource{Resources: ru, Count: u.Count, Price: sdk.NewInt64Coin("uakt", u.Price)})
	}
	return gs
}

// vRunPricingCase runs one order through the real pipeline with the given strategy.
func vRunPricingCase(c *vPricingCase, strat BidPricingStrategy, panics *int32) (viol []vOrderViolation, bid bool, note string) {
	g := vs.NewGates()
	bus := pubsub.NewBus()
	defer bus.Close()
	sub, _ := bus.Subscribe()
	prov := sdk.AccAddress([]byte("verif-provider-00000"))
	owner := sdk.AccAddress([]byte("verif-tenant-0000000"))
	oid := mtypes.OrderID{Owner: owner.String(), DSeq: uint64(1000 + c.Index), GSeq: 1, OSeq: 1}
	group := dtypes.Group{GroupID: oid.GroupID(), State: dtypes.GroupOpen, GroupSpec: vPricingSpec(c.Units)}
	max := group.GroupSpec.Price()
	c.Max = max.String()
	last := &atomic.Value{}
	last.Store("not called")
	cfg := Config{PricingStrategy: vGuardedPricing{inner: strat, panics: panics, last: last}, Deposit: sdk.NewInt64Coin("uakt", 5000000)}
	g.Auto(venv.KQueryGroup, func(interface{}) (interface{}, error) { return &dtypes.QueryGroupResponse{Group: group}, nil })
	g.Auto(vKReserve, func(interface{}) (interface{}, error) { return nil, nil })
	g.Auto(vKUnreserve, func(interface{}) (interface{}, error) { return nil, nil })
	g.Auto(vKCloseBid, func(interface{}) (interface{}, error) { return nil, nil })
	osub, _ := sub.Clone()
	o := &order{cfg: cfg, orderID: oid, session: venv.NewSession(g, &ptypes.Provider{Owner: prov.String()}), cluster: &vCluster{g: g},
		bus: bus, sub: osub, log: log.NewNopLogger(), lc: lifecycle.New(), pass: &vPass{g: g}}
	vs.InitNilMaps(o)
	go o.run(false)
	// either a bid is broadcast or the order gives up by itself
	deadline := time.Now().Add(vOrderTimeout)
	for time.Now().Before(deadline) {
		if call := g.Pending(vKCreateBid); call != nil {
			bid = true
			g.Release(call, nil, nil)
			g.WaitEnded(call, vOrderTimeout)
			break
		}
		select {
		case <-o.lc.ShuttingDown():
			deadline = time.Now()
		default:
			time.Sleep(100 * time.Microsecond)
		}
	}
	if bid {
		// the tenant closes the order: handling ends without a lease
		_ = bus.Publish(mtypes.NewEventOrderClosed(oid))
	}
	select {
	case <-o.lc.Done():
	case <-time.After(vOrderTimeout):
		go o.lc.ShutdownAsync(nil)
		select {
		case <-o.lc.Done():
			note = "the order ended only after a shutdown request"
		case <-time.After(vOrderTimeout):
			return []vOrderViolation{{"order-terminates", c.Strategy, "the order did not terminate"}}, bid, ""
		}
	}
	c.Priced, _ = last.Load().(string)
	c.Calls = g.Log()
	for i := range c.Calls {
		c.Calls[i].Arg = ""
	}
	for _, v := range vJudgeCalls(g.Calls(), oid, prov, max, false) {
		viol = append(viol, vOrderViolation{v.Rule, "real-pricing:" + c.Strategy, fmt.Sprintf("strategy %s (%s), units %+v, order maximum %s, strategy returned %s: %s; calls: %s", c.Strategy, c.Param, c.Units, max, c.Priced, v.Detail, vOrderCalls(c.Calls))})
	}
	return viol, bid, note
}

func vRealPricingPass(res *vs.Result) {
	for _, f := range []string{"real_pricing_cases", "real_pricing_bids_placed", "real_pricing_refused_above_maximum_or_error", "real_pricing_exactly_the_maximum", "real_pricing_one_above_the_maximum_refused"} {
		res.Floor(f, 1)
	}
	dir, err := ioutil.TempDir("", "verif-c13-scripts")
	if err != nil {
		res.Inconclusive("cannot create a directory for the pricing scripts: " + err.Error())
		return
	}
	defer os.RemoveAll(dir)
	script := func(name, body string) string {
		p := filepath.Join(dir, name)
		_ = ioutil.WriteFile(p, []byte("#!/bin/sh\ncat >/dev/null\n"+body+"\n"), 0o755)
		return p
	}
	seed := vs.Seed()
	n := vs.Scale(240, 6000)
	var panics int32
	vs.Parallel(n, 8, func(i int) {
		r := vs.NewRand(seed, uint64(i)+0xC13F)
		c := &vPricingCase{Index: i}
		nu := r.Range(1, 3)
		for k := 0; k < nu; k++ {
			c.Units = append(c.Units, vPricingUnit{CPU: uint64(r.Range(1, 40)) * 25, Mem: uint64(r.Range(1, 2048)) * unit.Mi, Sto: uint64(r.Range(5, 4096)) * unit.Mi,
				Count: uint32(r.Range(1, 5)), Endpoints: r.Intn(3), Price: int64([]int{1, 10, 1000, 1000000}[r.Intn(4)] * r.Range(1, 9))})
		}
		if c.Units[0].Endpoints == 0 {
			c.Units[0].Endpoints = 1
		}
		spec := vPricingSpec(c.Units)
		max := spec.Price().Amount.Int64()
		nEnd := 0
		for _, u := range c.Units {
			nEnd += u.Endpoints
		}
		var strat BidPricingStrategy
		target := []string{"below", "max", "max+1", "max+fraction", "far-above", "overflow", "tiny"}[r.Intn(7)]
		switch i % 3 {
		case 0:
			c.Strategy = "scale"
			z := decimal.NewFromInt(0)
			// price = endpoints x scale (the other scales zero), so the target is hit exactly
			var es decimal.Decimal
			switch target {
			case "below":
				es = decimal.NewFromInt(max).Div(decimal.NewFromInt(int64(nEnd) * 2))
			case "max":
				es = decimal.NewFromInt(max).Div(decimal.NewFromInt(int64(nEnd)))
			case "max+1":
				es = decimal.NewFromInt(max + 1).Div(decimal.NewFromInt(int64(nEnd)))
			case "max+fraction":
				es = decimal.NewFromInt(max).Div(decimal.NewFromInt(int64(nEnd))).Add(decimal.New(1, -9))
			case "far-above":
				es = decimal.NewFromInt(max).Mul(decimal.NewFromInt(1000))
			case "overflow":
				es = decimal.New(1, 30)
			default:
				es = decimal.New(1, -12)
			}
			c.Param = fmt.Sprintf("endpoint scale %s (%s)", es.String(), target)
			cs, ms, ss := z, z, z
			if r.Chance(1, 3) {
				// all four scales in play
				cs, ms, ss = decimal.New(int64(r.Range(0, 50)), -3), decimal.New(int64(r.Range(0, 50)), -3), decimal.New(int64(r.Range(0, 50)), -4)
				c.Param += fmt.Sprintf(" + cpu %s, memory %s, storage %s", cs, ms, ss)
			}
			strat, err = MakeScalePricing(cs, ms, ss, es)
			if err != nil {
				return
			}
		case 1:
			c.Strategy = "random-range"
			c.Param = "-"
			strat, _ = MakeRandomRangePricing()
		default:
			c.Strategy = "shell-script"
			body := map[string]string{"below": fmt.Sprintf("echo %d", max/2+1), "max": fmt.Sprintf("echo %d", max), "max+1": fmt.Sprintf("echo %d", max+1),
				"max+fraction": fmt.Sprintf("echo %d.5", max), "far-above": fmt.Sprintf("echo %d000", max), "overflow": "echo 99999999999999999999999", "tiny": "echo 0"}[target]
			switch r.Intn(8) {
			case 0:
				body = "echo -5"
			case 1:
				body = "echo not-a-number"
			case 2:
				body = "exit 3"
			case 3:
				body = "sleep 2; echo 1"
			}
			c.Param = body
			strat, err = MakeShellScriptPricing(script(fmt.Sprintf("s%d.sh", i), body), 4, 300*time.Millisecond)
			if err != nil {
				return
			}
		}
		viol, bid, note := vRunPricingCase(c, strat, &panics)
		res.Eval(1)
		res.Count("real_pricing_cases", 1)
		res.Count("real_pricing_"+c.Strategy, 1)
		if bid {
			res.Count("real_pricing_bids_placed", 1)
			if c.Priced == c.Max {
				res.Count("real_pricing_exactly_the_maximum", 1)
			}
		} else {
			res.Count("real_pricing_refused_above_maximum_or_error", 1)
			if target == "max+1" && c.Priced != "not called" && !strings.HasPrefix(c.Priced, "error") {
				res.Count("real_pricing_one_above_the_maximum_refused", 1)
			}
		}
		if note != "" {
			res.Count("real_pricing_ended_by_shutdown", 1)
		}
		res.Distinct(fmt.Sprintf("pricing|%s|%s|bid=%v", c.Strategy, target, bid))
		if c.Priced == "not called" {
			res.Count("real_pricing_strategy_not_reached", 1)
		}
		for _, v := range viol {
			res.AddViolation(v.Rule, "C13/"+v.Rule+"/"+v.Trigger, v.Detail, c)
		}
	})
	if p := atomic.LoadInt32(&panics); p > 0 {
		res.Count("real_pricing_strategy_panicked", int(p))
	}
}
