//go:build verif
// +build verif

package bidengine

// C13 — bid engine: at most one bounded bid per order, no leaked
// reservations or bids.  DESIGN.md §5 C13 (engine E3, fault enumeration):
// the real order.run loop is stepped through its loop-top hook; every
// pipeline step (existing-bid query, group fetch, attribute signatures,
// reservation, pricing, bid broadcast) is a scripted call that blocks until
// the harness releases it.  For every pipeline point in flight an event
// (order closed / lease won / lease lost / shutdown / bid timeout) is
// injected and the in-flight step is then released with success or failure;
// the call log is judged when the order has terminated.

import (
	"context"
	"errors"
	"fmt"
	"runtime"
	"strings"
	"sync"
	"testing"
	"time"

	lifecycle "github.com/boz/go-lifecycle"
	sdk "github.com/cosmos/cosmos-sdk/types"
	"github.com/tendermint/tendermint/libs/log"

	ctypes "github.com/ovrclk/akash/provider/cluster/types"
	"github.com/ovrclk/akash/pubsub"
	"github.com/ovrclk/akash/types"
	"github.com/ovrclk/akash/types/unit"
	"github.com/ovrclk/akash/util/verifhook"
	vs "github.com/ovrclk/akash/verifsupport"
	"github.com/ovrclk/akash/verifsupport/venv"
	audittypes "github.com/ovrclk/akash/x/audit/types"
	dtypes "github.com/ovrclk/akash/x/deployment/types"
	mtypes "github.com/ovrclk/akash/x/market/types"
	ptypes "github.com/ovrclk/akash/x/provider/types"
)

const (
	vKReserve   = "reserve"
	vKUnreserve = "unreserve"
	vKPrice     = "price"
	vKSig       = "signatures"
	vKCreateBid = venv.KBroadcast + ":" + mtypes.MsgTypeCreateBid
	vKCloseBid  = venv.KBroadcast + ":" + mtypes.MsgTypeCloseBid
)

var vOrderRouter = &vs.HookRouter{}

// ---- scripted environment ---------------------------------------------------

type vReservation struct {
	oid mtypes.OrderID
	res types.ResourceGroup
}

func (r *vReservation) OrderID() mtypes.OrderID        { return r.oid }
func (r *vReservation) Resources() types.ResourceGroup { return r.res }

type vCluster struct{ g *vs.Gates }

func (c *vCluster) Reserve(oid mtypes.OrderID, rg types.ResourceGroup) (ctypes.Reservation, error) {
	if _, err := c.g.Enter(vKReserve, oid); err != nil {
		return nil, err
	}
	return &vReservation{oid: oid, res: rg}, nil
}

func (c *vCluster) Unreserve(oid mtypes.OrderID) error {
	_, err := c.g.Enter(vKUnreserve, oid)
	return err
}

type vPricing struct{ g *vs.Gates }

func (p *vPricing) CalculatePrice(ctx context.Context, owner string, gspec *dtypes.GroupSpec) (sdk.Coin, error) {
	v, err := p.g.Enter(vKPrice, owner)
	if err != nil {
		return sdk.Coin{}, err
	}
	return v.(sdk.Coin), nil
}

type vPass struct{ g *vs.Gates }

func (p *vPass) GetAuditorAttributeSignatures(auditor string) ([]audittypes.Provider, error) {
	v, err := p.g.Enter(vKSig, auditor)
	if err != nil {
		return nil, err
	}
	return v.([]audittypes.Provider), nil
}

// ---- scenario ---------------------------------------------------------------

// pipeline points in order
var vPoints = []string{"q", "g", "s", "r", "p", "b", "w"}

var vPointKind = map[string]string{"q": venv.KQueryBid, "g": venv.KQueryGroup, "s": vKSig, "r": vKReserve, "p": vKPrice, "b": vKCreateBid}

type vOrderScenario struct {
	Name string `json:"name"`
	// Point at which Event is injected ("" = none); the steps before it succeed.
	Point string `json:"point,omitempty"`
	Event string `json:"event,omitempty"` // order-closed | lease-won | lease-lost | shutdown | bid-timeout | unrelated
	// Outcome of the step in flight at Point: ok | err
	Outcome string `json:"outcome,omitempty"`
	// FailAt: the step at this point fails (single failure, no event)
	FailAt string `json:"fail_at,omitempty"`
	// variations of step results
	ExistingBid string `json:"existing_bid,omitempty"` // "" (not queried) | found | notfound
	Eligible    string `json:"eligible,omitempty"`     // "" yes | no-attrs | no-signatures
	Price       string `json:"price,omitempty"`        // "" below | max | above | other-denom
	AfterWait   string `json:"after_wait,omitempty"`   // event injected once waiting
	Free        bool   `json:"free,omitempty"`
}

type vOrderRun struct {
	Scenario vOrderScenario    `json:"scenario"`
	Calls    []vs.GateCallView `json:"calls"`
	Notes    []string          `json:"notes,omitempty"`
	Done     bool              `json:"order_done"`
	Won      bool              `json:"won"`
	LeaseWon int               `json:"lease_won_events_published"`
}

type vOrderState struct {
	o     *order
	g     *vs.Gates
	st    *vs.Stepper
	bus   pubsub.Bus
	sub   pubsub.Subscriber
	group dtypes.Group
	prov  sdk.AccAddress
	oid   mtypes.OrderID
	run   *vOrderRun
	sc    vOrderScenario
	max   sdk.Coin
}

const vOrderTimeout = 20 * time.Second

var errScripted = errors.New("scripted failure")

func vNewOrderState(sc vOrderScenario) *vOrderState {
	g := vs.NewGates()
	s := &vOrderState{g: g, st: vs.NewStepper(), sc: sc, run: &vOrderRun{Scenario: sc}}
	s.bus = pubsub.NewBus()
	s.sub, _ = s.bus.Subscribe()
	s.prov = sdk.AccAddress([]byte("verif-provider-00000"))
	owner := sdk.AccAddress([]byte("verif-tenant-0000000"))
	auditor := sdk.AccAddress([]byte("verif-auditor-000000"))
	s.oid = mtypes.OrderID{Owner: owner.String(), DSeq: 12, GSeq: 1, OSeq: 1}
	s.group = dtypes.Group{
		GroupID: s.oid.GroupID(),
		State:   dtypes.GroupOpen,
		GroupSpec: dtypes.GroupSpec{
			Name: "g",
			Requirements: types.PlacementRequirements{
				Attributes: types.Attributes{{Key: "region", Value: "a"}},
				SignedBy:   types.SignedBy{AnyOf: []string{auditor.String()}},
			},
			Resources: []dtypes.Resource{{
				Resources: types.ResourceUnits{
					CPU:     &types.CPU{Units: types.NewResourceValue(100)},
					Memory:  &types.Memory{Quantity: types.NewResourceValue(64 * unit.Mi)},
					Storage: &types.Storage{Quantity: types.NewResourceValue(64 * unit.Mi)},
				},
				Count: 2,
				Price: sdk.NewInt64Coin("uakt", 50),
			}},
		},
	}
	s.max = s.group.GroupSpec.Price() // 100uakt
	attrs := types.Attributes{{Key: "region", Value: "a"}}
	if sc.Eligible == "no-attrs" {
		attrs = types.Attributes{{Key: "region", Value: "b"}}
	}
	provider := &ptypes.Provider{Owner: s.prov.String(), Attributes: attrs}
	cfg := Config{PricingStrategy: &vPricing{g: g}, Deposit: sdk.NewInt64Coin("uakt", 5000000)}
	if sc.Event == "bid-timeout" || sc.AfterWait == "bid-timeout" {
		cfg.BidTimeout = 3 * time.Millisecond
	}
	osub, _ := s.sub.Clone()
	o := &order{
		cfg:     cfg,
		orderID: s.oid,
		session: venv.NewSession(g, provider),
		cluster: &vCluster{g: g},
		bus:     s.bus,
		sub:     osub,
		log:     log.NewNopLogger(),
		lc:      lifecycle.New(),
		pass:    &vPass{g: g},
	}
	vs.InitNilMaps(o)
	s.o = o
	// cleanup-side calls return at once: they are made synchronously by the
	// order's goroutine after it left its loop
	g.Auto(vKUnreserve, func(interface{}) (interface{}, error) { return nil, nil })
	g.Auto(vKCloseBid, func(interface{}) (interface{}, error) { return nil, nil })
	if !sc.Free {
		vOrderRouter.Register(o, s.st)
	}
	go o.run(sc.ExistingBid != "")
	return s
}

func (s *vOrderState) note(f string, a ...interface{}) {
	s.run.Notes = append(s.run.Notes, fmt.Sprintf(f, a...))
}

func (s *vOrderState) done() bool {
	select {
	case <-s.o.lc.Done():
		return true
	default:
		return false
	}
}

func (s *vOrderState) leftLoop() bool {
	select {
	case <-s.o.lc.ShuttingDown():
		return true
	default:
		return false
	}
}

// step grants one loop iteration and waits until the loop is parked again
// (or has left the loop).
func (s *vOrderState) step() bool {
	if s.sc.Free {
		return true
	}
	s.st.Grant(1)
	r := s.st.WaitParked(s.o.lc.ShuttingDown(), vOrderTimeout)
	if r == "timeout" {
		s.note("loop neither parked nor left after a step")
		return false
	}
	return true
}

// resultFor gives the success value of a pipeline step.
func (s *vOrderState) resultFor(point string) (interface{}, error) {
	switch point {
	case "q":
		if s.sc.ExistingBid == "found" {
			return &mtypes.QueryBidResponse{Bid: mtypes.Bid{BidID: mtypes.MakeBidID(s.oid, s.prov), State: mtypes.BidOpen, Price: sdk.NewInt64Coin("uakt", 10)}}, nil
		}
		return nil, errors.New("rpc error: code = NotFound desc = bid not found: invalid request")
	case "g":
		return &dtypes.QueryGroupResponse{Group: s.group}, nil
	case "s":
		at := types.Attributes{{Key: "region", Value: "a"}}
		if s.sc.Eligible == "no-signatures" {
			at = types.Attributes{{Key: "tier", Value: "x"}}
		}
		return []audittypes.Provider{{Owner: s.prov.String(), Auditor: s.group.GroupSpec.Requirements.SignedBy.AnyOf[0], Attributes: at}}, nil
	case "p":
		switch s.sc.Price {
		case "max":
			return s.max, nil
		case "above":
			return s.max.Add(sdk.NewInt64Coin("uakt", 1)), nil
		case "other-denom":
			return sdk.NewInt64Coin("uother", 1), nil
		}
		return sdk.NewInt64Coin("uakt", 60), nil
	}
	return nil, nil
}

func (s *vOrderState) publish(ev string) {
	lid := mtypes.MakeLeaseID(mtypes.MakeBidID(s.oid, s.prov))
	switch ev {
	case "order-closed":
		_ = s.bus.Publish(mtypes.NewEventOrderClosed(s.oid))
	case "lease-won":
		s.run.LeaseWon++
		_ = s.bus.Publish(mtypes.NewEventLeaseCreated(lid, sdk.NewInt64Coin("uakt", 60)))
	case "lease-lost":
		other := mtypes.MakeLeaseID(mtypes.MakeBidID(s.oid, sdk.AccAddress([]byte("verif-provider-99999"))))
		_ = s.bus.Publish(mtypes.NewEventLeaseCreated(other, sdk.NewInt64Coin("uakt", 55)))
	case "unrelated":
		o2 := s.oid
		o2.DSeq = 13
		_ = s.bus.Publish(mtypes.NewEventOrderClosed(o2))
	case "sibling-lease-won":
		// this provider wins the lease of ANOTHER group of the same deployment
		// (same order sequence number, as every group's first order has): not
		// this order's lease
		o2 := s.oid
		o2.GSeq = s.oid.GSeq + 1
		_ = s.bus.Publish(mtypes.NewEventLeaseCreated(mtypes.MakeLeaseID(mtypes.MakeBidID(o2, s.prov)), sdk.NewInt64Coin("uakt", 60)))
	case "sibling-order-closed":
		o2 := s.oid
		o2.GSeq = s.oid.GSeq + 1
		_ = s.bus.Publish(mtypes.NewEventOrderClosed(o2))
		// (a lease for a LATER order of the same group is not a possible input:
		// the chain opens order n+1 of a group only after order n was closed or
		// matched, and either event has ended this order's handling before; the
		// real filter compares the group, not the order sequence number, and
		// relies on that)
	}
}

// inject delivers an event to the loop as its only ready input.
func (s *vOrderState) inject(ev string) bool {
	switch ev {
	case "shutdown":
		go s.o.lc.ShutdownAsync(nil)
	case "bid-timeout":
		// the timer started when the bid was placed; it is the only input
	default:
		s.publish(ev)
	}
	return s.step()
}

// execute drives the scenario in stepping mode.
func (s *vOrderState) execute() {
	sc := s.sc
	if r := s.st.WaitParked(s.o.lc.ShuttingDown(), vOrderTimeout); r == "timeout" {
		s.note("order did not reach its loop")
		return
	}
	start := 0
	if sc.ExistingBid == "" {
		start = 1 // no existing-bid query
	}
	for i := start; i < len(vPoints); i++ {
		pt := vPoints[i]
		if s.leftLoop() {
			return
		}
		if pt == "w" {
			ev := sc.AfterWait
			if sc.Point == "w" {
				ev = sc.Event
			}
			if ev != "" {
				s.inject(ev)
			}
			return
		}
		kind := vPointKind[pt]
		// a step the order does not take on this path (e.g. no pricing when a
		// bid already exists) never registers: move on
		c := s.g.WaitPending(kind, 150*time.Millisecond)
		if c == nil {
			continue
		}
		if sc.Point == pt {
			// the event arrives while this step is in flight, then the step completes
			s.inject(sc.Event)
			v, err := s.resultFor(pt)
			if sc.Outcome == "err" {
				v, err = nil, errScripted
			}
			s.g.Release(c, v, err)
			s.g.WaitEnded(c, vOrderTimeout)
			if s.leftLoop() {
				return
			}
			// the event did not end the order (an unrelated event): go on
			if !s.step() {
				return
			}
			continue
		}
		v, err := s.resultFor(pt)
		if sc.FailAt == pt {
			v, err = nil, errScripted
		}
		s.g.Release(c, v, err)
		s.g.WaitEnded(c, vOrderTimeout)
		if !s.step() {
			return
		}
	}
}

// finish releases everything still in flight successfully and waits for the
// order to terminate.
func (s *vOrderState) finish() bool {
	s.st.Free()
	deadline := time.Now().Add(vOrderTimeout)
	asked := false
	for time.Now().Before(deadline) {
		if s.done() {
			return true
		}
		n := s.g.ReleaseAll(func(c *vs.GateCall) (interface{}, error) {
			for pt, k := range vPointKind {
				if k == c.Kind {
					return s.resultFor(pt)
				}
			}
			return nil, nil
		})
		if n == 0 && !s.leftLoop() && !asked {
			// still waiting for chain events: end the order's life
			asked = true
			go s.o.lc.ShutdownAsync(nil)
		}
		time.Sleep(200 * time.Microsecond)
	}
	return s.done()
}

func (s *vOrderState) cleanup() {
	vOrderRouter.Unregister(s.o)
	s.bus.Close()
}

// ---- oracle -----------------------------------------------------------------

type vOrderViolation struct{ Rule, Trigger, Detail string }

func vJudgeOrder(s *vOrderState, terminated bool) []vOrderViolation {
	run := s.run
	trig := s.sc.Name
	if !terminated {
		return []vOrderViolation{{"order-terminates", trig, fmt.Sprintf("scenario %s: the order did not terminate after every scripted call was released and shutdown was requested; calls: %s", s.sc.Name, vOrderCalls(run.Calls))}}
	}
	won := run.LeaseWon > 0
	run.Won = won
	var out []vOrderViolation
	for _, v := range vJudgeCalls(s.g.Calls(), s.oid, s.prov, s.max, won) {
		out = append(out, vOrderViolation{v.Rule, trig, fmt.Sprintf("scenario %s: %s; calls: %s", s.sc.Name, v.Detail, vOrderCalls(run.Calls))})
	}
	return out
}

// vJudgeCalls is the oracle proper: the scripted calls made on behalf of one
// order, judged once handling of that order has ended.
func vJudgeCalls(calls []*vs.GateCall, oid mtypes.OrderID, prov sdk.AccAddress, max sdk.Coin, won bool) []vOrderViolation {
	var out []vOrderViolation
	bad := func(rule, detail string) {
		out = append(out, vOrderViolation{Rule: rule, Detail: detail})
	}
	var creates, closes, reservesOK, unreserves []*vs.GateCall
	existingFound := false
	for _, c := range calls {
		switch c.Kind {
		case vKCreateBid:
			creates = append(creates, c)
		case vKCloseBid:
			closes = append(closes, c)
		case vKReserve:
			if c.Err == "" && c.End != 0 {
				reservesOK = append(reservesOK, c)
			}
		case vKUnreserve:
			unreserves = append(unreserves, c)
		case venv.KQueryBid:
			if c.Err == "" && c.End != 0 {
				existingFound = true
			}
		}
	}
	if len(creates) > 1 {
		bad("at-most-one-bid", fmt.Sprintf("%d create-bid transactions were submitted", len(creates)))
	}
	bidLanded := false
	for _, c := range creates {
		msgs, _ := c.Arg.([]sdk.Msg)
		if len(msgs) != 1 {
			bad("bid-is-one-message", "create-bid broadcast carried several messages")
			continue
		}
		m, ok := msgs[0].(*mtypes.MsgCreateBid)
		if !ok {
			continue
		}
		if m.Price.Denom != max.Denom || m.Price.Amount.GT(max.Amount) {
			bad("bid-never-above-order-maximum", fmt.Sprintf("bid price %s, order maximum %s", m.Price, max))
		}
		if !m.Order.Equals(oid) || m.Provider != prov.String() {
			bad("bid-names-this-order-and-provider", fmt.Sprintf("bid for %v by %s", m.Order, m.Provider))
		}
		reservedBefore := false
		for _, r := range reservesOK {
			if r.End < c.Start {
				reservedBefore = true
			}
		}
		if !reservedBefore {
			bad("bid-only-after-reservation", "create-bid was broadcast before any reservation had succeeded")
		}
		if c.Err == "" && c.End != 0 {
			bidLanded = true
		}
	}
	if !won {
		if len(unreserves) < len(reservesOK) {
			bad("reservation-released-when-not-won", fmt.Sprintf("%d reservation(s) succeeded, %d release(s) were requested", len(reservesOK), len(unreserves)))
		}
		if (bidLanded || existingFound) && len(closes) == 0 {
			why := "a bid was placed"
			if existingFound && !bidLanded {
				why = "an existing bid was found"
			}
			bad("bid-closed-when-not-won", why+" but no close-bid transaction was submitted")
		}
		for _, c := range closes {
			msgs, _ := c.Arg.([]sdk.Msg)
			if len(msgs) == 1 {
				if m, ok := msgs[0].(*mtypes.MsgCloseBid); ok && (!m.BidID.OrderID().Equals(oid) || m.BidID.Provider != prov.String()) {
					bad("close-bid-names-own-bid", fmt.Sprintf("close-bid for %v", m.BidID))
				}
			}
		}
	}
	return out
}

func vOrderCalls(cs []vs.GateCallView) string {
	var ss []string
	for _, c := range cs {
		x := fmt.Sprintf("%s@%d-%d", strings.TrimPrefix(c.Kind, "broadcast:"), c.Start, c.End)
		if c.Err != "" {
			x += "!err"
		}
		ss = append(ss, x)
	}
	return "[" + strings.Join(ss, " ") + "]"
}

// ---- the scenario list ------------------------------------------------------

func vOrderScenarios() []vOrderScenario {
	var out []vOrderScenario
	add := func(sc vOrderScenario) { out = append(out, sc) }
	events := []string{"order-closed", "lease-won", "lease-lost", "shutdown"}
	for _, existing := range []string{"", "notfound", "found"} {
		pts := []string{"g", "s", "r", "p", "b"}
		if existing != "" {
			pts = append([]string{"q"}, pts...)
		}
		if existing == "found" {
			pts = []string{"q", "g", "s", "r"} // no pricing / bidding when a bid exists
		}
		for _, pt := range pts {
			for _, ev := range events {
				for _, oc := range []string{"ok", "err"} {
					add(vOrderScenario{Name: fmt.Sprintf("event=%s,point=%s,outcome=%s,existing=%s", ev, pt, oc, existing), Point: pt, Event: ev, Outcome: oc, ExistingBid: existing})
				}
			}
			add(vOrderScenario{Name: fmt.Sprintf("fail=%s,existing=%s", pt, existing), FailAt: pt, ExistingBid: existing})
			for _, uev := range []string{"unrelated", "sibling-lease-won", "sibling-order-closed"} {
				add(vOrderScenario{Name: fmt.Sprintf("event=%s,point=%s,existing=%s", uev, pt, existing), Point: pt, Event: uev, Outcome: "ok", ExistingBid: existing, AfterWait: "order-closed"})
			}
		}
		for _, ev := range append(append([]string{}, events...), "bid-timeout") {
			if existing == "found" && ev == "bid-timeout" {
				continue // no bid of its own, hence no timer
			}
			add(vOrderScenario{Name: fmt.Sprintf("event=%s,point=w,existing=%s", ev, existing), Point: "w", Event: ev, ExistingBid: existing})
		}
	}
	for _, el := range []string{"no-attrs", "no-signatures"} {
		add(vOrderScenario{Name: "eligible=" + el, Eligible: el})
	}
	// (a price in another denomination is not generated: every pricing
	// strategy of the repository prices in the order's denomination, and
	// sdk.Coin comparison panics on mixed denominations by design)
	for _, pr := range []string{"max", "above"} {
		add(vOrderScenario{Name: "price=" + pr, Price: pr, AfterWait: "order-closed"})
	}
	add(vOrderScenario{Name: "happy-then-won", AfterWait: "lease-won"})
	add(vOrderScenario{Name: "happy-then-lost", AfterWait: "lease-lost"})
	return out
}

func vRunOrderScenario(sc vOrderScenario) (*vOrderState, bool) {
	s := vNewOrderState(sc)
	s.execute()
	term := s.finish()
	s.run.Done = s.done()
	s.run.Calls = s.g.Log()
	for i := range s.run.Calls {
		s.run.Calls[i].Arg = ""
	}
	s.cleanup()
	return s, term
}

func vOrderHook(point string, args ...interface{}) {
	if point == "bidengine.order.loop" {
		vOrderRouter.Handler("bidengine.order.loop")(point, args...)
	}
}

func TestVerif_C13(t *testing.T) {
	res := vs.NewResult("C13", "fault_enumeration",
		"for every pipeline point {existing-bid query, group fetch, attribute-signature check, reservation, pricing, bid broadcast} in flight and for the waiting state, one of {order-closed, lease-won, lease-lost, shutdown, bid-timeout, unrelated event} is injected as the loop's only ready input and the in-flight step is then released with success or failure; plus every single step failure, ineligibility, price at/above the maximum, existing bid found / not found; each scenario on a fresh real order stepped through its loop-top hook. Judged on the scripted call log at termination: <=1 create-bid, price <= order maximum, bid only after a successful reservation, and if not won: every successful reservation released and a close-bid submitted for any placed or pre-existing bid. Free-running randomized schedules in addition. distinct = scenarios")
	res.Assume("the scripted cluster (Reserve/Unreserve), pricing strategy, signature service and chain client are the environment; a released broadcast/reserve that reports success after the order left its loop models a step that had already taken effect")
	if vs.Stage() == "" && vs.ReplayFile() == "" {
		for _, f := range []string{"scenarios", "inflight_reserve_success_after_exit", "inflight_bid_success_after_exit", "bids_placed", "won", "existing_bid_found", "declined", "price_rejected", "free_runs"} {
			res.Floor(f, 1)
		}
	}
	defer func() {
		if err := res.Write(); err != nil {
			t.Fatalf("cannot write result: %v", err)
		}
		if n := res.Violations(); n > 0 {
			t.Errorf("%d violation(s) recorded", n)
		}
	}()
	verifhook.Set(vOrderHook)
	defer verifhook.Set(nil)

	judge := func(sc vOrderScenario) {
		s, term := vRunOrderScenario(sc)
		res.Eval(1)
		res.Count("scenarios", 1)
		for _, v := range vJudgeOrder(s, term) {
			res.AddViolation(v.Rule, "C13/"+v.Rule+"/"+v.Trigger, v.Detail, s.run)
		}
		res.Distinct(sc.Name)
		for _, c := range s.run.Calls {
			switch {
			case c.Kind == vKCreateBid && c.Err == "":
				res.Count("bids_placed", 1)
			case c.Kind == venv.KQueryBid && c.Err == "":
				res.Count("existing_bid_found", 1)
			}
		}
		if sc.Point == "r" && sc.Outcome == "ok" {
			res.Count("inflight_reserve_success_after_exit", 1)
		}
		if sc.Point == "b" && sc.Outcome == "ok" {
			res.Count("inflight_bid_success_after_exit", 1)
		}
		if s.run.Won {
			res.Count("won", 1)
		}
		if sc.Eligible != "" {
			res.Count("declined", 1)
		}
		if sc.Price == "above" {
			res.Count("price_rejected", 1)
		}
		if res.WantSample() && sc.Point == "r" {
			res.Sample(s.run)
		}
	}

	if rp := vs.ReplayFile(); rp != "" {
		var pc vPricingCase
		if err := vs.LoadReplay(rp, &pc); err == nil && pc.Strategy != "" {
			// a case of the real-pricing pass: the pass is a fixed list drawn from the seed; run it again
			vRealPricingPass(res)
			return
		}
		var r vOrderRun
		if err := vs.LoadReplay(rp, &r); err != nil {
			t.Fatalf("replay: %v", err)
		}
		judge(r.Scenario)
		return
	}
	if vs.Stage() == "race" {
		vOrderFreeRuns(res, vs.Scale(300, 20000))
		return
	}
	if vs.Stage() == "service" {
		vServiceStage(res)
		return
	}
	scs := vOrderScenarios()
	res.Extra("scenario_list", fmt.Sprintf("%d deterministic scenarios (complete list of DESIGN.md §5 C13)", len(scs)))
	vs.Parallel(len(scs), runtime.NumCPU(), func(i int) { judge(scs[i]) })
	vOrderFreeRuns(res, vs.Scale(300, 20000))
	vRealPricingPass(res)
}

// vOrderFreeRuns: no stepping; the releaser and the event publisher race
// with the order.  Same oracle.
func vOrderFreeRuns(res *vs.Result, n int) {
	seed := vs.Seed()
	vs.Parallel(n, runtime.NumCPU(), func(i int) {
		r := vs.NewRand(seed, uint64(i)+0xC13)
		sc := vOrderScenario{Name: fmt.Sprintf("free/%d", i), Free: true}
		sc.ExistingBid = []string{"", "notfound", "found"}[r.Intn(3)]
		ev := []string{"order-closed", "lease-won", "lease-lost", "shutdown", "unrelated", "sibling-lease-won"}[r.Intn(6)]
		sc.Event = ev
		s := vNewOrderState(sc)
		var wg sync.WaitGroup
		stop := make(chan struct{})
		wg.Add(1)
		go func() {
			defer wg.Done()
			rr := vs.NewRand(seed, uint64(i)*13+5)
			for {
				select {
				case <-stop:
					return
				default:
				}
				for _, c := range s.g.AnyPending() {
					if rr.Chance(2, 3) {
						var v interface{}
						var err error
						for pt, k := range vPointKind {
							if k == c.Kind {
								v, err = s.resultFor(pt)
							}
						}
						if rr.Chance(1, 10) {
							v, err = nil, errScripted
						}
						s.g.Release(c, v, err)
					}
				}
				if rr.Bool() {
					runtime.Gosched()
				} else {
					time.Sleep(time.Duration(rr.Intn(60)) * time.Microsecond)
				}
			}
		}()
		time.Sleep(time.Duration(r.Intn(400)) * time.Microsecond)
		if ev == "shutdown" {
			go s.o.lc.ShutdownAsync(nil)
		} else {
			s.publish(ev)
		}
		time.Sleep(time.Duration(r.Intn(300)) * time.Microsecond)
		close(stop)
		wg.Wait()
		term := s.finish()
		s.run.Done = s.done()
		s.run.Calls = s.g.Log()
		for k := range s.run.Calls {
			s.run.Calls[k].Arg = ""
		}
		s.cleanup()
		res.Eval(1)
		res.Count("free_runs", 1)
		for _, v := range vJudgeOrder(s, term) {
			res.AddViolation(v.Rule, "C13/free/"+v.Rule+"/event="+ev, v.Detail, s.run)
		}
	})
}
