//go:build verif
// +build verif

package bidengine

// C13, service level.  The real bidengine.NewService (its run loop, the real
// provider-attribute signature service, real order managers created from the
// start-up order query and from EventOrderCreated events on a real bus) runs
// freely against the scripted chain client, cluster and pricing strategy.
// Several orders are in flight at once; every scripted call is answered by a
// responder goroutine according to a per-order plan drawn from the seed
// (success / one failure / existing bid found / price at, below, above the
// maximum); designated orders are *held* at one call so that a second
// EventOrderCreated for the same order provably reaches the service while
// the first manager is alive (a sentinel order announced after it shows that
// the service has consumed the duplicate).  Final events (lease won by this
// provider / by another / order closed / none) are published early (racing
// the pipeline) or late; the service is closed after quiescence or in
// mid-flight.  The call log is split per order and judged by the same
// oracle as the stepped scenarios (vJudgeCalls).

import (
	"context"
	"errors"
	"fmt"
	"runtime"
	"sort"
	"strings"
	"sync"
	"sync/atomic"
	"time"

	sdk "github.com/cosmos/cosmos-sdk/types"
	sdkquery "github.com/cosmos/cosmos-sdk/types/query"

	"github.com/ovrclk/akash/pubsub"
	"github.com/ovrclk/akash/types"
	"github.com/ovrclk/akash/types/unit"
	"github.com/ovrclk/akash/util/verifhook"
	vs "github.com/ovrclk/akash/verifsupport"
	"github.com/ovrclk/akash/verifsupport/venv"
	audittypes "github.com/ovrclk/akash/x/audit/types"
	dtypes "github.com/ovrclk/akash/x/deployment/types"
	mtypes "github.com/ovrclk/akash/x/market/types"
	ptypes "github.com/ovrclk/akash/x/provider/types"
)

type vSvcOrderPlan struct {
	Key      string `json:"key"` // owner/dseq
	Owner    string `json:"owner"`
	DSeq     uint64 `json:"dseq"`
	Catchup  bool   `json:"catchup,omitempty"` // listed as open by the start-up query
	Dup      bool   `json:"dup,omitempty"`     // a second EventOrderCreated arrives while the first manager is held
	HoldKind string `json:"hold_kind,omitempty"`
	Existing string `json:"existing,omitempty"` // catchup: found | notfound
	FailKind string `json:"fail_kind,omitempty"`
	Price    string `json:"price,omitempty"` // "" below | max | above
	Final    string `json:"final"`           // won | lost | closed | none
	Early    bool   `json:"final_early,omitempty"`
	Sentinel bool   `json:"sentinel,omitempty"`
	// Announced: the sentinel's EventOrderCreated was published
	Announced bool `json:"announced,omitempty"`
}

func (p vSvcOrderPlan) class() string {
	var parts []string
	if p.Catchup {
		parts = append(parts, "catchup", "existing="+p.Existing)
	} else {
		parts = append(parts, "announced")
	}
	if p.Dup {
		parts = append(parts, "dup@"+strings.TrimPrefix(p.HoldKind, "broadcast:"))
	}
	if p.FailKind != "" {
		parts = append(parts, "fail="+strings.TrimPrefix(p.FailKind, "broadcast:"))
	}
	if p.Price != "" {
		parts = append(parts, "price="+p.Price)
	}
	f := "final=" + p.Final
	if p.Early && p.Final != "none" {
		f += ":early"
	}
	parts = append(parts, f)
	return strings.Join(parts, ",")
}

type vSvcRun struct {
	Index     int             `json:"index"`
	Seed      int64           `json:"seed"`
	Orders    []vSvcOrderPlan `json:"orders"`
	MidFlight bool            `json:"close_mid_flight"`
	// EarlyEvents: the listed (catch-up) orders are also announced while the
	// start-up order query is still in flight
	EarlyEvents bool              `json:"announcements_during_startup_query,omitempty"`
	Calls       []vs.GateCallView `json:"calls,omitempty"`
	Notes       []string          `json:"notes,omitempty"`
}

type vSvcState struct {
	run   *vSvcRun
	g     *vs.Gates
	bus   pubsub.Bus
	prov  sdk.AccAddress
	plans map[string]*vSvcOrderPlan
	max   sdk.Coin

	mu   sync.Mutex
	held map[string]string // order key -> kind held
}

// orders seen at the loop-top hook, by the bus they were built on (a run owns
// one bus)
var vSvcOrders sync.Map // pubsub.Bus -> *vSvcOrderSet

type vSvcOrderSet struct {
	mu sync.Mutex
	m  map[*order]bool
}

func vSvcHook(point string, args ...interface{}) {
	if point != "bidengine.order.loop" || len(args) == 0 {
		return
	}
	o, ok := args[0].(*order)
	if !ok {
		return
	}
	if v, ok := vSvcOrders.Load(o.bus); ok {
		set := v.(*vSvcOrderSet)
		set.mu.Lock()
		set.m[o] = true
		set.mu.Unlock()
	}
}

func vSvcKey(owner string, dseq uint64) string { return fmt.Sprintf("%s/%d", owner, dseq) }

// vSvcOrderOf maps a scripted call to the order it belongs to ("" = none).
func vSvcOrderOf(c *vs.GateCall, owners map[string]string) string {
	switch a := c.Arg.(type) {
	case dtypes.GroupID:
		return vSvcKey(a.Owner, a.DSeq)
	case mtypes.BidID:
		return vSvcKey(a.Owner, a.DSeq)
	case mtypes.OrderID:
		return vSvcKey(a.Owner, a.DSeq)
	case string:
		if c.Kind == vKPrice {
			return owners[a]
		}
	case []sdk.Msg:
		if len(a) > 0 {
			switch m := a[0].(type) {
			case *mtypes.MsgCreateBid:
				return vSvcKey(m.Order.Owner, m.Order.DSeq)
			case *mtypes.MsgCloseBid:
				return vSvcKey(m.BidID.Owner, m.BidID.DSeq)
			}
		}
	}
	return ""
}

func vSvcGroup(owner string, dseq uint64, auditor string) dtypes.Group {
	return dtypes.Group{
		GroupID: dtypes.GroupID{Owner: owner, DSeq: dseq, GSeq: 1},
		State:   dtypes.GroupOpen,
		GroupSpec: dtypes.GroupSpec{
			Name: "g",
			Requirements: types.PlacementRequirements{
				Attributes: types.Attributes{{Key: "region", Value: "a"}},
				SignedBy:   types.SignedBy{AnyOf: []string{auditor}},
			},
			Resources: []dtypes.Resource{{
				Resources: types.ResourceUnits{
					CPU:     &types.CPU{Units: types.NewResourceValue(100)},
					Memory:  &types.Memory{Quantity: types.NewResourceValue(64 * unit.Mi)},
					Storage: &types.Storage{Quantity: types.NewResourceValue(64 * unit.Mi)},
				},
				Count: 2,
				Price: sdk.NewInt64Coin("uakt", 50),
			}},
		},
	}
}

func (s *vSvcState) note(f string, a ...interface{}) {
	s.mu.Lock()
	s.run.Notes = append(s.run.Notes, fmt.Sprintf(f, a...))
	s.mu.Unlock()
}

func vSvcWait(cond func() bool, timeout time.Duration) bool {
	dl := time.Now().Add(timeout)
	for {
		if cond() {
			return true
		}
		if time.Now().After(dl) {
			return false
		}
		time.Sleep(50 * time.Microsecond)
	}
}

// answer gives the scripted outcome of a call according to its order's plan.
func (s *vSvcState) answer(c *vs.GateCall, key string, auditor string) (interface{}, error) {
	if c.Kind == venv.KQueryAuditorAttrs {
		return &audittypes.QueryProvidersResponse{Providers: audittypes.Providers{{Owner: s.prov.String(), Auditor: auditor, Attributes: types.Attributes{{Key: "region", Value: "a"}}}}}, nil
	}
	p := s.plans[key]
	if p == nil {
		return nil, errors.New("scripted: call for an unknown order")
	}
	if p.FailKind == c.Kind {
		return nil, errScripted
	}
	switch c.Kind {
	case venv.KQueryBid:
		if p.Existing == "found" {
			oid := mtypes.OrderID{Owner: p.Owner, DSeq: p.DSeq, GSeq: 1, OSeq: 1}
			return &mtypes.QueryBidResponse{Bid: mtypes.Bid{BidID: mtypes.MakeBidID(oid, s.prov), State: mtypes.BidOpen, Price: sdk.NewInt64Coin("uakt", 10)}}, nil
		}
		return nil, errors.New("rpc error: code = NotFound desc = bid not found: invalid request")
	case venv.KQueryGroup:
		return &dtypes.QueryGroupResponse{Group: vSvcGroup(p.Owner, p.DSeq, auditor)}, nil
	case vKPrice:
		switch p.Price {
		case "max":
			return s.max, nil
		case "above":
			return s.max.Add(sdk.NewInt64Coin("uakt", 1)), nil
		}
		return sdk.NewInt64Coin("uakt", 60), nil
	}
	return nil, nil
}

func vSvcPlan(r *vs.Rand, idx int) *vSvcRun {
	run := &vSvcRun{Index: idx}
	n := r.Range(3, 6)
	used := map[uint64]bool{}
	dseqs := []uint64{1, 12, 13, 256, 257, 65536, 7, 70}
	for i := 0; i < n; i++ {
		var d uint64
		for {
			d = dseqs[r.Intn(len(dseqs))]
			if !used[d] {
				used[d] = true
				break
			}
		}
		owner := sdk.AccAddress([]byte(fmt.Sprintf("verif-tenant-%07d", i))).String()
		p := vSvcOrderPlan{Owner: owner, DSeq: d, Key: vSvcKey(owner, d)}
		p.Catchup = r.Chance(1, 3)
		if p.Catchup {
			p.Existing = []string{"found", "notfound"}[r.Intn(2)]
		}
		p.Final = []string{"won", "lost", "closed", "none"}[r.Intn(4)]
		p.Early = r.Chance(1, 3)
		p.Dup = r.Chance(1, 3)
		switch {
		case p.Dup && p.Catchup:
			p.HoldKind = []string{venv.KQueryBid, venv.KQueryGroup, vKCreateBid}[r.Intn(3)]
			if p.Existing == "found" && p.HoldKind == vKCreateBid {
				p.HoldKind = venv.KQueryBid // no new bid is made when one exists
			}
		case p.Dup:
			p.HoldKind = []string{venv.KQueryGroup, vKReserve, vKCreateBid}[r.Intn(3)]
		}
		if !p.Dup && r.Chance(1, 4) {
			p.FailKind = []string{venv.KQueryGroup, vKReserve, vKPrice, vKCreateBid}[r.Intn(4)]
		}
		if r.Chance(1, 5) {
			p.Price = []string{"max", "above"}[r.Intn(2)]
			if p.Dup && p.HoldKind == vKCreateBid && p.Price == "above" {
				p.Price = "max"
			}
		}
		if p.Dup {
			// the held manager must still be alive when the duplicate arrives:
			// its final event comes late
			p.Early = false
		}
		run.Orders = append(run.Orders, p)
	}
	run.MidFlight = r.Chance(1, 3)
	hasCatchup := false
	for _, p := range run.Orders {
		if p.Catchup {
			hasCatchup = true
		}
	}
	run.EarlyEvents = hasCatchup && r.Chance(1, 2)
	return run
}

// vRunService executes one planned run against a fresh real service.
func vRunService(run *vSvcRun, seed int64) (*vSvcState, []*order, bool) {
	r := vs.NewRand(seed, uint64(run.Index)*7+0x5C13)
	g := vs.NewGates()
	s := &vSvcState{run: run, g: g, bus: pubsub.NewBus(), plans: map[string]*vSvcOrderPlan{}, held: map[string]string{}}
	s.prov = sdk.AccAddress([]byte("verif-provider-00000"))
	auditor := sdk.AccAddress([]byte("verif-auditor-000000")).String()
	s.max = vSvcGroup("x", 1, auditor).GroupSpec.Price()
	// one sentinel order per designated duplicate, planned before anything runs
	// (the responder reads the plans concurrently)
	nReal := len(run.Orders)
	sentinelOf := map[string]int{}
	for i := 0; i < nReal; i++ {
		if run.Orders[i].Dup {
			so := sdk.AccAddress([]byte(fmt.Sprintf("verif-sentinel-%05d", i))).String()
			sp := vSvcOrderPlan{Owner: so, DSeq: 900 + uint64(i), Final: "none", Sentinel: true}
			sp.Key = vSvcKey(sp.Owner, sp.DSeq)
			sentinelOf[run.Orders[i].Key] = len(run.Orders)
			run.Orders = append(run.Orders, sp)
		}
	}
	owners := map[string]string{}
	for i := range run.Orders {
		p := &run.Orders[i]
		s.plans[p.Key] = p
		owners[p.Owner] = p.Key
		if p.Dup {
			s.held[p.Key] = p.HoldKind
		}
	}
	set := &vSvcOrderSet{m: map[*order]bool{}}
	vSvcOrders.Store(s.bus, set)
	defer vSvcOrders.Delete(s.bus)

	g.Auto(vKUnreserve, func(interface{}) (interface{}, error) { return nil, nil })
	g.Auto(vKCloseBid, func(interface{}) (interface{}, error) { return nil, nil })

	var existing []mtypes.Order
	for _, p := range run.Orders {
		if p.Catchup {
			existing = append(existing, mtypes.Order{OrderID: mtypes.OrderID{Owner: p.Owner, DSeq: p.DSeq, GSeq: 1, OSeq: 1}, State: mtypes.OrderOpen})
		}
	}
	provider := &ptypes.Provider{Owner: s.prov.String(), Attributes: types.Attributes{{Key: "region", Value: "a"}}}
	// the start-up query can be held: order announcements that arrive while
	// it is in flight concern orders that its answer lists as well
	ordersEntered := make(chan struct{})
	ordersRelease := make(chan struct{})
	var enteredOnce sync.Once
	if !run.EarlyEvents {
		close(ordersRelease)
	}
	// the chain holds many more orders than the open ones (1 100 closed orders
	// behind them); the listing honours the page size and key of the request,
	// and the first request for a follow-up page fails once, as a node under
	// load would (a single request with a large enough limit sees none of this)
	all := append([]mtypes.Order(nil), existing...)
	for i := 0; i < 1100; i++ {
		all = append(all, mtypes.Order{OrderID: mtypes.OrderID{Owner: s.prov.String(), DSeq: uint64(5000 + i), GSeq: 1, OSeq: 1}, State: mtypes.OrderClosed})
	}
	var failedOnce int32
	sess := venv.NewSessionWith(g, provider, venv.Options{Orders: func(req *mtypes.QueryOrdersRequest) (*mtypes.QueryOrdersResponse, error) {
		enteredOnce.Do(func() { close(ordersEntered) })
		<-ordersRelease
		start, limit := 0, len(all)
		if req != nil && req.Pagination != nil {
			if len(req.Pagination.Key) > 0 {
				if atomic.CompareAndSwapInt32(&failedOnce, 0, 1) {
					return nil, errors.New("scripted: transient failure of a follow-up page")
				}
				fmt.Sscanf(string(req.Pagination.Key), "%d", &start)
			} else if req.Pagination.Offset > 0 {
				start = int(req.Pagination.Offset)
			}
			if req.Pagination.Limit > 0 && int(req.Pagination.Limit) < limit {
				limit = int(req.Pagination.Limit)
			}
		}
		if start > len(all) {
			start = len(all)
		}
		end := start + limit
		if end > len(all) {
			end = len(all)
		}
		resp := &mtypes.QueryOrdersResponse{Orders: all[start:end], Pagination: &sdkquery.PageResponse{Total: uint64(len(all))}}
		if end < len(all) {
			resp.Pagination.NextKey = []byte(fmt.Sprintf("%d", end))
		}
		return resp, nil
	}})
	cfg := Config{PricingStrategy: &vPricing{g: g}, Deposit: sdk.NewInt64Coin("uakt", 5000000)}

	// responder
	stop := make(chan struct{})
	var wg sync.WaitGroup
	var quick int32
	wg.Add(1)
	go func() {
		defer wg.Done()
		rr := vs.NewRand(seed, uint64(run.Index)*31+11)
		for {
			select {
			case <-stop:
				return
			default:
			}
			for _, c := range g.AnyPending() {
				key := vSvcOrderOf(c, owners)
				s.mu.Lock()
				h := s.held[key]
				s.mu.Unlock()
				if h != "" && h == c.Kind {
					continue
				}
				if atomic.LoadInt32(&quick) == 0 && rr.Chance(1, 3) {
					continue // answered in a later round
				}
				v, err := s.answer(c, key, auditor)
				g.Release(c, v, err)
			}
			if rr.Bool() {
				runtime.Gosched()
			} else {
				time.Sleep(time.Duration(rr.Intn(40)) * time.Microsecond)
			}
		}
	}()

	ctx, cancel := context.WithCancel(context.Background())
	defer cancel()
	if run.EarlyEvents {
		go func() {
			<-ordersEntered
			// announcements of listed orders while the start-up query is in flight
			for i := range run.Orders {
				p := &run.Orders[i]
				if p.Catchup && !p.Sentinel {
					_ = s.bus.Publish(mtypes.NewEventOrderCreated(mtypes.OrderID{Owner: p.Owner, DSeq: p.DSeq, GSeq: 1, OSeq: 1}))
				}
			}
			time.Sleep(time.Duration(r.Intn(300)) * time.Microsecond)
			close(ordersRelease)
		}()
	}
	svcI, err := NewService(ctx, sess, &vCluster{g: g}, s.bus, cfg)
	if err != nil {
		s.note("NewService failed: %v", err)
		close(stop)
		wg.Wait()
		return s, nil, false
	}
	svc := svcI.(*service)

	oidOf := func(p *vSvcOrderPlan) mtypes.OrderID {
		return mtypes.OrderID{Owner: p.Owner, DSeq: p.DSeq, GSeq: 1, OSeq: 1}
	}
	pendingAt := func(key, kind string) bool {
		for _, c := range g.AnyPending() {
			if c.Kind == kind && vSvcOrderOf(c, owners) == key {
				return true
			}
		}
		return false
	}
	seenCall := func(key, kind string) bool {
		for _, c := range g.Calls() {
			if c.Kind == kind && vSvcOrderOf(c, owners) == key {
				return true
			}
		}
		return false
	}
	quiet := func(max time.Duration) {
		// no call pending that the responder may answer, and the log is stable
		last, stable := -1, 0
		vSvcWait(func() bool {
			n := len(g.Calls())
			free := 0
			for _, c := range g.AnyPending() {
				key := vSvcOrderOf(c, owners)
				s.mu.Lock()
				h := s.held[key]
				s.mu.Unlock()
				if !(h != "" && h == c.Kind) {
					free++
				}
			}
			if free == 0 && n == last {
				stable++
			} else {
				stable = 0
			}
			last = n
			return stable > 40
		}, max)
	}
	final := func(p *vSvcOrderPlan) {
		lid := mtypes.MakeLeaseID(mtypes.MakeBidID(oidOf(p), s.prov))
		switch p.Final {
		case "won":
			_ = s.bus.Publish(mtypes.NewEventLeaseCreated(lid, sdk.NewInt64Coin("uakt", 60)))
		case "lost":
			other := mtypes.MakeLeaseID(mtypes.MakeBidID(oidOf(p), sdk.AccAddress([]byte("verif-provider-99999"))))
			_ = s.bus.Publish(mtypes.NewEventLeaseCreated(other, sdk.NewInt64Coin("uakt", 55)))
		case "closed":
			_ = s.bus.Publish(mtypes.NewEventOrderClosed(oidOf(p)))
		}
	}

	// 1. announce the orders that were not listed at start-up
	for i := 0; i < nReal; i++ {
		p := &run.Orders[i]
		if !p.Catchup {
			_ = s.bus.Publish(mtypes.NewEventOrderCreated(oidOf(p)))
			if p.Early {
				final(p)
			}
			time.Sleep(time.Duration(r.Intn(120)) * time.Microsecond)
		} else if p.Early {
			final(p)
		}
	}
	// 2. duplicates while the first manager is provably alive
	for i := 0; i < nReal; i++ {
		p := &run.Orders[i]
		if !p.Dup {
			continue
		}
		if !vSvcWait(func() bool { return pendingAt(p.Key, p.HoldKind) }, 10*time.Second) {
			s.note("order %s never reached its hold point %s; duplicate not sent", p.Key, p.HoldKind)
			p.Dup = false
			s.mu.Lock()
			delete(s.held, p.Key)
			s.mu.Unlock()
			continue
		}
		_ = s.bus.Publish(mtypes.NewEventOrderCreated(oidOf(p)))
		// sentinel: a new order announced after the duplicate; once its manager
		// has issued its group query the service has consumed the duplicate
		sp := &run.Orders[sentinelOf[p.Key]]
		sp.Announced = true
		_ = s.bus.Publish(mtypes.NewEventOrderCreated(oidOf(sp)))
		if !vSvcWait(func() bool { return seenCall(sp.Key, venv.KQueryGroup) }, 10*time.Second) {
			s.note("sentinel %s never started: cannot tell whether the duplicate was consumed", sp.Key)
			p.Dup = false
		}
		s.mu.Lock()
		delete(s.held, p.Key)
		s.mu.Unlock()
	}
	// 3. late final events
	if !run.MidFlight {
		quiet(5 * time.Second)
	}
	for i := range run.Orders {
		p := &run.Orders[i]
		if !p.Early {
			final(p)
			time.Sleep(time.Duration(r.Intn(80)) * time.Microsecond)
		}
	}
	if !run.MidFlight {
		quiet(5 * time.Second)
	}
	// 4. close the service; everything still in flight is answered
	atomic.StoreInt32(&quick, 1)
	go func() { _ = svc.Close() }()
	var orders []*order
	collect := func() {
		set.mu.Lock()
		orders = orders[:0]
		for o := range set.m {
			orders = append(orders, o)
		}
		set.mu.Unlock()
	}
	// the orders terminate (the service itself may be held up by its
	// attribute service: noted, not judged)
	allDone := vSvcWait(func() bool {
		collect()
		for _, o := range orders {
			select {
			case <-o.lc.Done():
			default:
				return false
			}
		}
		select {
		case <-svc.lc.ShuttingDown():
			return true
		default:
			return false
		}
	}, vOrderTimeout)
	select {
	case <-svc.Done():
	case <-time.After(300 * time.Millisecond):
		s.note("the service had not terminated 300 ms after all its orders had")
	}
	close(stop)
	wg.Wait()
	// whatever is still blocked is let go
	g.ReleaseAll(func(c *vs.GateCall) (interface{}, error) { return nil, errScripted })
	run.Calls = g.Log()
	for i := range run.Calls {
		run.Calls[i].Arg = ""
	}
	s.bus.Close()
	sort.Slice(orders, func(i, j int) bool {
		return vSvcKey(orders[i].orderID.Owner, orders[i].orderID.DSeq) < vSvcKey(orders[j].orderID.Owner, orders[j].orderID.DSeq)
	})
	return s, orders, allDone
}

func vServiceStage(res *vs.Result) {
	verifhook.Set(vSvcHook)
	defer verifhook.Set(nil)
	for _, f := range []string{"service_runs", "service_orders", "service_orders_with_bid", "service_duplicates_consumed_while_first_manager_alive", "service_catchup_orders", "service_closed_mid_flight", "service_orders_won", "service_orders_not_won_with_bid", "service_runs_with_announcements_during_startup_query"} {
		if vs.ReplayFile() == "" {
			res.Floor(f, 1)
		}
	}
	seed := vs.Seed()
	judge := func(run *vSvcRun) {
		s, orders, allDone := vRunService(run, seed)
		res.Eval(1)
		res.Count("service_runs", 1)
		if run.MidFlight {
			res.Count("service_closed_mid_flight", 1)
		}
		if run.EarlyEvents {
			res.Count("service_runs_with_announcements_during_startup_query", 1)
		}
		owners := map[string]string{}
		for _, p := range run.Orders {
			owners[p.Owner] = p.Key
		}
		byOrder := map[string][]*vs.GateCall{}
		for _, c := range s.g.Calls() {
			k := vSvcOrderOf(c, owners)
			byOrder[k] = append(byOrder[k], c)
		}
		if !allDone {
			var live []string
			for _, o := range orders {
				select {
				case <-o.lc.Done():
				default:
					live = append(live, vSvcKey(o.orderID.Owner, o.orderID.DSeq))
				}
			}
			res.AddViolation("order-terminates", "C13/service/order-terminates", fmt.Sprintf("after the service was closed and every scripted call answered, order manager(s) %v were still running", live), run)
			return
		}
		var shape []string
		for _, p := range run.Orders {
			if p.Sentinel && !p.Announced {
				continue
			}
			res.Count("service_orders", 1)
			if p.Catchup {
				res.Count("service_catchup_orders", 1)
			}
			if p.Dup {
				res.Count("service_duplicates_consumed_while_first_manager_alive", 1)
			}
			oid := mtypes.OrderID{Owner: p.Owner, DSeq: p.DSeq, GSeq: 1, OSeq: 1}
			won := p.Final == "won"
			calls := byOrder[p.Key]
			bids := 0
			for _, c := range calls {
				if c.Kind == vKCreateBid && c.Err == "" && c.End != 0 {
					bids++
				}
			}
			if bids > 0 {
				res.Count("service_orders_with_bid", 1)
				if won {
					res.Count("service_orders_won", 1)
				} else {
					res.Count("service_orders_not_won_with_bid", 1)
				}
			}
			for _, v := range vJudgeCalls(calls, oid, s.prov, s.max, won) {
				res.AddViolation(v.Rule, "C13/service/"+v.Rule+"/"+p.class(), fmt.Sprintf("service run %d, order %s (%s): %s; calls of this order: %s", run.Index, p.Key, p.class(), v.Detail, vCallsOf(calls)), run)
			}
			if !p.Sentinel {
				shape = append(shape, p.class())
			}
		}
		sort.Strings(shape)
		res.Distinct(strings.Join(shape, " | "))
		if res.WantSample() && len(run.Orders) > 3 {
			res.Sample(run)
		}
	}
	if rp := vs.ReplayFile(); rp != "" {
		var run vSvcRun
		if err := vs.LoadReplay(rp, &run); err == nil && len(run.Orders) > 0 {
			run.Calls, run.Notes = nil, nil
			// sentinels are re-created by the run
			var keep []vSvcOrderPlan
			for _, p := range run.Orders {
				if !p.Sentinel {
					keep = append(keep, p)
				}
			}
			run.Orders = keep
			judge(&run)
		}
		return
	}
	n := vs.Scale(160, 6000)
	vs.Parallel(n, runtime.NumCPU(), func(i int) {
		r := vs.NewRand(seed, uint64(i)+0x13C13)
		judge(vSvcPlan(r, i))
	})
}

func vCallsOf(cs []*vs.GateCall) string {
	var ss []string
	for _, c := range cs {
		x := fmt.Sprintf("%s@%d-%d", strings.TrimPrefix(c.Kind, "broadcast:"), c.Start, c.End)
		if c.Err != "" {
			x += "!err"
		}
		ss = append(ss, x)
	}
	return "[" + strings.Join(ss, " ") + "]"
}
