//go:build verif
// +build verif

package cluster

import vs "github.com/ovrclk/akash/verifsupport"

// routers of the loop-top hooks of this package (see vClusterHook)
var vInvRouter = &vs.HookRouter{}
