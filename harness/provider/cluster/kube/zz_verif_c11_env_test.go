//go:build verif
// +build verif

package kube

// C11 — environment: the real kube client struct over fake clientsets, the
// delete-collection reaction the v0.19.3 object tracker lacks, and the
// read-back of every object in every namespace.

import (
	"context"
	"encoding/json"
	"fmt"

	"github.com/tendermint/tendermint/libs/log"
	appsv1 "k8s.io/api/apps/v1"
	corev1 "k8s.io/api/core/v1"
	netv1 "k8s.io/api/networking/v1"
	"k8s.io/apimachinery/pkg/api/meta"
	metav1 "k8s.io/apimachinery/pkg/apis/meta/v1"
	"k8s.io/apimachinery/pkg/labels"
	"k8s.io/apimachinery/pkg/runtime"
	kfake "k8s.io/client-go/kubernetes/fake"
	ktesting "k8s.io/client-go/testing"

	akashv1 "github.com/ovrclk/akash/pkg/apis/akash.network/v1"
	afake "github.com/ovrclk/akash/pkg/client/clientset/versioned/fake"
)

const vC11ProviderNS = "lease"

// resource -> kind, for the kinds the provider deletes by collection
var vC11Kinds = map[string]string{"deployments": "Deployment", "ingresses": "Ingress", "services": "Service", "networkpolicies": "NetworkPolicy"}

// vC11DeleteCollection implements delete-collection as list + label-selector
// filter + delete on the same tracker (what an API server does).
func vC11DeleteCollection(f *ktesting.Fake, tracker ktesting.ObjectTracker) {
	f.PrependReactor("delete-collection", "*", func(action ktesting.Action) (bool, runtime.Object, error) {
		dc, ok := action.(ktesting.DeleteCollectionActionImpl)
		if !ok {
			return false, nil, nil
		}
		gvr := dc.GetResource()
		kind, ok := vC11Kinds[gvr.Resource]
		if !ok {
			return true, nil, fmt.Errorf("verif harness: delete-collection of %q is not modelled", gvr.Resource)
		}
		list, err := tracker.List(gvr, gvr.GroupVersion().WithKind(kind), dc.GetNamespace())
		if err != nil {
			return true, nil, err
		}
		items, err := meta.ExtractList(list)
		if err != nil {
			return true, nil, err
		}
		sel := dc.GetListRestrictions().Labels
		for _, it := range items {
			m, err := meta.Accessor(it)
			if err != nil {
				return true, nil, err
			}
			if sel != nil && !sel.Matches(labels.Set(m.GetLabels())) {
				continue
			}
			if err := tracker.Delete(gvr, m.GetNamespace(), m.GetName()); err != nil {
				return true, nil, err
			}
		}
		return true, nil, nil
	})
}

type vC11Env struct {
	kc *kfake.Clientset
	ac *afake.Clientset
	cl *client
}

func vC11NewEnv(s vC11Settings) *vC11Env {
	kc := kfake.NewSimpleClientset(&corev1.Namespace{ObjectMeta: metav1.ObjectMeta{Name: vC11ProviderNS, Labels: map[string]string{"akash.network": "true"}}})
	ac := afake.NewSimpleClientset()
	vC11DeleteCollection(&kc.Fake, kc.Tracker())
	return &vC11Env{kc: kc, ac: ac, cl: &client{kc: kc, ac: ac, ns: vC11ProviderNS, settings: s.ToKube(), log: log.NewNopLogger()}}
}

// vC11Deploy calls the real Deploy; a panic of the code under observation is
// returned as an error text.
func (e *vC11Env) Deploy(l vC11Lease, g vC11Group) (err error, panicked string) {
	defer func() {
		if r := recover(); r != nil {
			panicked = fmt.Sprint(r)
		}
	}()
	return e.cl.Deploy(context.Background(), l.ToAkash(), g.ToAkash()), ""
}

// vC11World is every object of the kinds a provider writes, in every namespace.
type vC11World struct {
	Namespaces  []corev1.Namespace
	Deployments []appsv1.Deployment
	Services    []corev1.Service
	Ingresses   []netv1.Ingress
	NetPols     []netv1.NetworkPolicy
	Manifests   []akashv1.Manifest
}

func (e *vC11Env) World() (*vC11World, error) {
	ctx := context.Background()
	w := &vC11World{}
	all := metav1.NamespaceAll
	nsl, err := e.kc.CoreV1().Namespaces().List(ctx, metav1.ListOptions{})
	if err != nil {
		return nil, err
	}
	w.Namespaces = nsl.Items
	dl, err := e.kc.AppsV1().Deployments(all).List(ctx, metav1.ListOptions{})
	if err != nil {
		return nil, err
	}
	w.Deployments = dl.Items
	sl, err := e.kc.CoreV1().Services(all).List(ctx, metav1.ListOptions{})
	if err != nil {
		return nil, err
	}
	w.Services = sl.Items
	il, err := e.kc.NetworkingV1().Ingresses(all).List(ctx, metav1.ListOptions{})
	if err != nil {
		return nil, err
	}
	w.Ingresses = il.Items
	pl, err := e.kc.NetworkingV1().NetworkPolicies(all).List(ctx, metav1.ListOptions{})
	if err != nil {
		return nil, err
	}
	w.NetPols = pl.Items
	ml, err := e.ac.AkashV1().Manifests(all).List(ctx, metav1.ListOptions{})
	if err != nil {
		return nil, err
	}
	w.Manifests = ml.Items
	return w, nil
}

// Index maps "Kind/namespace/name" to the object's JSON.
func (w *vC11World) Index() map[string]string {
	idx := map[string]string{}
	put := func(kind, ns, name string, o interface{}) {
		b, _ := json.Marshal(o)
		idx[kind+"/"+ns+"/"+name] = string(b)
	}
	for i := range w.Namespaces {
		put("Namespace", "", w.Namespaces[i].Name, &w.Namespaces[i])
	}
	for i := range w.Deployments {
		put("Deployment", w.Deployments[i].Namespace, w.Deployments[i].Name, &w.Deployments[i])
	}
	for i := range w.Services {
		put("Service", w.Services[i].Namespace, w.Services[i].Name, &w.Services[i])
	}
	for i := range w.Ingresses {
		put("Ingress", w.Ingresses[i].Namespace, w.Ingresses[i].Name, &w.Ingresses[i])
	}
	for i := range w.NetPols {
		put("NetworkPolicy", w.NetPols[i].Namespace, w.NetPols[i].Name, &w.NetPols[i])
	}
	for i := range w.Manifests {
		put("Manifest", w.Manifests[i].Namespace, w.Manifests[i].Name, &w.Manifests[i])
	}
	return idx
}
