//go:build verif
// +build verif

package kube

// C11 — independent NetworkPolicy evaluator (Kubernetes union-of-rules
// semantics, networking.k8s.io/v1 as of 1.19: no endPort).  Written from the
// NetworkPolicy API documentation; shares no code with builder.go.
//
//   * a pod is "isolated" for a direction iff at least one policy of ITS
//     namespace selects it (spec.podSelector) and lists that direction in
//     policyTypes (default: Ingress, plus Egress iff egress rules exist);
//   * a non-isolated pod admits everything in that direction;
//   * an isolated pod admits a connection iff SOME rule of SOME selecting
//     policy matches the peer (empty from/to = every peer) AND the port
//     (empty ports = every port; protocol defaults to TCP; nil port = all);
//   * peer = ipBlock (cidr minus except; matched against the peer address,
//     pod or not) XOR namespaceSelector/podSelector (podSelector alone = pods
//     of the policy's namespace; namespaceSelector alone = all pods of the
//     selected namespaces; both = those pods in those namespaces).

import (
	"net"

	corev1 "k8s.io/api/core/v1"
	netv1 "k8s.io/api/networking/v1"
	metav1 "k8s.io/apimachinery/pkg/apis/meta/v1"
	"k8s.io/apimachinery/pkg/util/intstr"
)

// vNPEnd is one end of a connection: a pod (namespace, namespace labels, pod
// labels, address) or a bare address.
type vNPEnd struct {
	Class    string
	Pod      bool
	NS       string
	NSLabels map[string]string
	Labels   map[string]string
	IP       string
}

// vSelMatches evaluates a label selector. nil selects nothing, {} everything.
func vSelMatches(sel *metav1.LabelSelector, lbls map[string]string) bool {
	if sel == nil {
		return false
	}
	for k, v := range sel.MatchLabels {
		if lv, ok := lbls[k]; !ok || lv != v {
			return false
		}
	}
	for _, e := range sel.MatchExpressions {
		lv, has := lbls[e.Key]
		in := false
		for _, v := range e.Values {
			if has && v == lv {
				in = true
			}
		}
		switch e.Operator {
		case metav1.LabelSelectorOpIn:
			if !in {
				return false
			}
		case metav1.LabelSelectorOpNotIn:
			if in {
				return false
			}
		case metav1.LabelSelectorOpExists:
			if !has {
				return false
			}
		case metav1.LabelSelectorOpDoesNotExist:
			if has {
				return false
			}
		default:
			return false
		}
	}
	return true
}

func vCIDRContains(cidr, ip string) bool {
	_, n, err := net.ParseCIDR(cidr)
	if err != nil {
		return false
	}
	a := net.ParseIP(ip)
	return a != nil && n.Contains(a)
}

func vNPPeerMatches(polNS string, p netv1.NetworkPolicyPeer, e vNPEnd) bool {
	if p.IPBlock != nil {
		if e.IP == "" || !vCIDRContains(p.IPBlock.CIDR, e.IP) {
			return false
		}
		for _, x := range p.IPBlock.Except {
			if vCIDRContains(x, e.IP) {
				return false
			}
		}
		return true
	}
	if !e.Pod {
		return false
	}
	if p.NamespaceSelector != nil {
		if !vSelMatches(p.NamespaceSelector, e.NSLabels) {
			return false
		}
	} else if e.NS != polNS {
		return false
	}
	if p.PodSelector != nil && !vSelMatches(p.PodSelector, e.Labels) {
		return false
	}
	return true
}

func vNPPortMatches(ports []netv1.NetworkPolicyPort, port int32, proto corev1.Protocol) bool {
	if len(ports) == 0 {
		return true
	}
	for _, pp := range ports {
		pr := corev1.ProtocolTCP
		if pp.Protocol != nil {
			pr = *pp.Protocol
		}
		if pr != proto {
			continue
		}
		if pp.Port == nil {
			return true
		}
		// named ports: the generated pods name no port, so a named policy
		// port resolves to nothing
		if pp.Port.Type == intstr.Int && pp.Port.IntVal == port {
			return true
		}
	}
	return false
}

// vNPAdmits: is a connection between `self` (the pod the policies are
// evaluated for) and `peer` admitted in the given direction on (port, proto)?
// For ingress the port is self's port, for egress the peer's.
func vNPAdmits(pols []netv1.NetworkPolicy, egress bool, self, peer vNPEnd, port int32, proto corev1.Protocol) (isolated, admitted bool) {
	want := netv1.PolicyTypeIngress
	if egress {
		want = netv1.PolicyTypeEgress
	}
	for i := range pols {
		pol := &pols[i]
		if pol.Namespace != self.NS || !vSelMatches(&pol.Spec.PodSelector, self.Labels) {
			continue
		}
		types := pol.Spec.PolicyTypes
		if len(types) == 0 {
			types = []netv1.PolicyType{netv1.PolicyTypeIngress}
			if len(pol.Spec.Egress) > 0 {
				types = append(types, netv1.PolicyTypeEgress)
			}
		}
		applies := false
		for _, t := range types {
			if t == want {
				applies = true
			}
		}
		if !applies {
			continue
		}
		isolated = true
		if egress {
			for _, r := range pol.Spec.Egress {
				ok := len(r.To) == 0
				for _, p := range r.To {
					if vNPPeerMatches(pol.Namespace, p, peer) {
						ok = true
					}
				}
				if ok && vNPPortMatches(r.Ports, port, proto) {
					admitted = true
				}
			}
		} else {
			for _, r := range pol.Spec.Ingress {
				ok := len(r.From) == 0
				for _, p := range r.From {
					if vNPPeerMatches(pol.Namespace, p, peer) {
						ok = true
					}
				}
				if ok && vNPPortMatches(r.Ports, port, proto) {
					admitted = true
				}
			}
		}
	}
	if !isolated {
		return false, true
	}
	return true, admitted
}
