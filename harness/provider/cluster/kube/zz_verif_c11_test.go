//go:build verif
// +build verif

package kube

// C11 — tenant workloads are sandboxed and capped to leased resources.
// DESIGN.md §5 C11.  The real client.Deploy() runs against fake clientsets;
// every object in the tracker (all namespaces) and every request the client
// made is then judged by an oracle written from the property statement:
//
//   object-in-lease-namespace   every request / object is in the namespace
//                               base32hex(sha224(lease path)); objects of other
//                               tenants are left byte-identical
//   selector-confined           no selector matches pods / namespaces of
//                               another tenant
//   container-unprivileged, no-privilege-escalation, no-service-account-token,
//   no-host-access              pod template
//   limits-equal-leased, requests-within-limits,
//   replicas-equal-count        caps
//   namespace-valid-dns-label, namespace-injective
//   ingress-from-outside-denied, egress-to-private-denied   (policies enabled)
//
// Oracle decisions on corners the statement leaves open (see the report):
//   * the akash Manifest CRD is provider bookkeeping, not a tenant workload:
//     it is required to be in the provider's own namespace under the name of
//     the lease namespace (that is where the provider lists it from), not in
//     the lease namespace;
//   * the set of objects after the update path is compared with the second
//     manifest only as a statistic (stale_after_update:*): staleness alone is
//     not a sandbox breach.  Its consequences are judged by the clauses above
//     (e.g. a left-over policy that keeps admitting outside traffic to a port
//     the tenant no longer exposes globally);
//   * "ports the tenant exposed globally" is read at the pod, where a
//     NetworkPolicy is enforced: (container port, protocol) of a global
//     expose that is not served through the HTTP ingress;
//   * nil `privileged` means false in Kubernetes and is accepted; nil
//     `allowPrivilegeEscalation` / `automountServiceAccountToken` default to
//     true and are not.

import (
	"crypto/sha256"
	"encoding/base32"
	"fmt"
	"runtime"
	"sort"
	"strings"
	"sync"
	"sync/atomic"
	"testing"

	appsv1 "k8s.io/api/apps/v1"
	corev1 "k8s.io/api/core/v1"
	netv1 "k8s.io/api/networking/v1"
	"k8s.io/apimachinery/pkg/api/meta"
	"k8s.io/apimachinery/pkg/api/resource"
	metav1 "k8s.io/apimachinery/pkg/apis/meta/v1"
	kruntime "k8s.io/apimachinery/pkg/runtime"
	ktesting "k8s.io/client-go/testing"

	vs "github.com/ovrclk/akash/verifsupport"
)

// labels restated from the provider's documentation of generated objects
const (
	vLblManaged   = "akash.network"
	vLblNamespace = "akash.network/namespace"
	vLblService   = "akash.network/manifest-service"
	// ingress controller as the policy is meant to admit it
	vIngressLabel = "app.kubernetes.io/name"
	vIngressValue = "ingress-nginx"
)

// vC11NS: lowercase, unpadded base32hex of sha224(lease path).
func vC11NS(l vC11Lease) string {
	h := sha256.Sum224([]byte(l.Path()))
	return strings.ToLower(base32.HexEncoding.WithPadding(base32.NoPadding).EncodeToString(h[:]))
}

func vC11DNSLabel(s string) bool {
	if len(s) < 1 || len(s) > 63 {
		return false
	}
	for i := 0; i < len(s); i++ {
		c := s[i]
		alnum := (c >= 'a' && c <= 'z') || (c >= '0' && c <= '9')
		if !alnum && !(c == '-' && i > 0 && i < len(s)-1) {
			return false
		}
	}
	return true
}

// vC11ExpectedRequest restates the documented commit-level computation: a
// level <= 1 commits the full amount; otherwise request = round(limit/level)
// (half up), at least 1.  Levels are multiples of 1/2, so level = n/2 and
// round(2*limit/n) = floor((4*limit+n)/(2n)) in integers.
func vC11ExpectedRequest(limit uint64, level float64) (uint64, bool) {
	if level <= 1 {
		return limit, true
	}
	n := uint64(level * 2)
	if float64(n) != level*2 || limit > 1<<60 {
		return 0, false
	}
	q := (4*limit + n) / (2 * n)
	if q < 1 {
		q = 1
	}
	return q, true
}

// ---- run-wide registry: namespace name -> lease ------------------------------

type vC11Registry struct {
	mu sync.Mutex
	m  map[string]vC11Lease
}

func (g *vC11Registry) record(ns string, l vC11Lease) (vC11Lease, bool) {
	g.mu.Lock()
	defer g.mu.Unlock()
	if o, ok := g.m[ns]; ok {
		return o, o != l
	}
	g.m[ns] = l
	return vC11Lease{}, false
}

func vC11LeaseDiff(a, b vC11Lease) string {
	var d []string
	if a.Owner != b.Owner {
		d = append(d, "owner")
	}
	if a.DSeq != b.DSeq {
		d = append(d, "dseq")
	}
	if a.GSeq != b.GSeq {
		d = append(d, "gseq")
	}
	if a.OSeq != b.OSeq {
		d = append(d, "oseq")
	}
	if a.Provider != b.Provider {
		d = append(d, "provider")
	}
	return "differ-in-" + strings.Join(d, "+")
}

// ---- one case ------------------------------------------------------------------

type vC11Run struct {
	res   *vs.Result
	reg   *vC11Registry
	c     *vC11Case
	phase string
	seen  map[string]bool
	// fault: the write that was answered with an injected API error ("" = none)
	fault string
}

func (r *vC11Run) violCase(rule, trigger, detail string, replay interface{}) {
	key := "C11/" + rule + "/" + trigger
	if r.fault != "" {
		key = "C11/" + rule + "/api-fault:" + strings.Replace(r.fault, " ", "-", -1) + "/" + trigger
		detail = "after an injected API error on '" + r.fault + "': " + detail
	}
	if r.seen[r.phase+key] {
		return
	}
	r.seen[r.phase+key] = true
	r.res.AddViolation(rule, key, r.phase+" path: "+detail, replay)
}

func (r *vC11Run) viol(rule, trigger, detail string) { r.violCase(rule, trigger, detail, r.c) }

func vC11BystanderGroup(c *vC11Case) vC11Group {
	mk := func(name string) vC11Service {
		return vC11Service{Name: name, Image: "bystander", CPU: 100, Mem: 64 * vMiB, Sto: 64 * vMiB, Count: 1, Expose: []vC11Expose{
			{Port: 80, Proto: "TCP", Global: true, Hosts: []string{"bystander.example.com"}},
			{Port: 7000, Proto: "TCP", Global: true},
			{Port: 7001, Proto: "UDP"},
		}}
	}
	first := "web"
	if len(c.Create.Services) > 0 {
		first = c.Create.Services[0].Name
	}
	return vC11Group{Name: "bystander", Services: []vC11Service{mk(first), mk("bystander-only")}}
}

// the namespace the client asked for first (Deploy starts with the lease
// namespace itself)
func vC11ObservedNS(actions []ktesting.Action) string {
	for _, a := range actions {
		if a.GetResource().Resource == "namespaces" {
			if g, ok := a.(ktesting.GetActionImpl); ok {
				return g.GetName()
			}
		}
	}
	return ""
}

func (r *vC11Run) noteNamespace(observed string, l vC11Lease) {
	if observed == "" {
		return
	}
	if !vC11DNSLabel(observed) {
		r.viol("namespace-valid-dns-label", "lease-namespace", fmt.Sprintf("namespace %q derived for lease %s is not a DNS-1123 label of at most 63 characters", observed, l.Path()))
	}
	r.res.Count("namespace_names_recorded", 1)
	if other, clash := r.reg.record(observed, l); clash {
		rc := *r.c
		rc.Lease, rc.Bystander = l, other
		r.violCase("namespace-injective", vC11LeaseDiff(l, other), fmt.Sprintf("leases %s and %s both map to namespace %q", l.Path(), other.Path(), observed), &rc)
	}
}

func vC11RunCase(res *vs.Result, reg *vC11Registry, c *vC11Case) {
	defer func() {
		if p := recover(); p != nil {
			res.Inconclusive(fmt.Sprintf("harness panic in case %d: %v", c.Index, p))
		}
	}()
	res.Eval(1)
	if err := validateSettings(c.Settings.ToKube()); err != nil {
		res.Count("settings_rejected_by_validation", 1)
		return
	}
	run := &vC11Run{res: res, reg: reg, c: c, phase: "bystander", seen: map[string]bool{}}
	env := vC11NewEnv(c.Settings)
	deployFailed := func(err error, p string) bool {
		if p != "" {
			res.Count("deploy_panics", 1)
			res.Extra("first_deploy_panic", fmt.Sprintf("case %d %s: %s", c.Index, run.phase, p))
			return true
		}
		if err != nil {
			res.Count("deploy_errors", 1)
			res.Extra("a_deploy_error", fmt.Sprintf("case %d %s: %v", c.Index, run.phase, err))
			return true
		}
		return false
	}

	// another tenant of the same provider, deployed first by the same client
	err, p := env.Deploy(c.Bystander, vC11BystanderGroup(c))
	deployFailed(err, p)
	run.noteNamespace(vC11ObservedNS(env.kc.Actions()), c.Bystander)
	env.kc.ClearActions()
	w0, err := env.World()
	if err != nil {
		res.Inconclusive("read-back failed: " + err.Error())
		return
	}
	snap := w0.Index()

	res.Distinct(vC11Shape(c))
	if res.WantSample() {
		res.Sample(c)
	}
	vC11CountCase(res, c)

	var prevIdx map[string]string
	for pi, phase := range []string{"create", "update"} {
		run.phase = phase
		g, prev := &c.Create, (*vC11Group)(nil)
		if pi == 1 {
			g, prev = &c.Update, &c.Create
		}
		env.kc.ClearActions()
		env.ac.ClearActions()
		err, p := env.Deploy(c.Lease, *g)
		failed := deployFailed(err, p)
		kActs, aActs := env.kc.Actions(), env.ac.Actions() // before the read-back adds its own
		w, err := env.World()
		if err != nil {
			res.Inconclusive("read-back failed: " + err.Error())
			return
		}
		idx := w.Index()
		run.check(kActs, aActs, w, idx, snap, g, prev, failed)
		res.Count("phases_checked:"+phase, 1)
		if pi == 1 {
			removed := 0
			for k := range prevIdx {
				if _, ok := idx[k]; !ok {
					removed++
				}
			}
			if removed > 0 {
				res.Count("update_removed_object", 1)
			}
		}
		prevIdx = idx
	}
}

// vC11FaultPass: API faults at every write of Deploy.  On the create path
// the k-th mutating request (create / update / patch /
// delete / delete-collection, on either clientset) is answered with an error,
// for every k up to the number of writes a fault-free Deploy makes; Deploy
// stops wherever it stops, and whatever exists then is judged by the same
// oracle (with "deploy failed": completeness is not demanded, only that
// nothing that exists is less confined than the statement allows).
func vC11FaultPass(res *vs.Result, reg *vC11Registry, c *vC11Case) {
	defer func() {
		if p := recover(); p != nil {
			res.Inconclusive(fmt.Sprintf("harness panic in the fault pass of case %d: %v", c.Index, p))
		}
	}()
	mutating := func(a ktesting.Action) bool {
		switch a.GetVerb() {
		case "create", "update", "patch", "delete", "delete-collection":
			return true
		}
		return false
	}
	setup := func(withCreate bool) (*vC11Env, map[string]string, bool) {
		env := vC11NewEnv(c.Settings)
		if err, p := env.Deploy(c.Bystander, vC11BystanderGroup(c)); err != nil || p != "" {
			return nil, nil, false
		}
		if withCreate {
			if err, p := env.Deploy(c.Lease, c.Create); err != nil || p != "" {
				return nil, nil, false
			}
		}
		w0, err := env.World()
		if err != nil {
			return nil, nil, false
		}
		snap := w0.Index()
		if withCreate {
			// the lease's own objects are not bystanders
			ns := vC11NS(c.Lease)
			for k := range snap {
				kind := k[:strings.Index(k, "/")]
				if strings.HasPrefix(k, "Manifest/") || k == "Namespace//"+ns || strings.HasPrefix(k[len(kind):], "/"+ns+"/") {
					delete(snap, k)
				}
			}
		}
		env.kc.ClearActions()
		env.ac.ClearActions()
		return env, snap, true
	}
	// (create path only: after a failed *update* an object may legitimately
	// still be the one generated from the earlier manifest, which this oracle
	// does not model)
	for pi, phase := range []string{"create"} {
		g, prev := &c.Create, (*vC11Group)(nil)
		// how many writes does the fault-free call make?
		env, _, ok := setup(pi == 1)
		if !ok {
			return
		}
		if err, p := env.Deploy(c.Lease, *g); err != nil || p != "" {
			return
		}
		writes := 0
		for _, a := range append(env.kc.Actions(), env.ac.Actions()...) {
			if mutating(a) {
				writes++
			}
		}
		for k := 1; k <= writes; k++ {
			env, snap, ok := setup(pi == 1)
			if !ok {
				return
			}
			var n int32
			var failedOn string
			react := func(a ktesting.Action) (bool, kruntime.Object, error) {
				if !mutating(a) {
					return false, nil, nil
				}
				if int(atomic.AddInt32(&n, 1)) == k {
					failedOn = a.GetVerb() + " " + a.GetResource().Resource
					return true, nil, fmt.Errorf("verif: injected API fault at write %d (%s)", k, failedOn)
				}
				return false, nil, nil
			}
			env.kc.PrependReactor("*", "*", react)
			env.ac.PrependReactor("*", "*", react)
			run := &vC11Run{res: res, reg: reg, c: c, phase: fmt.Sprintf("%s-fault", phase), seen: map[string]bool{}}
			err, p := env.Deploy(c.Lease, *g)
			kActs, aActs := env.kc.Actions(), env.ac.Actions()
			w, werr := env.World()
			if werr != nil {
				res.Inconclusive("read-back failed in the fault pass: " + werr.Error())
				return
			}
			res.Eval(1)
			res.Count("fault_points_checked", 1)
			res.Count("fault_points:"+phase, 1)
			if strings.Contains(failedOn, "networkpolicies") {
				res.Count("fault_points_on_a_policy_write", 1)
			}
			switch {
			case p != "":
				res.Count("fault_deploy_panicked", 1)
			case err == nil:
				res.Count("fault_swallowed_deploy_reported_success", 1)
				res.Count("fault_swallowed:"+failedOn, 1)
			default:
				res.Count("fault_deploy_reported_error", 1)
			}
			run.fault = failedOn
			run.check(kActs, aActs, w, w.Index(), snap, g, prev, true)
		}
	}
}

func vC11CountCase(res *vs.Result, c *vC11Case) {
	if c.Settings.NetPol {
		res.Count("cases_netpol_on", 1)
	} else {
		res.Count("cases_netpol_off", 1)
	}
	rc := c.Settings.RuntimeClass
	if rc == "" {
		rc = "default"
	}
	res.Count("cases_runtime_class:"+rc, 1)
	if c.Family != "" {
		res.Count("collision_family_ids", 1)
	}
	if c.Settings.StaticHosts {
		res.Count("cases_static_hosts", 1)
	}
	for _, g := range []*vC11Group{&c.Create, &c.Update} {
		for _, s := range g.Services {
			for _, e := range s.Env {
				if strings.HasPrefix(e, "AKASH_") {
					res.Count("env_akash_override_attempt", 1)
				}
			}
			for _, e := range s.Expose {
				if e.IsGlobalDirect() {
					res.Count("expose_global_direct", 1)
				}
				if e.IsHTTPIngress() {
					res.Count("expose_http_ingress", 1)
				}
				if e.Proto == "UDP" {
					res.Count("expose_udp", 1)
				}
				if e.As != 0 && e.As != e.Port {
					res.Count("expose_as_differs", 1)
				}
			}
		}
	}
	for _, op := range c.UpdateOps {
		res.Count("update_op:"+op, 1)
	}
}

// ---- the oracle ------------------------------------------------------------------

var vC11Resources = map[string]string{
	"/namespaces": "Namespace", "apps/deployments": "Deployment", "/services": "Service",
	"networking.k8s.io/ingresses": "Ingress", "networking.k8s.io/networkpolicies": "NetworkPolicy",
}

func (r *vC11Run) check(actions, manifestActions []ktesting.Action, w *vC11World, idx, snap map[string]string, g, prev *vC11Group, deployFailed bool) {
	c, res := r.c, r.res
	ns := vC11NS(c.Lease)

	// A. every request the client made
	observed := vC11ObservedNS(actions)
	r.noteNamespace(observed, c.Lease)
	if observed != ns {
		r.viol("object-in-lease-namespace", "Namespace", fmt.Sprintf("client asked for namespace %q, lease %s derives %q", observed, c.Lease.Path(), ns))
	}
	for _, a := range actions {
		gvr := a.GetResource()
		kind, known := vC11Resources[gvr.Group+"/"+gvr.Resource]
		if !known {
			kind = gvr.Resource
			res.Count("requests_for_other_resources", 1)
		}
		mutating := a.GetVerb() != "get" && a.GetVerb() != "list" && a.GetVerb() != "watch"
		where := a.GetNamespace()
		if gvr.Resource == "namespaces" {
			where = ""
			switch t := a.(type) {
			case ktesting.GetActionImpl:
				where = t.GetName()
			case ktesting.DeleteActionImpl:
				where = t.GetName()
			case ktesting.CreateActionImpl:
				if m, err := meta.Accessor(t.GetObject()); err == nil {
					where = m.GetName()
				}
			case ktesting.UpdateActionImpl:
				if m, err := meta.Accessor(t.GetObject()); err == nil {
					where = m.GetName()
				}
			}
		}
		res.Count("client_requests_audited", 1)
		if where == ns {
			continue
		}
		if mutating {
			r.viol("object-in-lease-namespace", kind, fmt.Sprintf("client sent %s %s in namespace %q; lease namespace is %q", a.GetVerb(), gvr.Resource, where, ns))
		} else {
			res.Count("reads_outside_lease_namespace", 1)
		}
	}
	for _, a := range manifestActions {
		if a.GetNamespace() != vC11ProviderNS && a.GetNamespace() != ns {
			r.viol("object-in-lease-namespace", "Manifest", fmt.Sprintf("manifest record %s in namespace %q", a.GetVerb(), a.GetNamespace()))
		}
	}

	// B. every object in the tracker: bystanders untouched, everything new is
	// in the lease namespace
	for k, before := range snap {
		after, ok := idx[k]
		kind := k[:strings.Index(k, "/")]
		if strings.HasPrefix(k, "Manifest/") || k == "Namespace//"+ns || strings.HasPrefix(k[len(kind):], "/"+ns+"/") {
			continue // the lease's own objects (only when namespaces collide)
		}
		res.Count("bystander_objects_compared", 1)
		if !ok {
			r.viol("object-in-lease-namespace", kind+"-of-other-tenant-deleted", fmt.Sprintf("%s existed before Deploy of lease %s and is gone", k, c.Lease.Path()))
		} else if after != before {
			r.viol("object-in-lease-namespace", kind+"-of-other-tenant-modified", fmt.Sprintf("%s changed by Deploy of lease %s:\n before %s\n after  %s", k, c.Lease.Path(), before, after))
		}
	}
	own := 0
	for k, js := range idx {
		if _, ok := snap[k]; ok {
			continue
		}
		parts := strings.SplitN(k, "/", 3)
		kind, ons, name := parts[0], parts[1], parts[2]
		switch kind {
		case "Namespace":
			if name != ns {
				r.viol("object-in-lease-namespace", kind, fmt.Sprintf("namespace %q created; lease namespace is %q", name, ns))
			}
		case "Manifest":
			// provider bookkeeping (see header): provider namespace, named after the lease namespace
			if !(ons == ns || (ons == vC11ProviderNS && name == ns)) {
				r.viol("object-in-lease-namespace", kind, fmt.Sprintf("manifest record %s/%s is tied neither to the lease namespace %q nor to the provider namespace: %s", ons, name, ns, js))
			}
			res.Count("manifest_records_checked", 1)
		default:
			if ons != ns {
				r.viol("object-in-lease-namespace", kind, fmt.Sprintf("%s %q is in namespace %q; lease namespace is %q: %s", kind, name, ons, ns, js))
			}
		}
		own++
	}
	res.Count("lease_objects_checked", own)

	// the lease namespace object
	var nsLabels map[string]string
	for i := range w.Namespaces {
		if w.Namespaces[i].Name == ns {
			nsLabels = w.Namespaces[i].Labels
		}
	}

	// another tenant, as labelled by this very provider
	otherNS := vC11NS(c.Bystander)
	otherNSLabels := map[string]string{vLblManaged: "true", vLblNamespace: otherNS}
	for i := range w.Namespaces {
		if w.Namespaces[i].Name == otherNS && otherNS != ns {
			otherNSLabels = w.Namespaces[i].Labels
		}
	}
	foreignPods := func(svc string) []map[string]string {
		return []map[string]string{
			{vLblManaged: "true", vLblNamespace: otherNS, vLblService: svc},
			{vLblManaged: "true", vLblNamespace: "0000000000000000000000000000000000000000000aa", vLblService: svc},
		}
	}

	// C. deployments: selectors, pod template, caps
	deps := map[string]*appsv1.Deployment{}
	for i := range w.Deployments {
		d := &w.Deployments[i]
		if d.Namespace != ns {
			continue
		}
		deps[d.Name] = d
		svc := g.find(d.Name)
		for _, fl := range foreignPods(d.Name) {
			if d.Spec.Selector == nil || vSelMatches(d.Spec.Selector, fl) {
				r.viol("selector-confined", "Deployment", fmt.Sprintf("deployment %q selector %v matches pods labelled for another lease %v", d.Name, d.Spec.Selector, fl))
			}
		}
		if tl := d.Spec.Template.Labels; tl[vLblNamespace] != "" && tl[vLblNamespace] != ns {
			r.viol("selector-confined", "Deployment-pod-labels", fmt.Sprintf("deployment %q labels its pods for namespace %q, lease namespace is %q", d.Name, tl[vLblNamespace], ns))
		}
		if d.Spec.Selector != nil && !vSelMatches(d.Spec.Selector, d.Spec.Template.Labels) {
			res.Count("deployment_selector_misses_own_template", 1)
		}
		r.checkPod(d, svc)
		if svc == nil {
			res.Count("stale_after_"+r.phase+":Deployment", 1)
			continue
		}
		if d.Spec.Replicas == nil || *d.Spec.Replicas != int32(svc.Count) {
			r.viol("replicas-equal-count", "Deployment", fmt.Sprintf("deployment %q has replicas %v, service count is %d", d.Name, d.Spec.Replicas, svc.Count))
		}
	}
	for _, s := range g.Services {
		if deps[s.Name] == nil {
			if deployFailed {
				res.Count("object_missing_after_failed_deploy:Deployment", 1)
				continue
			}
			res.Count("expected_object_missing:Deployment", 1)
			if !deployFailed {
				res.Extra("a_missing_deployment", fmt.Sprintf("case %d %s: service %q", c.Index, r.phase, s.Name))
			}
		}
	}

	// D. services, ingresses
	svcNames := map[string]bool{}
	for i := range w.Services {
		s := &w.Services[i]
		if s.Namespace != ns {
			continue
		}
		svcNames[s.Name] = true
		base := strings.TrimSuffix(s.Name, "-np")
		if len(s.Spec.Selector) > 0 {
			for _, fl := range foreignPods(base) {
				if vSelMatches(&metav1.LabelSelector{MatchLabels: s.Spec.Selector}, fl) {
					r.viol("selector-confined", "Service", fmt.Sprintf("service %q selector %v matches pods labelled for another lease %v", s.Name, s.Spec.Selector, fl))
				}
			}
		}
		if s.Spec.Type == corev1.ServiceTypeExternalName || len(s.Spec.ExternalIPs) > 0 {
			res.Count("service_external_name_or_ips", 1)
		}
		res.Count("services_checked", 1)
		wantLocal, wantGlobal := false, false
		if svc := g.find(base); svc != nil {
			for _, e := range svc.Expose {
				if e.IsGlobalDirect() {
					wantGlobal = true
				} else {
					wantLocal = true
				}
			}
		}
		if (strings.HasSuffix(s.Name, "-np") && !wantGlobal) || (!strings.HasSuffix(s.Name, "-np") && !wantLocal) {
			res.Count("stale_after_"+r.phase+":Service", 1)
		}
	}
	for i := range w.Ingresses {
		in := &w.Ingresses[i]
		if in.Namespace != ns {
			continue
		}
		res.Count("ingresses_checked", 1)
		want := false
		if svc := g.find(in.Name); svc != nil {
			for _, e := range svc.Expose {
				want = want || e.IsHTTPIngress()
			}
		}
		if !want {
			res.Count("stale_after_"+r.phase+":Ingress", 1)
		}
		for _, rule := range in.Spec.Rules {
			if rule.HTTP == nil {
				continue
			}
			for _, pth := range rule.HTTP.Paths {
				if pth.Backend.Service != nil && !svcNames[pth.Backend.Service.Name] {
					res.Count("ingress_backend_without_service", 1)
				}
			}
		}
	}

	// E. network policies
	var pols []netv1.NetworkPolicy
	for i := range w.NetPols {
		if w.NetPols[i].Namespace == ns {
			pols = append(pols, w.NetPols[i])
		}
	}
	if !c.Settings.NetPol {
		if len(pols) > 0 {
			res.Count("policies_although_disabled", 1)
		}
		return
	}
	r.checkPolicies(pols, deps, g, prev, ns, nsLabels, otherNS, otherNSLabels)
}

// checkPod: pod template of one deployment against the sandbox clauses and,
// when the service is known, the leased resources.
func (r *vC11Run) checkPod(d *appsv1.Deployment, svc *vC11Service) {
	res, st := r.res, r.c.Settings
	ps := &d.Spec.Template.Spec
	if ps.AutomountServiceAccountToken == nil || *ps.AutomountServiceAccountToken {
		r.viol("no-service-account-token", "pod", fmt.Sprintf("deployment %q: automountServiceAccountToken=%v", d.Name, ps.AutomountServiceAccountToken))
	}
	if ps.HostNetwork || ps.HostPID || ps.HostIPC {
		r.viol("no-host-access", "host-namespaces", fmt.Sprintf("deployment %q: hostNetwork=%v hostPID=%v hostIPC=%v", d.Name, ps.HostNetwork, ps.HostPID, ps.HostIPC))
	}
	for _, v := range ps.Volumes {
		if v.HostPath != nil {
			r.viol("no-host-access", "hostPath-volume", fmt.Sprintf("deployment %q mounts host path %q", d.Name, v.HostPath.Path))
		}
	}
	wantRC := st.RuntimeClass
	if wantRC == "none" {
		wantRC = ""
	}
	gotRC := ""
	if ps.RuntimeClassName != nil {
		gotRC = *ps.RuntimeClassName
	}
	if gotRC != wantRC {
		res.Count("runtime_class_differs_from_setting", 1)
	} else if gotRC != "" {
		res.Count("runtime_class_applied", 1)
	}
	containers := append(append([]corev1.Container(nil), ps.InitContainers...), ps.Containers...)
	if len(containers) != 1 {
		r.viol("limits-equal-leased", fmt.Sprintf("containers=%d", len(containers)), fmt.Sprintf("deployment %q runs %d containers for one leased service", d.Name, len(containers)))
	}
	for i := range containers {
		ct := &containers[i]
		res.Count("containers_checked", 1)
		sc := ct.SecurityContext
		if sc != nil && sc.Privileged != nil && *sc.Privileged {
			r.viol("container-unprivileged", "privileged", fmt.Sprintf("deployment %q container %q is privileged", d.Name, ct.Name))
		}
		if sc != nil && sc.Capabilities != nil && len(sc.Capabilities.Add) > 0 {
			res.Count("containers_with_added_capabilities", 1)
		}
		if sc == nil || sc.AllowPrivilegeEscalation == nil || *sc.AllowPrivilegeEscalation {
			v := "nil"
			if sc != nil && sc.AllowPrivilegeEscalation != nil {
				v = "true"
			}
			r.viol("no-privilege-escalation", "allowPrivilegeEscalation="+v, fmt.Sprintf("deployment %q container %q: allowPrivilegeEscalation is %s", d.Name, ct.Name, v))
		}
		for _, p := range ct.Ports {
			if p.HostPort != 0 {
				r.viol("no-host-access", "hostPort", fmt.Sprintf("deployment %q container %q binds host port %d", d.Name, ct.Name, p.HostPort))
			}
		}
		for _, e := range ct.Env {
			if strings.HasPrefix(e.Name, "AKASH_") && svc != nil {
				for _, te := range svc.Env {
					if strings.SplitN(te, "=", 2)[0] == e.Name {
						res.Count("akash_env_taken_from_tenant", 1)
					}
				}
			}
		}
		if svc == nil {
			continue
		}
		for _, x := range []struct {
			name   corev1.ResourceName
			leased uint64
			level  float64
			milli  bool
		}{
			{corev1.ResourceCPU, svc.CPU, st.CPULevel, true},
			{corev1.ResourceMemory, svc.Mem, st.MemLevel, false},
			{corev1.ResourceEphemeralStorage, svc.Sto, st.StoLevel, false},
		} {
			qty := func(v uint64) resource.Quantity {
				if x.milli {
					return *resource.NewMilliQuantity(int64(v), resource.DecimalSI)
				}
				return *resource.NewQuantity(int64(v), resource.DecimalSI)
			}
			trig := string(x.name)
			lim, ok := ct.Resources.Limits[x.name]
			want := qty(x.leased)
			if !ok || lim.Cmp(want) != 0 {
				r.viol("limits-equal-leased", trig, fmt.Sprintf("deployment %q container %q: limit %s = %v (set=%v), leased %s (commit level %v)", d.Name, ct.Name, x.name, lim.String(), ok, want.String(), x.level))
			}
			if x.level > 1 {
				res.Count("commit_level_gt1_checked", 1)
			} else {
				res.Count("commit_level_le1_checked", 1)
			}
			req, ok := ct.Resources.Requests[x.name]
			if !ok {
				res.Count("request_absent_defaults_to_limit", 1)
				continue
			}
			if req.Sign() <= 0 || req.Cmp(lim) > 0 {
				r.viol("requests-within-limits", trig, fmt.Sprintf("deployment %q container %q: request %s = %s, limit %s (commit level %v)", d.Name, ct.Name, x.name, req.String(), lim.String(), x.level))
			}
			if exp, ok := vC11ExpectedRequest(x.leased, x.level); ok {
				// (the statement bounds requests by the limits and nothing else:
				// how leased / commit level is rounded, or whether another value
				// below the limit is requested, is the provider's business -
				// counted, judged only by requests-within-limits above)
				if e := qty(exp); req.Cmp(e) != 0 {
					res.Count("requests_differ_from_leased_over_commit_level_rounded_to_nearest", 1)
				}
			}
		}
		for name := range ct.Resources.Limits {
			if name != corev1.ResourceCPU && name != corev1.ResourceMemory && name != corev1.ResourceEphemeralStorage {
				res.Count("limits_of_other_resources", 1)
			}
		}
	}
}

var (
	vC11EgressPrivate = []struct {
		class string
		ips   []string
	}{
		{"10.0.0.0/8", []string{"10.0.0.0", "10.0.0.1", "10.96.0.1", "10.244.3.7", "10.255.255.255"}},
		{"172.16.0.0/12", []string{"172.16.0.0", "172.17.0.1", "172.24.9.9", "172.31.255.255"}},
		{"192.168.0.0/16", []string{"192.168.0.0", "192.168.1.1", "192.168.255.255"}},
	}
	vC11EgressPublic = []string{"8.8.8.8", "1.1.1.1", "9.255.255.255", "11.0.0.0", "172.15.255.255", "172.32.0.0", "192.167.255.255", "192.169.0.0", "203.0.113.9"}
	vC11EgressPorts  = []int32{1, 22, 53, 80, 443, 2379, 6443, 10250, 65535}
	vC11Protos       = []corev1.Protocol{corev1.ProtocolTCP, corev1.ProtocolUDP, corev1.ProtocolSCTP}
)

func (r *vC11Run) checkPolicies(pols []netv1.NetworkPolicy, deps map[string]*appsv1.Deployment, g, prev *vC11Group, ns string, nsLabels map[string]string, otherNS string, otherNSLabels map[string]string) {
	res := r.res
	ingressNSLabels := map[string]string{vIngressLabel: vIngressValue}
	foreignNamespaces := []struct {
		class  string
		labels map[string]string
	}{
		{"other-tenant-namespace", otherNSLabels},
		{"system-namespace", map[string]string{"kubernetes.io/metadata.name": "kube-system"}},
		{"provider-namespace", map[string]string{vLblManaged: "true"}},
		{"unlabelled-namespace", map[string]string{}},
	}
	// selectors of policy peers: a namespaceSelector may select the lease
	// namespace or the ingress controller's, nothing else
	for i := range pols {
		pol := &pols[i]
		var peers []netv1.NetworkPolicyPeer
		for _, ru := range pol.Spec.Ingress {
			peers = append(peers, ru.From...)
		}
		for _, ru := range pol.Spec.Egress {
			peers = append(peers, ru.To...)
		}
		for _, p := range peers {
			if p.NamespaceSelector == nil {
				continue // ipBlock, or pods of the policy's own namespace
			}
			res.Count("policy_namespace_selectors_checked", 1)
			for _, f := range foreignNamespaces {
				if vSelMatches(p.NamespaceSelector, f.labels) {
					r.viol("selector-confined", "NetworkPolicy-"+f.class, fmt.Sprintf("policy %q namespaceSelector %v selects a namespace labelled %v", pol.Name, p.NamespaceSelector, f.labels))
				}
			}
		}
	}

	outside := []vNPEnd{
		{Class: "other-tenant-pod", Pod: true, NS: otherNS, NSLabels: otherNSLabels, Labels: map[string]string{vLblManaged: "true", vLblNamespace: otherNS, vLblService: "web"}, IP: "10.244.3.7"},
		{Class: "other-tenant-pod-unlabelled", Pod: true, NS: otherNS, NSLabels: otherNSLabels, Labels: map[string]string{}, IP: "172.17.0.9"},
		{Class: "system-namespace-pod", Pod: true, NS: "kube-system", NSLabels: map[string]string{"kubernetes.io/metadata.name": "kube-system"}, Labels: map[string]string{"k8s-app": "kube-dns"}, IP: "10.244.0.2"},
		{Class: "ingress-namespace-other-pod", Pod: true, NS: "ingress-nginx", NSLabels: ingressNSLabels, Labels: map[string]string{"app": "admission-webhook"}, IP: "10.244.0.9"},
		{Class: "provider-namespace-pod", Pod: true, NS: vC11ProviderNS, NSLabels: map[string]string{vLblManaged: "true"}, Labels: map[string]string{"app": "akash-provider"}, IP: "10.244.0.5"},
		{Class: "unlabelled-namespace-pod", Pod: true, NS: "default", NSLabels: map[string]string{}, Labels: map[string]string{"run": "shell"}, IP: "192.168.7.7"},
		{Class: "external-ip", IP: "8.8.8.8"},
		{Class: "external-ip", IP: "203.0.113.77"},
		{Class: "private-ip-not-a-pod", IP: "10.0.0.5"},
		{Class: "private-ip-not-a-pod", IP: "192.168.1.1"},
	}
	controller := vNPEnd{Class: "ingress-controller", Pod: true, NS: "ingress-nginx", NSLabels: ingressNSLabels, Labels: map[string]string{vIngressLabel: vIngressValue, "app.kubernetes.io/component": "controller"}, IP: "10.244.0.8"}

	for si := range g.Services {
		svc := &g.Services[si]
		d := deps[svc.Name]
		if d == nil {
			continue
		}
		self := vNPEnd{Pod: true, NS: ns, NSLabels: nsLabels, Labels: d.Spec.Template.Labels, IP: "10.244.9.9"}
		// a pod carrying this pod's labels in the other tenant's namespace
		spoof := vNPEnd{Class: "other-tenant-pod-spoofed-labels", Pod: true, NS: otherNS, NSLabels: otherNSLabels, Labels: map[string]string{vIngressLabel: vIngressValue}, IP: "10.244.3.8"}
		for k, v := range d.Spec.Template.Labels {
			spoof.Labels[k] = v
		}
		peers := append([]vNPEnd{spoof}, outside...)
		sibling := vNPEnd{Pod: true, NS: ns, NSLabels: nsLabels, Labels: map[string]string{vLblManaged: "true", vLblNamespace: ns, vLblService: "sibling"}, IP: "10.244.9.10"}

		// ---- ingress: every container port, both transport protocols
		portSet := map[int32]bool{}
		for _, ct := range d.Spec.Template.Spec.Containers {
			for _, p := range ct.Ports {
				portSet[p.ContainerPort] = true
			}
		}
		for _, e := range svc.Expose {
			portSet[int32(e.Port)] = true
		}
		var ports []int32
		for p := range portSet {
			ports = append(ports, p)
		}
		sort.Slice(ports, func(i, j int) bool { return ports[i] < ports[j] })
		for _, port := range ports {
			for _, proto := range vC11Protos[:2] {
				// "ports the tenant exposed globally" is read as DESIGN.md §5 C11
				// states it: the container port OR the external (`as`) port
				// number of a global, non-HTTP-ingress expose.  (The stricter
				// pod-port-only reading flags the policy builder for opening the
				// `as` number; the statement does not decide between the two, so
				// that case is counted, not alarmed.)
				admissible := false
				viaExtOnly := false
				for _, e := range svc.Expose {
					if e.IsGlobalDirect() && e.Proto == string(proto) {
						if int32(e.Port) == port {
							admissible = true
							viaExtOnly = false
							break
						}
						if e.ExtPort() == port {
							admissible = true
							viaExtOnly = true
						}
					}
				}
				var admittedFrom []string
				notIsolated := false
				for _, peer := range peers {
					iso, adm := vNPAdmits(pols, false, self, peer, port, proto)
					if !iso {
						notIsolated = true
					}
					if adm {
						admittedFrom = append(admittedFrom, peer.Class)
					}
				}
				if admissible {
					if viaExtOnly && len(admittedFrom) > 0 {
						res.Count("admitted_on_external_port_number_of_a_global_expose", 1)
					}
					if len(admittedFrom) > 0 {
						res.Count("global_port_admitted_from_outside", 1)
					} else {
						res.Count("global_port_not_admitted_by_policy", 1)
					}
				} else if len(admittedFrom) == 0 {
					res.Count("ingress_probes_denied", len(peers))
				} else {
					// which kind of port is wrongly open
					pclass := "port-not-exposed-globally"
					for _, e := range svc.Expose {
						if e.IsGlobalDirect() && e.ExtPort() == port && e.Proto == string(proto) {
							pclass = "port-equals-external-port-of-a-global-expose"
						}
					}
					if pclass == "port-not-exposed-globally" && prev != nil {
						if ps := prev.find(svc.Name); ps != nil {
							for _, e := range ps.Expose {
								if e.IsGlobalDirect() && e.ExtPort() == port && e.Proto == string(proto) {
									// (the listed finding is the case in which the service has
									// no global port left, so that its policy should have been
									// deleted; a service that still has one gets its policy
									// rebuilt by the update, and the old port must be gone)
									pclass = "port-exposed-globally-before-update"
									for _, ne := range svc.Expose {
										if ne.IsGlobalDirect() {
											pclass = "port-of-the-earlier-manifest-in-a-policy-that-the-update-rebuilds"
										}
									}
								}
							}
						}
					}
					src := vUniqStrings(admittedFrom)
					if notIsolated {
						src = []string{"pod-not-isolated"}
					} else if len(admittedFrom) == len(peers) {
						src = []string{"any-source"}
					}
					for _, s := range src {
						r.viol("ingress-from-outside-denied", s+"/"+pclass, fmt.Sprintf("pod of service %q admits ingress on %d/%s from %v; exposes of the service: %+v; policies: %s", svc.Name, port, proto, vUniqStrings(admittedFrom), svc.Expose, vC11PolText(pols)))
					}
				}
				if _, adm := vNPAdmits(pols, false, self, controller, port, proto); adm {
					res.Count("ingress_controller_admitted", 1)
				} else {
					res.Count("ingress_controller_denied", 1)
				}
				if _, adm := vNPAdmits(pols, false, self, sibling, port, proto); adm {
					res.Count("same_namespace_ingress_admitted", 1)
				} else {
					res.Count("same_namespace_ingress_denied", 1)
				}
			}
		}

		// ---- egress to private ranges outside the namespace
		type dest struct {
			class string
			end   vNPEnd
		}
		var dests []dest
		for _, rg := range vC11EgressPrivate {
			for _, ip := range rg.ips {
				dests = append(dests, dest{rg.class, vNPEnd{IP: ip}})
			}
		}
		dests = append(dests,
			dest{"other-tenant-pod", outside[0]},
			dest{"system-namespace-pod", outside[2]},
			dest{"provider-namespace-pod", outside[4]},
		)
		for _, dst := range dests {
			for _, port := range vC11EgressPorts {
				for _, proto := range vC11Protos {
					iso, adm := vNPAdmits(pols, true, self, dst.end, port, proto)
					if port == 53 && proto != corev1.ProtocolSCTP {
						if adm {
							res.Count("egress_dns_to_private_admitted", 1)
						}
						continue
					}
					if !adm {
						res.Count("egress_private_probes_denied", 1)
						continue
					}
					trig := dst.class
					if !iso {
						trig += "/pod-not-isolated"
					}
					r.viol("egress-to-private-denied", trig, fmt.Sprintf("pod of service %q may connect to %s (%s) on %d/%s; policies: %s", svc.Name, dst.end.IP, dst.class, port, proto, vC11PolText(pols)))
				}
			}
		}
		for _, ip := range vC11EgressPublic {
			if _, adm := vNPAdmits(pols, true, self, vNPEnd{IP: ip}, 443, corev1.ProtocolTCP); adm {
				res.Count("egress_public_admitted", 1)
			} else {
				res.Count("egress_public_denied", 1)
			}
		}
		if _, adm := vNPAdmits(pols, true, self, sibling, 8080, corev1.ProtocolTCP); adm {
			res.Count("same_namespace_egress_admitted", 1)
		} else {
			res.Count("same_namespace_egress_denied", 1)
		}
	}

	// policies left over for services / ports of the previous manifest
	for i := range pols {
		name := pols[i].Name
		if name == "akash-deployment-restrictions" {
			continue
		}
		want := false
		if svc := g.find(strings.TrimSuffix(strings.TrimPrefix(name, "akash-"), "-np")); svc != nil {
			for _, e := range svc.Expose {
				want = want || e.IsGlobalDirect()
			}
		}
		if !want {
			res.Count("stale_after_"+r.phase+":NetworkPolicy", 1)
		}
	}
}

func vUniqStrings(in []string) []string {
	m := map[string]bool{}
	var out []string
	for _, s := range in {
		if !m[s] {
			m[s] = true
			out = append(out, s)
		}
	}
	sort.Strings(out)
	return out
}

func vC11PolText(pols []netv1.NetworkPolicy) string {
	var sb strings.Builder
	for i := range pols {
		p := &pols[i]
		sb.WriteString(fmt.Sprintf("[%s podSelector=%v types=%v", p.Name, p.Spec.PodSelector.MatchLabels, p.Spec.PolicyTypes))
		for _, ru := range p.Spec.Ingress {
			var ps []string
			for _, pp := range ru.Ports {
				pr := "TCP"
				if pp.Protocol != nil {
					pr = string(*pp.Protocol)
				}
				ps = append(ps, fmt.Sprintf("%v/%s", pp.Port, pr))
			}
			sb.WriteString(fmt.Sprintf(" ingress{from=%d peers ports=%v}", len(ru.From), ps))
		}
		for _, ru := range p.Spec.Egress {
			for _, to := range ru.To {
				if to.IPBlock != nil {
					sb.WriteString(fmt.Sprintf(" egress{%s except %v ports=%d}", to.IPBlock.CIDR, to.IPBlock.Except, len(ru.Ports)))
				}
			}
		}
		sb.WriteString("] ")
	}
	return sb.String()
}

// ---- entry point -------------------------------------------------------------

func TestVerif_C11(t *testing.T) {
	res := vs.NewResult("C11", "exploration",
		"random and directed cases (lease id incl. collision families x manifest group of 1-4 services with env/exposes/counts/resources x provider settings: commit levels {0,0.5,1,1.5,2,10}, static hosts, network policies, runtime class); each case: a bystander tenant is deployed, then the real client.Deploy() runs twice on fake clientsets (create path, then update path with a service removed / an expose changed); after each, every request the client made and every object in every namespace is judged: namespace = base32hex(sha224(lease path)), other tenants' objects byte-identical, selectors, pod security, limits == leased, requests per commit level, and (policies enabled) an independent NetworkPolicy evaluator probes ingress from 11 outside peers on every container port and egress to 15 private destinations on 9 ports x 3 protocols. distinct = (settings flags, family, #services and expose kinds, update operations)")
	res.Assume("client-go fake clientset (object tracker) stands for the API server: it stores objects under the namespace of the request; delete-collection is supplied by the harness as list+label filter+delete")
	res.Assume("NetworkPolicy semantics as documented for networking.k8s.io/v1 (union of rules, isolation per direction, ipBlock matched against the peer address)")
	res.Assume("namespace labels of other tenants are those this provider itself writes; tenants cannot label namespaces or pods")
	defer func() {
		if err := res.Write(); err != nil {
			t.Errorf("result record: %v", err)
		}
		if res.Violations() > 0 {
			t.Errorf("C11: %d violation(s)", res.Violations())
		}
	}()
	reg := &vC11Registry{m: map[string]vC11Lease{}}

	if rf := vs.ReplayFile(); rf != "" {
		var c vC11Case
		if err := vs.LoadReplay(rf, &c); err != nil {
			res.Inconclusive("cannot load replay file: " + err.Error())
			return
		}
		vC11RunCase(res, reg, &c)
		vC11FaultPass(res, reg, &c)
		return
	}

	for _, f := range []string{"fault_points_checked", "fault_points:create", "fault_deploy_reported_error", "cases_netpol_on", "cases_netpol_off", "cases_runtime_class:default", "cases_runtime_class:none", "cases_runtime_class:gvisor",
		"runtime_class_applied", "commit_level_gt1_checked", "commit_level_le1_checked", "expose_global_direct", "expose_http_ingress", "expose_udp", "expose_as_differs",
		"env_akash_override_attempt", "update_removed_object", "collision_family_ids", "containers_checked", "services_checked", "ingresses_checked",
		"manifest_records_checked", "bystander_objects_compared", "client_requests_audited", "namespace_names_recorded", "policy_namespace_selectors_checked",
		"ingress_probes_denied", "egress_private_probes_denied", "egress_public_admitted", "ingress_controller_admitted", "global_port_admitted_from_outside",
		"phases_checked:create", "phases_checked:update", "update_op:remove-service", "update_op:expose-global-to-local", "update_op:expose-local-to-global"} {
		res.Floor(f, 1)
	}
	n := vs.Scale(2000, 50000)
	seed := vs.Seed()
	vs.Parallel(n, runtime.NumCPU(), func(i int) {
		c := vC11GenCase(seed, i)
		vC11RunCase(res, reg, &c)
		if i%vs.Scale(8, 4) == 0 {
			vC11FaultPass(res, reg, &c)
		}
	})
	if e := res.Counter("deploy_errors") + res.Counter("deploy_panics"); e > 0 {
		res.Inconclusive(fmt.Sprintf("Deploy failed on %d generated inputs; those cases were judged only on what had been written", e))
	}
	if m := res.Counter("expected_object_missing:Deployment"); m > 0 {
		res.Inconclusive(fmt.Sprintf("%d services had no deployment after a successful Deploy", m))
	}
}
