//go:build verif
// +build verif

package kube

// C11 — case model and generator (lease ids x manifest groups x settings).
// The case is kept in plain JSON-serialisable structs (they are the replay
// record and the oracle's source of "what was leased"); conversion to the
// repository's types happens only at the Deploy() boundary.

import (
	"fmt"
	"sort"
	"strings"

	sdk "github.com/cosmos/cosmos-sdk/types"

	"github.com/ovrclk/akash/manifest"
	"github.com/ovrclk/akash/types"
	vs "github.com/ovrclk/akash/verifsupport"
	mtypes "github.com/ovrclk/akash/x/market/types"
)

type vC11Expose struct {
	Port    uint16   `json:"port"`
	As      uint16   `json:"as"`
	Proto   string   `json:"proto"`
	Global  bool     `json:"global"`
	Service string   `json:"service,omitempty"`
	Hosts   []string `json:"hosts,omitempty"`
}

type vC11Service struct {
	Name   string       `json:"name"`
	Image  string       `json:"image"`
	Env    []string     `json:"env,omitempty"`
	CPU    uint64       `json:"cpu_milli"`
	Mem    uint64       `json:"memory_bytes"`
	Sto    uint64       `json:"storage_bytes"`
	Count  uint32       `json:"count"`
	Expose []vC11Expose `json:"expose,omitempty"`
}

type vC11Group struct {
	Name     string        `json:"name"`
	Services []vC11Service `json:"services"`
}

type vC11Lease struct {
	Owner    string `json:"owner"`
	DSeq     uint64 `json:"dseq"`
	GSeq     uint32 `json:"gseq"`
	OSeq     uint32 `json:"oseq"`
	Provider string `json:"provider"`
}

type vC11Settings struct {
	StaticHosts    bool    `json:"static_hosts"`
	Domain         string  `json:"domain"`
	ExposeLBHosts  bool    `json:"expose_lb_hosts"`
	PublicHostname string  `json:"public_hostname"`
	NetPol         bool    `json:"network_policies"`
	CPULevel       float64 `json:"cpu_commit_level"`
	MemLevel       float64 `json:"memory_commit_level"`
	StoLevel       float64 `json:"storage_commit_level"`
	RuntimeClass   string  `json:"runtime_class"`
}

type vC11Case struct {
	Index     int          `json:"index"`
	Family    string       `json:"family,omitempty"`
	Lease     vC11Lease    `json:"lease"`
	Bystander vC11Lease    `json:"bystander_lease"`
	Settings  vC11Settings `json:"settings"`
	Create    vC11Group    `json:"create_group"`
	Update    vC11Group    `json:"update_group"`
	UpdateOps []string     `json:"update_ops"`
}

// the lease path as documented: owner/dseq/gseq/oseq/provider
func (l vC11Lease) Path() string {
	return fmt.Sprintf("%s/%d/%d/%d/%s", l.Owner, l.DSeq, l.GSeq, l.OSeq, l.Provider)
}

func (l vC11Lease) ToAkash() mtypes.LeaseID {
	return mtypes.LeaseID{Owner: l.Owner, DSeq: l.DSeq, GSeq: l.GSeq, OSeq: l.OSeq, Provider: l.Provider}
}

func (s vC11Settings) ToKube() Settings {
	return Settings{
		DeploymentServiceType:          "ClusterIP",
		DeploymentIngressStaticHosts:   s.StaticHosts,
		DeploymentIngressDomain:        s.Domain,
		DeploymentIngressExposeLBHosts: s.ExposeLBHosts,
		ClusterPublicHostname:          s.PublicHostname,
		NetworkPoliciesEnabled:         s.NetPol,
		CPUCommitLevel:                 s.CPULevel,
		MemoryCommitLevel:              s.MemLevel,
		StorageCommitLevel:             s.StoLevel,
		DeploymentRuntimeClass:         s.RuntimeClass,
	}
}

func (g vC11Group) ToAkash() *manifest.Group {
	out := &manifest.Group{Name: g.Name}
	for _, s := range g.Services {
		ms := manifest.Service{
			Name:  s.Name,
			Image: s.Image,
			Env:   append([]string(nil), s.Env...),
			Count: s.Count,
			Resources: types.ResourceUnits{
				CPU:     &types.CPU{Units: types.NewResourceValue(s.CPU)},
				Memory:  &types.Memory{Quantity: types.NewResourceValue(s.Mem)},
				Storage: &types.Storage{Quantity: types.NewResourceValue(s.Sto)},
			},
		}
		for _, e := range s.Expose {
			ms.Expose = append(ms.Expose, manifest.ServiceExpose{
				Port: e.Port, ExternalPort: e.As, Proto: manifest.ServiceProtocol(e.Proto),
				Service: e.Service, Global: e.Global, Hosts: append([]string(nil), e.Hosts...),
			})
		}
		out.Services = append(out.Services, ms)
	}
	return out
}

func (g vC11Group) clone() vC11Group {
	out := vC11Group{Name: g.Name}
	for _, s := range g.Services {
		c := s
		c.Env = append([]string(nil), s.Env...)
		c.Expose = nil
		for _, e := range s.Expose {
			ce := e
			ce.Hosts = append([]string(nil), e.Hosts...)
			c.Expose = append(c.Expose, ce)
		}
		out.Services = append(out.Services, c)
	}
	return out
}

func (g vC11Group) find(name string) *vC11Service {
	for i := range g.Services {
		if g.Services[i].Name == name {
			return &g.Services[i]
		}
	}
	return nil
}

// ---- what an expose means (restated from the provider documentation) --------

// external port: `as` when given, else the container port
func (e vC11Expose) ExtPort() int32 {
	if e.As != 0 {
		return int32(e.As)
	}
	return int32(e.Port)
}

// an expose is served through the HTTP ingress controller iff it is global,
// TCP and its external port is 80
func (e vC11Expose) IsHTTPIngress() bool { return e.Global && e.Proto == "TCP" && e.ExtPort() == 80 }

// a directly (node-port) exposed global port
func (e vC11Expose) IsGlobalDirect() bool { return e.Global && !e.IsHTTPIngress() }

func (e vC11Expose) kind() string {
	k := "local"
	if e.IsHTTPIngress() {
		k = "http"
	} else if e.Global {
		k = "global"
	}
	k += "-" + strings.ToLower(e.Proto)
	if e.As != 0 && e.As != e.Port {
		k += "-as"
	}
	if len(e.Hosts) > 0 {
		k += "-hosts"
	}
	return k
}

// ---- generator ---------------------------------------------------------------

var (
	vC11Names  = []string{"web", "api", "db", "cache", "worker", "proxy", "svc-7", "a"}
	vC11Images = []string{"nginx:1.21", "quay.io/ovrclk/demo-app", "redis", "postgres:13@sha256:0123"}
	vC11Ports  = []uint16{80, 8080, 443, 3000, 53, 5000, 9090, 65535, 1, 8081}
	vC11AsPort = []uint16{0, 0, 0, 80, 8080, 443, 9090, 3000, 31000}
	// commit levels: every value is a multiple of 1/2 (the oracle relies on it)
	vC11Levels    = []float64{0, 0.5, 1, 1.5, 2, 10}
	vC11RTClasses = []string{"", "none", "gvisor"}
	vC11AkashEnv  = []string{"AKASH_OWNER=mallory", "AKASH_PROVIDER=nobody", "AKASH_GROUP_SEQUENCE=999", "AKASH_DEPLOYMENT_SEQUENCE",
		"AKASH_ORDER_SEQUENCE=", "AKASH_CLUSTER_PUBLIC_HOSTNAME=evil.example.org"}
)

const (
	vMiB = uint64(1) << 20
	vGiB = uint64(1) << 30
)

func vC11Addr(r *vs.Rand) string { return sdk.AccAddress(r.Bytes(20)).String() }

func vC11GenExpose(r *vs.Rand, others []string) vC11Expose {
	e := vC11Expose{Port: vC11Ports[r.Intn(len(vC11Ports))], As: vC11AsPort[r.Intn(len(vC11AsPort))], Proto: "TCP"}
	if r.Chance(1, 3) {
		e.Proto = "UDP"
	}
	e.Global = r.Chance(3, 5)
	switch r.Intn(6) {
	case 0: // plain http
		e.Port, e.As, e.Proto, e.Global = 80, 0, "TCP", true
	case 1: // http through `as`
		e.As, e.Proto, e.Global = 80, "TCP", true
	}
	if r.Chance(1, 20) {
		e.Port = uint16(r.Range(1, 65535))
	}
	if e.IsHTTPIngress() {
		for i, n := 0, r.Intn(3); i < n; i++ {
			e.Hosts = append(e.Hosts, fmt.Sprintf("h%d-%d.tenant.example.com", r.Intn(1000), i))
		}
	}
	if !e.Global && len(others) > 0 && r.Bool() {
		e.Service = others[r.Intn(len(others))]
	}
	return e
}

func vC11GenService(r *vs.Rand, name string, others []string) vC11Service {
	s := vC11Service{Name: name, Image: vC11Images[r.Intn(len(vC11Images))], Count: uint32(r.Range(1, 3))}
	switch r.Intn(4) {
	case 0:
		s.CPU = []uint64{10, 15, 25, 35, 100, 1000, 4000, 11, 3999}[r.Intn(9)]
	default:
		s.CPU = uint64(r.Range(10, 4000))
	}
	switch r.Intn(4) {
	case 0:
		s.Mem = []uint64{vMiB, 16 * vGiB, vGiB, 512 * vMiB, vMiB + 1, 128*vMiB + 5}[r.Intn(6)]
	case 1:
		s.Mem = vMiB * uint64(r.Range(1, 16384))
	default:
		s.Mem = vMiB + uint64(r.Int63n(int64(16*vGiB-vMiB)))
	}
	switch r.Intn(4) {
	case 0:
		s.Sto = []uint64{5 * vMiB, 1024 * vGiB, vGiB, 5*vMiB + 5, 100*vMiB + 15}[r.Intn(5)]
	case 1:
		s.Sto = vMiB * uint64(r.Range(5, 1<<20))
	default:
		s.Sto = 5*vMiB + uint64(r.Int63n(int64(1024*vGiB-5*vMiB)))
	}
	for i, n := 0, r.Intn(3); i < n; i++ {
		s.Env = append(s.Env, fmt.Sprintf("VAR_%d=v%d", i, r.Intn(100)))
	}
	if r.Chance(1, 4) {
		s.Env = append(s.Env, vC11AkashEnv[r.Intn(len(vC11AkashEnv))])
	}
	for i, n := 0, []int{0, 1, 1, 2, 2, 3}[r.Intn(6)]; i < n; i++ {
		s.Expose = append(s.Expose, vC11GenExpose(r, others))
	}
	return s
}

func vC11GenGroup(r *vs.Rand) vC11Group {
	g := vC11Group{Name: []string{"westcoast", "dcloud", "g"}[r.Intn(3)]}
	n := r.Range(1, 4)
	perm := r.Perm(len(vC11Names))
	var names []string
	for i := 0; i < n; i++ {
		names = append(names, vC11Names[perm[i]])
	}
	for i := 0; i < n; i++ {
		g.Services = append(g.Services, vC11GenService(r, names[i], names))
	}
	return g
}

// vC11Mutate derives the second manifest: always at least one structural
// change (service removed / expose changed), plus optional further edits.
func vC11Mutate(r *vs.Rand, g vC11Group) (vC11Group, []string) {
	out := g.clone()
	var ops []string
	pickExpose := func() (*vC11Service, int) {
		var cand []int
		for i := range out.Services {
			if len(out.Services[i].Expose) > 0 {
				cand = append(cand, i)
			}
		}
		if len(cand) == 0 {
			return nil, 0
		}
		s := &out.Services[cand[r.Intn(len(cand))]]
		return s, r.Intn(len(s.Expose))
	}
	apply := func(op int) {
		switch op {
		case 0: // remove a service
			if len(out.Services) >= 2 {
				i := r.Intn(len(out.Services))
				out.Services = append(out.Services[:i], out.Services[i+1:]...)
				ops = append(ops, "remove-service")
			}
		case 1: // flip global
			if s, i := pickExpose(); s != nil {
				s.Expose[i].Global = !s.Expose[i].Global
				if !s.Expose[i].IsHTTPIngress() {
					s.Expose[i].Hosts = nil
				}
				if s.Expose[i].Global {
					ops = append(ops, "expose-local-to-global")
				} else {
					ops = append(ops, "expose-global-to-local")
				}
			}
		case 2: // change container port
			if s, i := pickExpose(); s != nil {
				s.Expose[i].Port = vC11Ports[r.Intn(len(vC11Ports))]
				if !s.Expose[i].IsHTTPIngress() {
					s.Expose[i].Hosts = nil
				}
				ops = append(ops, "expose-port")
			}
		case 3: // change external port
			if s, i := pickExpose(); s != nil {
				s.Expose[i].As = vC11AsPort[r.Intn(len(vC11AsPort))]
				if !s.Expose[i].IsHTTPIngress() {
					s.Expose[i].Hosts = nil
				}
				ops = append(ops, "expose-as")
			}
		case 4: // change protocol
			if s, i := pickExpose(); s != nil {
				if s.Expose[i].Proto == "TCP" {
					s.Expose[i].Proto = "UDP"
				} else {
					s.Expose[i].Proto = "TCP"
				}
				if !s.Expose[i].IsHTTPIngress() {
					s.Expose[i].Hosts = nil
				}
				ops = append(ops, "expose-proto")
			}
		case 5: // remove an expose
			if s, i := pickExpose(); s != nil {
				s.Expose = append(s.Expose[:i], s.Expose[i+1:]...)
				ops = append(ops, "remove-expose")
			}
		case 6: // add an expose
			s := &out.Services[r.Intn(len(out.Services))]
			s.Expose = append(s.Expose, vC11GenExpose(r, nil))
			ops = append(ops, "add-expose")
		case 7: // add a service
			if len(out.Services) < 4 {
				for _, n := range vC11Names {
					if out.find(n) == nil {
						out.Services = append(out.Services, vC11GenService(r, n, nil))
						ops = append(ops, "add-service")
						break
					}
				}
			}
		case 8: // resources / count
			s := &out.Services[r.Intn(len(out.Services))]
			s.CPU = uint64(r.Range(10, 4000))
			s.Mem = vMiB * uint64(r.Range(1, 16384))
			s.Count = uint32(r.Range(1, 3))
			ops = append(ops, "resources")
		case 9, 10, 11, 12, 13, 14: // exactly one thing of one service changes
			s := &out.Services[r.Intn(len(out.Services))]
			switch op {
			case 9:
				s.Sto = vMiB * uint64(r.Range(1, 16384))
				ops = append(ops, "only-storage")
			case 10:
				s.CPU = uint64(r.Range(10, 4000))
				ops = append(ops, "only-cpu")
			case 11:
				s.Mem = vMiB * uint64(r.Range(1, 16384))
				ops = append(ops, "only-memory")
			case 12:
				s.Count = s.Count%3 + 1
				ops = append(ops, "only-count")
			case 13:
				s.Image = s.Image + "-v2"
				ops = append(ops, "only-image")
			case 14:
				s.Env = append(append([]string(nil), s.Env...), "ADDED=1")
				ops = append(ops, "only-env")
			}
		}
	}
	if r.Chance(1, 4) {
		// a small update: one or two single-field changes, nothing else (an
		// "is this object up to date?" shortcut must notice each of them)
		apply(9 + r.Intn(6))
		if r.Bool() {
			apply(9 + r.Intn(6))
		}
		sort.Strings(ops)
		return out, ops
	}
	apply([]int{0, 0, 1, 1, 2, 3, 4, 5}[r.Intn(8)])
	for i, n := 0, r.Intn(3); i < n; i++ {
		apply(r.Intn(15))
	}
	if len(ops) == 0 {
		apply(6)
	}
	sort.Strings(ops)
	return out, ops
}

// vC11GenLease: every fifth case belongs to a "collision family" of eight
// lease ids sharing one base (owner, provider): (dseq,gseq,oseq) triples whose
// decimal concatenation coincides, ids differing only in provider / owner /
// oseq / gseq, and owner and provider swapped.
func vC11GenLease(seed int64, i int, r *vs.Rand) (vC11Lease, string) {
	if i%5 != 0 {
		l := vC11Lease{Owner: vC11Addr(r), Provider: vC11Addr(r), DSeq: uint64(r.Range(1, 5000)), GSeq: uint32(r.Range(1, 3)), OSeq: uint32(r.Range(1, 3))}
		if r.Chance(1, 8) {
			l.DSeq = r.Uint64()
		}
		return l, ""
	}
	fr := vs.NewRand(seed, uint64(1)<<40+uint64(i/40))
	owner, prov, owner2, prov2 := vC11Addr(fr), vC11Addr(fr), vC11Addr(fr), vC11Addr(fr)
	base := uint64(fr.Range(1, 9))
	m := (i % 40) / 5
	l := vC11Lease{Owner: owner, Provider: prov, DSeq: base, GSeq: 23, OSeq: 4}
	fam := ""
	switch m {
	case 0:
		fam = "seq-1-23-4"
	case 1:
		l.DSeq, l.GSeq, l.OSeq, fam = base*10+2, 3, 4, "seq-12-3-4"
	case 2:
		l.DSeq, l.GSeq, l.OSeq, fam = base, 2, 34, "seq-1-2-34"
	case 3:
		l.Provider, fam = prov2, "provider-only"
	case 4:
		l.Owner, fam = owner2, "owner-only"
	case 5:
		l.Owner, l.Provider, fam = prov, owner, "owner-provider-swapped"
	case 6:
		l.OSeq, fam = 5, "oseq-only"
	case 7:
		l.GSeq, fam = 24, "gseq-only"
	}
	return l, fam
}

func vC11GenCase(seed int64, i int) vC11Case {
	r := vs.NewRand(seed, uint64(i))
	c := vC11Case{Index: i}
	c.Lease, c.Family = vC11GenLease(seed, i, r)
	// bystander tenant on the same provider: same owner's other deployment,
	// or a different owner
	c.Bystander = c.Lease
	if r.Bool() {
		c.Bystander.DSeq = c.Lease.DSeq + 1000
	} else {
		c.Bystander.Owner = vC11Addr(r)
	}
	c.Settings = vC11Settings{
		StaticHosts:    r.Bool(),
		ExposeLBHosts:  r.Bool(),
		PublicHostname: "cluster.provider.example.net",
		NetPol:         i%2 == 0 || r.Chance(1, 4),
		CPULevel:       vC11Levels[r.Intn(len(vC11Levels))],
		MemLevel:       vC11Levels[r.Intn(len(vC11Levels))],
		StoLevel:       vC11Levels[r.Intn(len(vC11Levels))],
		RuntimeClass:   vC11RTClasses[r.Intn(len(vC11RTClasses))],
	}
	if c.Settings.StaticHosts || r.Bool() {
		c.Settings.Domain = []string{"ingress.provider.example.net", "apps.akash.test"}[r.Intn(2)]
	}
	c.Create = vC11GenGroup(r)
	c.Update, c.UpdateOps = vC11Mutate(r, c.Create)
	return c
}

// vC11Shape is the abstraction key of a case.
func vC11Shape(c *vC11Case) string {
	lv := func(x float64) string {
		if x > 1 {
			return ">1"
		}
		return "<=1"
	}
	grp := func(g vC11Group) string {
		var ss []string
		for _, s := range g.Services {
			var ks []string
			for _, e := range s.Expose {
				ks = append(ks, e.kind())
			}
			sort.Strings(ks)
			ss = append(ss, "["+strings.Join(ks, ",")+"]")
		}
		sort.Strings(ss)
		return fmt.Sprintf("%d%s", len(g.Services), strings.Join(ss, ""))
	}
	return fmt.Sprintf("np=%v|sh=%v|rc=%s|cpu%s|mem%s|sto%s|fam=%s|create=%s|ops=%s",
		c.Settings.NetPol, c.Settings.StaticHosts, c.Settings.RuntimeClass, lv(c.Settings.CPULevel), lv(c.Settings.MemLevel), lv(c.Settings.StoLevel),
		c.Family, grp(c.Create), strings.Join(c.UpdateOps, "+"))
}
