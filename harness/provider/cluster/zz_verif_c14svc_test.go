//go:build verif
// +build verif

package cluster

// C14, service level: the real cluster.service with its real inventory and
// hostname services and real deployment managers, driven through the bus
// (ManifestReceived, EventLeaseClosed) against the scripted cluster client.
// Covers what the manager-level enumeration cannot see: the manager
// hand-back, the release of the inventory reservation and of the hostnames
// after a lease closed.  DESIGN.md §5 C14.

import (
	"context"
	"fmt"
	"runtime"
	"time"

	sdk "github.com/cosmos/cosmos-sdk/types"

	"github.com/ovrclk/akash/manifest"
	ctypes "github.com/ovrclk/akash/provider/cluster/types"
	"github.com/ovrclk/akash/provider/event"
	"github.com/ovrclk/akash/pubsub"
	atypes "github.com/ovrclk/akash/types"
	vs "github.com/ovrclk/akash/verifsupport"
	"github.com/ovrclk/akash/verifsupport/venv"
	dtypes "github.com/ovrclk/akash/x/deployment/types"
	mtypes "github.com/ovrclk/akash/x/market/types"
	ptypes "github.com/ovrclk/akash/x/provider/types"
)

type vSvcScenario struct {
	Name  string   `json:"name"`
	Steps []string `json:"steps"` // reserve manifest update D+ D- close T+ T1 wait-deploy wait-teardown
	// Adopted: the workload is already running in the cluster and the lease is
	// active on chain when the service starts (provider restart)
	Adopted bool `json:"adopted,omitempty"`
	// Hosts > 0: the manifest names that many hostnames; Taken >= 0: that one
	// is held by another deployment before the manifest arrives
	Hosts int `json:"hosts,omitempty"`
	Taken int `json:"taken,omitempty"`
	// Blocked: instead of being held by another deployment the name is
	// blocked by the provider's configuration ("name": listed itself,
	// "domain": its domain is listed)
	Blocked string `json:"blocked,omitempty"`
}

type vSvcRun struct {
	Scenario  vSvcScenario      `json:"scenario"`
	Calls     []vs.GateCallView `json:"calls"`
	Notes     []string          `json:"notes,omitempty"`
	Leases    uint32            `json:"leases_at_end"`
	Pending   int               `json:"reservations_pending_at_end"`
	Active    int               `json:"reservations_active_at_end"`
	HostFree  bool              `json:"hostname_free_at_end"`
	HostsHeld []string          `json:"hostnames_still_held,omitempty"`
}

const vSvcTimeout = 15 * time.Second

func vSvcScenarios() []vSvcScenario {
	return []vSvcScenario{
		{Name: "deployed-then-closed", Steps: []string{"reserve", "manifest", "wait-deploy", "D+", "close", "wait-teardown", "T+"}},
		{Name: "closed-during-deploy", Steps: []string{"reserve", "manifest", "wait-deploy", "close", "D+", "wait-teardown", "T+"}},
		{Name: "update-during-deploy-then-closed", Steps: []string{"reserve", "manifest", "wait-deploy", "update", "D+", "wait-deploy", "D+", "close", "wait-teardown", "T+"}},
		{Name: "teardown-fails-once", Steps: []string{"reserve", "manifest", "wait-deploy", "D+", "close", "wait-teardown", "T1"}},
		{Name: "closed-without-manifest", Steps: []string{"reserve", "close"}},
		{Name: "deploy-fails-then-closed", Steps: []string{"reserve", "manifest", "wait-deploy", "D-", "settle", "close"}},
		{Name: "update-fails-then-closed", Steps: []string{"reserve", "manifest", "wait-deploy", "D+", "update", "wait-deploy", "D-", "settle", "close"}},
		// a manifest for the lease arrives after the lease was closed: while the
		// teardown is in flight, and while the last deploy is still in flight
		{Name: "manifest-during-teardown", Steps: []string{"reserve", "manifest", "wait-deploy", "D+", "close", "wait-teardown", "update", "pause", "T+"}},
		{Name: "manifest-after-close-during-deploy", Steps: []string{"reserve", "manifest", "wait-deploy", "close", "update", "pause", "D+", "wait-teardown", "update", "pause", "T+"}},
		// provider restart: the service adopts a running workload, then the lease closes
		{Name: "adopted-then-closed", Steps: []string{"wait-deploy", "D+", "close", "wait-teardown", "T+"}, Adopted: true},
		{Name: "adopted-closed-during-redeploy", Steps: []string{"wait-deploy", "close", "D+", "wait-teardown", "T+"}, Adopted: true},
		{Name: "adopted-closed-at-once", Steps: []string{"close", "pause"}, Adopted: true},
		// the manifest names several hostnames and one of them (first / last /
		// middle) is held by another deployment: the reservation is refused as a
		// whole, the manager gives up, the lease closes - none of the names may
		// stay reserved for the dead lease
		{Name: "second-hostname-taken-then-closed", Steps: []string{"reserve", "manifest", "settle", "close"}, Hosts: 2, Taken: 1},
		{Name: "first-hostname-taken-then-closed", Steps: []string{"reserve", "manifest", "settle", "close"}, Hosts: 2, Taken: 0},
		{Name: "middle-hostname-taken-then-closed", Steps: []string{"reserve", "manifest", "settle", "close"}, Hosts: 3, Taken: 1},
		{Name: "last-hostname-taken-close-first", Steps: []string{"reserve", "manifest", "close", "settle"}, Hosts: 3, Taken: 2},
		// the same with a name the provider itself refuses to serve (blocked
		// hostname / blocked domain in its configuration)
		{Name: "last-hostname-blocked-then-closed", Steps: []string{"reserve", "manifest", "settle", "close"}, Hosts: 2, Taken: 1, Blocked: "name"},
		{Name: "middle-hostname-in-blocked-domain-then-closed", Steps: []string{"reserve", "manifest", "settle", "close"}, Hosts: 3, Taken: 1, Blocked: "domain"},
		{Name: "several-hostnames-deployed-then-closed", Steps: []string{"reserve", "manifest", "wait-deploy", "D+", "close", "wait-teardown", "T+"}, Hosts: 3, Taken: -1},
		{Name: "manifest-during-failing-teardown", Steps: []string{"reserve", "manifest", "wait-deploy", "D+", "close", "wait-teardown", "update", "pause", "T1"}},
	}
}

func vRunSvcScenario(sc vSvcScenario) (*vSvcRun, []vDMViolation) {
	run := &vSvcRun{Scenario: sc}
	var out []vDMViolation
	note := func(f string, a ...interface{}) { run.Notes = append(run.Notes, fmt.Sprintf(f, a...)) }
	g := vs.NewGates()
	huge := []ctypes.Node{NewNode("n0",
		atypes.ResourceUnits{CPU: &atypes.CPU{Units: atypes.NewResourceValue(1 << 30)}, Memory: &atypes.Memory{Quantity: atypes.NewResourceValue(1 << 50)}, Storage: &atypes.Storage{Quantity: atypes.NewResourceValue(1 << 50)}},
		atypes.ResourceUnits{CPU: &atypes.CPU{Units: atypes.NewResourceValue(1 << 30)}, Memory: &atypes.Memory{Quantity: atypes.NewResourceValue(1 << 50)}, Storage: &atypes.Storage{Quantity: atypes.NewResourceValue(1 << 50)}})}
	g.Auto(vKInventory, func(interface{}) (interface{}, error) { return huge, nil })
	prov := sdk.AccAddress([]byte("verif-provider-00000")).String()
	owner := sdk.AccAddress([]byte("verif-tenant-0000000")).String()
	lease := mtypes.LeaseID{Owner: owner, DSeq: 21, GSeq: 1, OSeq: 1, Provider: prov}
	bus := venv.QuietBus(pubsub.NewBus())
	svcEnded := false
	defer bus.Close() // a QuietBus: see vDMState.cleanup
	ctx, cancel := context.WithCancel(context.Background())
	defer cancel()
	cl := &vSvcClient{vScriptedCluster: vScriptedCluster{Client: NullClient(), g: g}}
	sessOpt := venv.Options{}
	if sc.Adopted {
		adoptedGroup := manifest.Group{Name: "g", Services: []manifest.Service{{Name: "web", Image: "img:adopted", Count: 1,
			Resources: atypes.ResourceUnits{CPU: &atypes.CPU{Units: atypes.NewResourceValue(100)}, Memory: &atypes.Memory{Quantity: atypes.NewResourceValue(1 << 20)}, Storage: &atypes.Storage{Quantity: atypes.NewResourceValue(1 << 20)}},
			Expose:    []manifest.ServiceExpose{{Port: 80, Proto: manifest.TCP, Global: true, Hosts: []string{"h1.tenant.example.com"}}}}}}
		cl.deployments = []ctypes.Deployment{vAdopted{lease, adoptedGroup}}
		sessOpt.ActiveLeases = func(sdk.AccAddress) ([]mtypes.QueryLeaseResponse, error) {
			return []mtypes.QueryLeaseResponse{{Lease: mtypes.Lease{LeaseID: lease, State: mtypes.LeaseActive, Price: sdk.NewInt64Coin("uakt", 1)}}}, nil
		}
	}
	cfg := Config{InventoryResourcePollPeriod: time.Hour, InventoryResourceDebugFrequency: 1 << 30, InventoryExternalPortQuantity: 100, CPUCommitLevel: 1, MemoryCommitLevel: 1, StorageCommitLevel: 1}
	switch sc.Blocked {
	case "name":
		cfg.BlockedHostnames = []string{fmt.Sprintf("h%d.tenant.example.com", sc.Taken+1), "unrelated.example.org"}
	case "domain":
		cfg.BlockedHostnames = []string{".blocked.example.com"}
	}
	svcI, err := NewService(ctx, venv.NewSessionWith(g, &ptypes.Provider{Owner: prov}, sessOpt), bus, cl, cfg)
	if err != nil {
		note("NewService: %v", err)
		return run, out
	}
	svc := svcI.(*service)
	select {
	case <-svc.Ready():
	case <-time.After(vSvcTimeout):
		note("service not ready")
		return run, out
	}
	gspec := dtypes.GroupSpec{Name: "g", Resources: []dtypes.Resource{{Resources: atypes.ResourceUnits{
		CPU: &atypes.CPU{Units: atypes.NewResourceValue(100)}, Memory: &atypes.Memory{Quantity: atypes.NewResourceValue(1 << 20)}, Storage: &atypes.Storage{Quantity: atypes.NewResourceValue(1 << 20)}},
		Count: 1, Price: sdk.NewInt64Coin("uakt", 1)}}}
	dgroup := dtypes.Group{GroupID: lease.GroupID(), State: dtypes.GroupOpen, GroupSpec: gspec}
	host := "h1.tenant.example.com"
	hosts := []string{host}
	taken := -1
	if sc.Hosts > 0 {
		hosts, taken = nil, sc.Taken
		for i := 1; i <= sc.Hosts; i++ {
			hosts = append(hosts, fmt.Sprintf("h%d.tenant.example.com", i))
		}
		if taken >= 0 && sc.Blocked == "domain" {
			hosts[taken] = fmt.Sprintf("h%d.blocked.example.com", taken+1)
		}
		if taken >= 0 && sc.Blocked == "" {
			holder := dtypes.DeploymentID{Owner: owner, DSeq: 777}
			select {
			case e := <-svc.HostnameService().ReserveHostnames([]string{hosts[taken]}, holder):
				if e != nil {
					note("could not pre-reserve %s: %v", hosts[taken], e)
					return run, out
				}
			case <-time.After(vSvcTimeout):
				note("hostname service did not answer")
				return run, out
			}
		}
	}
	nMan := 0
	mkManifest := func() *manifest.Manifest {
		nMan++
		m := manifest.Manifest{{Name: "g", Services: []manifest.Service{{Name: "web", Image: fmt.Sprintf("img:%d", nMan), Count: 1,
			Resources: gspec.Resources[0].Resources,
			Expose:    []manifest.ServiceExpose{{Port: 80, Proto: manifest.TCP, Global: true, Hosts: append([]string(nil), hosts...)}}}}}}
		return &m
	}
	closedAt := int64(0)
	for _, st := range sc.Steps {
		switch st {
		case "reserve":
			if _, err := svc.Reserve(lease.OrderID(), gspec); err != nil {
				note("reserve failed: %v", err)
				return run, out
			}
		case "manifest", "update":
			_ = bus.Publish(event.ManifestReceived{LeaseID: lease, Manifest: mkManifest(), Group: &dgroup,
				Deployment: &dtypes.QueryDeploymentResponse{Deployment: dtypes.Deployment{DeploymentID: lease.DeploymentID()}}})
			if st == "update" {
				time.Sleep(2 * time.Millisecond) // let the service hand it to the manager
			}
		case "pause":
			// (gives a wrongly started operation time to show up; nothing is judged by time)
			time.Sleep(5 * time.Millisecond)
		case "wait-deploy":
			if g.WaitPending(vKDeploy, vSvcTimeout) == nil {
				note("no deploy call appeared")
				return run, out
			}
		case "wait-teardown":
			if g.WaitPending(vKTeardown, vSvcTimeout) == nil {
				note("no teardown call appeared")
			}
		case "D+", "D-":
			c := g.Pending(vKDeploy)
			if c == nil {
				note("%s: no deploy in flight", st)
				continue
			}
			var e error
			if st == "D-" {
				e = errScripted
			}
			g.Release(c, nil, e)
			g.WaitEnded(c, vSvcTimeout)
		case "T+", "T1":
			c := g.Pending(vKTeardown)
			if c == nil {
				note("%s: no teardown in flight", st)
				continue
			}
			if st == "T1" {
				g.Release(c, nil, errScripted)
				g.WaitEnded(c, vSvcTimeout)
				c = g.WaitPending(vKTeardown, vSvcTimeout)
				if c == nil {
					note("teardown not retried")
					continue
				}
			}
			g.Release(c, nil, nil)
			g.WaitEnded(c, vSvcTimeout)
		case "settle":
			// the manager has ended: wait until the service has taken it off its books
			dl := time.Now().Add(vSvcTimeout)
			for time.Now().Before(dl) {
				if s, err := svc.Status(ctx); err == nil && s.Leases == 0 {
					break
				}
				time.Sleep(200 * time.Microsecond)
			}
		case "close":
			closedAt = g.Stamp()
			_ = bus.Publish(mtypes.NewEventLeaseClosed(lease, sdk.NewInt64Coin("uakt", 1)))
		}
	}
	// quiescence: nothing in flight, no manager left (a closed lease ends its manager)
	dl := time.Now().Add(vSvcTimeout)
	var status *ctypes.Status
	for time.Now().Before(dl) {
		for _, c := range g.AnyPending() {
			if c.Kind == vKDeploy || c.Kind == vKTeardown {
				g.Release(c, nil, nil)
			}
		}
		s, err := svc.Status(ctx)
		if err == nil {
			status = s
			if s.Leases == 0 && len(s.Inventory.Pending)+len(s.Inventory.Active) == 0 {
				break
			}
		}
		time.Sleep(300 * time.Microsecond)
	}
	run.Calls = g.Log()
	for i := range run.Calls {
		run.Calls[i].Arg = ""
	}
	if status != nil {
		run.Leases = status.Leases
		run.Pending, run.Active = len(status.Inventory.Pending), len(status.Inventory.Active)
	}
	other := dtypes.DeploymentID{Owner: owner, DSeq: 999}
	run.HostFree = true
	for i, hn := range hosts {
		if i == taken {
			continue // held by the other deployment all along
		}
		select {
		case e := <-svc.HostnameService().CanReserveHostnames([]string{hn}, other):
			if e != nil {
				run.HostFree = false
				run.HostsHeld = append(run.HostsHeld, hn)
			}
		case <-time.After(vSvcTimeout):
			run.HostFree = false
		}
	}
	bad := func(rule, detail string) {
		out = append(out, vDMViolation{rule, sc.Name, fmt.Sprintf("service-level scenario %s %v: %s; calls: %s", sc.Name, sc.Steps, detail, vCallsString(run.Calls))})
	}
	if closedAt != 0 {
		var deploys, teardowns []vs.GateCallView
		for _, c := range run.Calls {
			switch c.Kind {
			case vKDeploy:
				deploys = append(deploys, c)
			case vKTeardown:
				teardowns = append(teardowns, c)
			}
		}
		if (len(deploys) > 0 || sc.Adopted) && len(teardowns) == 0 {
			bad("closed-lease-is-torn-down", fmt.Sprintf("the lease closed after %d deploy call(s) (workload adopted at start-up: %v) but TeardownLease was never invoked", len(deploys), sc.Adopted))
		}
		if len(deploys) > 0 && len(teardowns) > 0 && teardowns[0].Start < deploys[len(deploys)-1].End {
			bad("teardown-after-last-deploy", "TeardownLease started before the last deploy had returned")
		}
		// (judged against the start of the teardown, not against the moment the
		// lease-closed event was published: the event takes its way through the
		// bus and the service, and a deploy that the manager starts before the
		// request reaches it is in order)
		for _, d := range deploys {
			if len(teardowns) > 0 && d.Start > teardowns[0].Start && len(run.Notes) == 0 {
				bad("no-deploy-after-teardown-requested", fmt.Sprintf("a deploy started at %d after the teardown had started at %d (lease-closed published at %d)", d.Start, teardowns[0].Start, closedAt))
			}
		}
		// cluster operations of one lease never overlap
		var ops []vs.GateCallView
		ops = append(ops, deploys...)
		ops = append(ops, teardowns...)
		for i := range ops {
			for j := range ops {
				if i < j && ops[i].Start < ops[j].End && ops[j].Start < ops[i].End && ops[i].End != 0 && ops[j].End != 0 {
					bad("cluster-operations-never-overlap", fmt.Sprintf("%s@%d-%d overlaps %s@%d-%d", ops[i].Kind, ops[i].Start, ops[i].End, ops[j].Kind, ops[j].Start, ops[j].End))
				}
			}
		}
		if run.Pending+run.Active != 0 {
			bad("reservation-released-after-close", fmt.Sprintf("the lease closed but the inventory still holds %d pending / %d active reservation(s)", run.Pending, run.Active))
		}
		if !run.HostFree {
			bad("hostnames-released-after-close", fmt.Sprintf("the lease closed but its hostname(s) %v cannot be reserved by another deployment", run.HostsHeld))
		}
		if run.Leases != 0 {
			bad("manager-ends-after-close", fmt.Sprintf("the lease closed but %d deployment manager(s) are still registered", run.Leases))
		}
	}
	cancel()
	select {
	case <-svc.Done():
		svcEnded = true
		_ = svcEnded
	case <-time.After(vSvcTimeout):
		note("service did not shut down")
	}
	return run, out
}

// vSvcClient: the scripted cluster client plus a scripted Inventory.
type vSvcClient struct {
	vScriptedCluster
	deployments []ctypes.Deployment
}

func (c *vSvcClient) Deployments(ctx context.Context) ([]ctypes.Deployment, error) {
	return c.deployments, nil
}

// vAdopted is a workload found running in the cluster at start-up.
type vAdopted struct {
	lease mtypes.LeaseID
	group manifest.Group
}

func (a vAdopted) LeaseID() mtypes.LeaseID       { return a.lease }
func (a vAdopted) ManifestGroup() manifest.Group { return a.group }

func (c *vSvcClient) Inventory(ctx context.Context) ([]ctypes.Node, error) {
	v, err := c.g.Enter(vKInventory, nil)
	if err != nil {
		return nil, err
	}
	return v.([]ctypes.Node), nil
}

func vDMServiceRuns(res *vs.Result) {
	scs := vSvcScenarios()
	vs.Parallel(len(scs), runtime.NumCPU(), func(i int) {
		run, viol := vRunSvcScenario(scs[i])
		res.Eval(1)
		res.Count("service_level_scenarios", 1)
		res.Distinct("svc:" + scs[i].Name)
		if len(run.Notes) > 0 {
			res.Count("service_level_runs_with_notes", 1)
		}
		for _, v := range viol {
			res.AddViolation(v.Rule, "C14/service/"+v.Rule+"/"+v.Trigger, v.Detail, run)
		}
	})
}
