//go:build verif
// +build verif

package cluster

// C11, stage "restart" — "each container's limits equal the leased CPU,
// memory and storage": the kube builder turns the manifest group it is given
// into limits (judged for all groups by the kube stage); this stage judges the
// step before it: the group that the real cluster service hands to the
// cluster client's Deploy is, number for number, the leased one — for
// workloads found running when the provider starts (restart with active
// leases), for fresh leases (reserve + manifest) and for manifest updates,
// at every commit level.  The inventory books the same groups at their
// committed size concurrently; nothing of that bookkeeping may reach the
// group being deployed.

import (
	"context"
	"fmt"
	"testing"
	"time"

	sdk "github.com/cosmos/cosmos-sdk/types"

	"github.com/ovrclk/akash/manifest"
	"github.com/ovrclk/akash/provider/event"
	"github.com/ovrclk/akash/pubsub"
	atypes "github.com/ovrclk/akash/types"
	vs "github.com/ovrclk/akash/verifsupport"
	"github.com/ovrclk/akash/verifsupport/venv"
	dtypes "github.com/ovrclk/akash/x/deployment/types"
	mtypes "github.com/ovrclk/akash/x/market/types"
	ptypes "github.com/ovrclk/akash/x/provider/types"

	ctypes "github.com/ovrclk/akash/provider/cluster/types"
)

type vC11Svc struct {
	Name          string `json:"name"`
	CPU, Mem, Sto uint64
	Count         uint32 `json:"count"`
}

type vC11Case struct {
	Index   int         `json:"index"`
	Commit  [3]float64  `json:"commit_levels"` // cpu, memory, storage
	Adopted [][]vC11Svc `json:"adopted"`       // one group per adopted lease
	Fresh   []vC11Svc   `json:"fresh,omitempty"`
	Update  []vC11Svc   `json:"update,omitempty"`
	Seen    []string    `json:"deploy_calls"`
}

func vC11Group(svcs []vC11Svc) manifest.Group {
	g := manifest.Group{Name: "g"}
	for _, s := range svcs {
		g.Services = append(g.Services, manifest.Service{Name: s.Name, Image: "img", Count: s.Count,
			Resources: atypes.ResourceUnits{CPU: &atypes.CPU{Units: atypes.NewResourceValue(s.CPU)}, Memory: &atypes.Memory{Quantity: atypes.NewResourceValue(s.Mem)}, Storage: &atypes.Storage{Quantity: atypes.NewResourceValue(s.Sto)}},
			Expose:    []manifest.ServiceExpose{{Port: 80, Proto: manifest.TCP, Global: false}}})
	}
	return g
}

func vC11Spec(svcs []vC11Svc) dtypes.GroupSpec {
	gs := dtypes.GroupSpec{Name: "g"}
	for _, s := range svcs {
		gs.Resources = append(gs.Resources, dtypes.Resource{Resources: atypes.ResourceUnits{CPU: &atypes.CPU{Units: atypes.NewResourceValue(s.CPU)}, Memory: &atypes.Memory{Quantity: atypes.NewResourceValue(s.Mem)}, Storage: &atypes.Storage{Quantity: atypes.NewResourceValue(s.Sto)}},
			Count: s.Count, Price: sdk.NewInt64Coin("uakt", 1)})
	}
	return gs
}

func vC11Describe(g *manifest.Group) string {
	out := ""
	for _, s := range g.Services {
		cpu, mem, sto := uint64(0), uint64(0), uint64(0)
		if s.Resources.CPU != nil {
			cpu = s.Resources.CPU.Units.Value()
		}
		if s.Resources.Memory != nil {
			mem = s.Resources.Memory.Quantity.Value()
		}
		if s.Resources.Storage != nil {
			sto = s.Resources.Storage.Quantity.Value()
		}
		out += fmt.Sprintf("%s:%d/%d/%d x%d ", s.Name, cpu, mem, sto, s.Count)
	}
	return out
}

func vC11Want(svcs []vC11Svc) string {
	out := ""
	for _, s := range svcs {
		out += fmt.Sprintf("%s:%d/%d/%d x%d ", s.Name, s.CPU, s.Mem, s.Sto, s.Count)
	}
	return out
}

func vC11RandSvcs(r *vs.Rand) []vC11Svc {
	n := r.Range(1, 3)
	var out []vC11Svc
	for i := 0; i < n; i++ {
		out = append(out, vC11Svc{Name: fmt.Sprintf("s%d", i), CPU: uint64(r.Range(1, 40)) * 25, Mem: uint64(r.Range(1, 64)) << 20, Sto: uint64(r.Range(1, 64)) << 20, Count: uint32(r.Range(1, 3))})
	}
	return out
}

// vRunC11Restart runs one case; it returns the violations as (rule, trigger, detail).
func vRunC11Restart(c *vC11Case) (viol [][3]string, note string) {
	g := vs.NewGates()
	huge := []ctypes.Node{NewNode("n0",
		atypes.ResourceUnits{CPU: &atypes.CPU{Units: atypes.NewResourceValue(1 << 30)}, Memory: &atypes.Memory{Quantity: atypes.NewResourceValue(1 << 50)}, Storage: &atypes.Storage{Quantity: atypes.NewResourceValue(1 << 50)}},
		atypes.ResourceUnits{CPU: &atypes.CPU{Units: atypes.NewResourceValue(1 << 30)}, Memory: &atypes.Memory{Quantity: atypes.NewResourceValue(1 << 50)}, Storage: &atypes.Storage{Quantity: atypes.NewResourceValue(1 << 50)}})}
	g.Auto(vKInventory, func(interface{}) (interface{}, error) { return huge, nil })
	prov := sdk.AccAddress([]byte("verif-provider-00000")).String()
	owner := sdk.AccAddress([]byte("verif-tenant-0000000")).String()
	bus := venv.QuietBus(pubsub.NewBus())
	defer bus.Close()
	ctx, cancel := context.WithCancel(context.Background())
	defer cancel()
	cl := &vSvcClient{vScriptedCluster: vScriptedCluster{Client: NullClient(), g: g}}
	want := map[uint64]string{} // dseq -> leased numbers
	var leases []mtypes.QueryLeaseResponse
	for i, svcs := range c.Adopted {
		lid := mtypes.LeaseID{Owner: owner, DSeq: uint64(100 + i), GSeq: 1, OSeq: 1, Provider: prov}
		cl.deployments = append(cl.deployments, vAdopted{lid, vC11Group(svcs)})
		leases = append(leases, mtypes.QueryLeaseResponse{Lease: mtypes.Lease{LeaseID: lid, State: mtypes.LeaseActive, Price: sdk.NewInt64Coin("uakt", 1)}})
		want[lid.DSeq] = vC11Want(svcs)
	}
	cfg := Config{InventoryResourcePollPeriod: time.Hour, InventoryResourceDebugFrequency: 1 << 30, InventoryExternalPortQuantity: 100,
		CPUCommitLevel: c.Commit[0], MemoryCommitLevel: c.Commit[1], StorageCommitLevel: c.Commit[2]}
	sess := venv.NewSessionWith(g, &ptypes.Provider{Owner: prov}, venv.Options{ActiveLeases: func(sdk.AccAddress) ([]mtypes.QueryLeaseResponse, error) { return leases, nil }})
	svcI, err := NewService(ctx, sess, bus, cl, cfg)
	if err != nil {
		return nil, "NewService: " + err.Error()
	}
	svc := svcI.(*service)
	select {
	case <-svc.Ready():
	case <-time.After(vSvcTimeout):
		return nil, "service not ready"
	}
	judge := func(path string, n int) bool {
		for k := 0; k < n; k++ {
			call := g.WaitPending(vKDeploy, vSvcTimeout)
			if call == nil {
				note = fmt.Sprintf("%s: deploy call %d of %d did not appear", path, k+1, n)
				return false
			}
			mg, _ := call.Arg.(*manifest.Group)
			got := "<nil>"
			if mg != nil {
				got = vC11Describe(mg)
			}
			// which lease? the scripted client is not told the lease id through the
			// gate, so the group is matched against the leased numbers by content
			c.Seen = append(c.Seen, path+": "+got)
			matched := false
			for _, w := range want {
				if w == got {
					matched = true
				}
			}
			if !matched {
				viol = append(viol, [3]string{"deployed-group-equals-leased-resources", path,
					fmt.Sprintf("commit levels %v: the group handed to the cluster client (%s) is none of the leased ones %v", c.Commit, got, want)})
			}
			g.Release(call, nil, nil)
			g.WaitEnded(call, vSvcTimeout)
		}
		return true
	}
	if !judge("adopted-at-start-up", len(c.Adopted)) {
		return viol, note
	}
	if c.Fresh != nil {
		lid := mtypes.LeaseID{Owner: owner, DSeq: 21, GSeq: 1, OSeq: 1, Provider: prov}
		gspec := vC11Spec(c.Fresh)
		if _, err := svc.Reserve(lid.OrderID(), gspec); err != nil {
			return viol, "reserve: " + err.Error()
		}
		dgroup := dtypes.Group{GroupID: lid.GroupID(), State: dtypes.GroupOpen, GroupSpec: gspec}
		publish := func(svcs []vC11Svc) {
			mg := vC11Group(svcs)
			m := manifest.Manifest{mg}
			_ = bus.Publish(event.ManifestReceived{LeaseID: lid, Manifest: &m, Group: &dgroup,
				Deployment: &dtypes.QueryDeploymentResponse{Deployment: dtypes.Deployment{DeploymentID: lid.DeploymentID()}}})
		}
		want[21] = vC11Want(c.Fresh)
		publish(c.Fresh)
		if !judge("fresh-lease", 1) {
			return viol, note
		}
		if c.Update != nil {
			want[21] = vC11Want(c.Update)
			publish(c.Update)
			if !judge("manifest-update", 1) {
				return viol, note
			}
		}
	}
	// a second look at the adopted workloads: the records the service keeps for
	// them (what a later update or status would start from) still carry the
	// leased numbers
	cancel()
	select {
	case <-svc.Done():
	case <-time.After(vSvcTimeout):
	}
	for i, svcs := range c.Adopted {
		mg := cl.deployments[i].ManifestGroup()
		if got := vC11Describe(&mg); got != vC11Want(svcs) {
			viol = append(viol, [3]string{"adopted-workload-record-unchanged", "adopted-at-start-up",
				fmt.Sprintf("commit levels %v: the adopted workload's own record changed from %s to %s", c.Commit, vC11Want(svcs), got)})
		}
	}
	return viol, ""
}

func TestVerif_C11(t *testing.T) {
	res := vs.NewResult("C11", "exploration",
		"stage restart: the real cluster service (inventory, deployment managers) over a scripted cluster client, started with 0-3 workloads already running (provider restart with active leases), then a fresh lease (reserve + manifest) and a manifest update, at commit levels {1, 1.5, 2, 4} for cpu / memory / storage: every group handed to the cluster client's Deploy carries exactly the leased cpu, memory, storage and count of every service. distinct = (commit levels, adopted workloads, path)")
	for _, f := range []string{"restart_cases", "deploy_calls_judged", "cases_with_commit_level_above_1", "cases_with_adopted_workloads"} {
		res.Floor(f, 1)
	}
	defer func() {
		if err := res.Write(); err != nil {
			t.Fatalf("cannot write result: %v", err)
		}
		if n := res.Violations(); n > 0 {
			t.Errorf("%d violation(s) recorded", n)
		}
	}()
	one := func(c *vC11Case) {
		c.Seen = nil
		viol, note := vRunC11Restart(c)
		res.Eval(1)
		res.Count("restart_cases", 1)
		res.Count("deploy_calls_judged", len(c.Seen))
		if c.Commit[0] > 1 || c.Commit[1] > 1 || c.Commit[2] > 1 {
			res.Count("cases_with_commit_level_above_1", 1)
		}
		if len(c.Adopted) > 0 {
			res.Count("cases_with_adopted_workloads", 1)
		}
		if note != "" {
			res.Count("cases_cut_short", 1)
			res.Extra("last_case_cut_short", note)
		}
		res.Distinct(fmt.Sprintf("%v|adopted=%d|fresh=%v|update=%v", c.Commit, len(c.Adopted), c.Fresh != nil, c.Update != nil))
		for _, v := range viol {
			res.AddViolation(v[0], "C11/restart/"+v[0]+"/"+v[1], v[2], c)
		}
		if res.WantSample() {
			res.Sample(c)
		}
	}
	if rp := vs.ReplayFile(); rp != "" {
		var c vC11Case
		if err := vs.LoadReplay(rp, &c); err != nil {
			t.Fatalf("replay: %v", err)
		}
		one(&c)
		return
	}
	levels := []float64{1, 1.5, 2, 4}
	var cases []*vC11Case
	seed := vs.Seed()
	idx := 0
	for _, a := range levels {
		for _, b := range levels {
			for _, d := range levels {
				if !vs.Thorough() && !(a == b && b == d) && (idx%5 != 0) {
					idx++
					continue
				}
				for nAd := 0; nAd <= 3; nAd++ {
					r := vs.NewRand(seed, uint64(idx)*7+uint64(nAd)+0xC11)
					c := &vC11Case{Index: len(cases), Commit: [3]float64{a, b, d}}
					for k := 0; k < nAd; k++ {
						c.Adopted = append(c.Adopted, vC11RandSvcs(r))
					}
					if nAd != 2 {
						c.Fresh = vC11RandSvcs(r)
						if r.Bool() {
							c.Update = vC11RandSvcs(r)
						}
					}
					cases = append(cases, c)
				}
				idx++
			}
		}
	}
	vs.Parallel(len(cases), 8, func(i int) { one(cases[i]) })
}
