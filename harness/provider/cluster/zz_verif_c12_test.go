//go:build verif
// +build verif

package cluster

// C12 — the inventory never over-commits and accounts exactly.
// DESIGN.md §5 C12: the real inventoryService loop (real bus, scripted
// Client.Inventory whose call stays pending until the harness delivers a
// refresh) is stepped through its loop-top hook; operation sequences are
// executed next to a reference model with an exact bin-packer; status
// queries are checked for purity (metamorphic) and stability; a concurrent
// history is checked for linearizability with porcupine.

import (
	"context"
	"fmt"
	"math"
	"runtime"
	"sort"
	"strings"
	"sync"
	"sync/atomic"
	"testing"
	"time"

	"github.com/anishathalye/porcupine"
	lifecycle "github.com/boz/go-lifecycle"
	sdk "github.com/cosmos/cosmos-sdk/types"
	"github.com/tendermint/tendermint/libs/log"

	"github.com/ovrclk/akash/manifest"
	ctypes "github.com/ovrclk/akash/provider/cluster/types"
	clusterutil "github.com/ovrclk/akash/provider/cluster/util"
	"github.com/ovrclk/akash/provider/event"
	"github.com/ovrclk/akash/pubsub"
	atypes "github.com/ovrclk/akash/types"
	"github.com/ovrclk/akash/util/verifhook"
	vs "github.com/ovrclk/akash/verifsupport"
	dtypes "github.com/ovrclk/akash/x/deployment/types"
	mtypes "github.com/ovrclk/akash/x/market/types"
)

const vKInventory = "inventory"

type vInvClient struct {
	Client
	g *vs.Gates
}

func (c *vInvClient) Inventory(ctx context.Context) ([]ctypes.Node, error) {
	v, err := c.g.Enter(vKInventory, nil)
	if err != nil {
		return nil, err
	}
	return v.([]ctypes.Node), nil
}

// ---- reference model ---------------------------------------------------------

type vRes3 struct{ CPU, Mem, Sto int64 }

type vModelEntry struct {
	Unit  vRes3 // committed amounts of one replica
	Count int
	Ports int
}

type vModelReservation struct {
	Order     int
	Group     string
	Entries   []vModelEntry
	Allocated bool
}

type vInvModel struct {
	Levels   [3]float64
	Ports    int // configured quantity
	Snapshot []vRes3
	HasSnap  bool
	Res      []*vModelReservation
	Blocked  bool // reservations are not processed until the next refresh
}

// vCommitRounding: "scaled by the commit level" does not say how the quotient
// is rounded.  The convention in force (nearest / down / up) is read off the
// provider's own scaling function at three probe points once per process and
// then demanded everywhere.
var (
	vCommitRoundingOnce sync.Once
	vCommitRounding     = "nearest"
)

func vCommitConvention() string {
	vCommitRoundingOnce.Do(func() {
		probe := func(level float64, v uint64) int64 {
			return int64(clusterutil.ComputeCommittedResources(level, atypes.NewResourceValue(v)).Value())
		}
		a, b, c := probe(2, 3), probe(3, 500), probe(3, 4) // 1.5, 166.67, 1.33
		switch {
		case a == 2 && b == 167 && c == 1:
			vCommitRounding = "nearest"
		case a == 1 && b == 166 && c == 1:
			vCommitRounding = "down"
		case a == 2 && b == 167 && c == 2:
			vCommitRounding = "up"
		}
	})
	return vCommitRounding
}

func vCommitted(level float64, v int64) int64 {
	if level <= 1 {
		return v
	}
	x := float64(v) / level
	var r int64
	switch vCommitConvention() {
	case "down":
		r = int64(math.Floor(x + 1e-9))
	case "up":
		r = int64(math.Ceil(x - 1e-9))
	default:
		// round half away from zero
		r = int64(x + 0.5)
	}
	if r < 1 {
		r = 1
	}
	return r
}

func (m *vInvModel) freePorts() int {
	n := m.Ports
	for _, r := range m.Res {
		if r.Allocated {
			for _, e := range r.Entries {
				n -= e.Ports
			}
		}
	}
	return n
}

// packable: can all not-yet-deployed reservations plus extra be placed on
// the snapshot?  Exact backtracking over replicas, identical replicas placed
// in non-decreasing node order.
func (m *vInvModel) packable(extra *vModelReservation) bool {
	var items []vRes3
	ports := 0
	add := func(r *vModelReservation) {
		for _, e := range r.Entries {
			ports += e.Ports
			for i := 0; i < e.Count; i++ {
				items = append(items, e.Unit)
			}
		}
	}
	for _, r := range m.Res {
		if !r.Allocated {
			add(r)
		}
	}
	if extra != nil {
		add(extra)
	}
	if ports > m.freePorts() {
		return false
	}
	if len(items) == 0 {
		return true
	}
	if !m.HasSnap {
		return false
	}
	sort.Slice(items, func(i, j int) bool {
		if items[i].CPU != items[j].CPU {
			return items[i].CPU > items[j].CPU
		}
		if items[i].Mem != items[j].Mem {
			return items[i].Mem > items[j].Mem
		}
		return items[i].Sto > items[j].Sto
	})
	bins := append([]vRes3(nil), m.Snapshot...)
	var rec func(i, minBin int) bool
	rec = func(i, minBin int) bool {
		if i == len(items) {
			return true
		}
		it := items[i]
		start := 0
		if i > 0 && items[i-1] == it {
			start = minBin
		}
		for b := start; b < len(bins); b++ {
			if bins[b].CPU >= it.CPU && bins[b].Mem >= it.Mem && bins[b].Sto >= it.Sto {
				bins[b].CPU -= it.CPU
				bins[b].Mem -= it.Mem
				bins[b].Sto -= it.Sto
				if rec(i+1, b) {
					return true
				}
				bins[b].CPU += it.CPU
				bins[b].Mem += it.Mem
				bins[b].Sto += it.Sto
			}
		}
		return false
	}
	return rec(0, 0)
}

// ---- operations ---------------------------------------------------------------

type vInvOp struct {
	Kind  string `json:"op"` // reserve | unreserve | status | lookup | deployed | pending | refresh
	Order int    `json:"order,omitempty"`
	Group int    `json:"group,omitempty"` // index into vInvGroups
	Snap  int    `json:"snap,omitempty"`  // index into vInvSnaps
}

func (o vInvOp) String() string {
	switch o.Kind {
	case "reserve", "lookup":
		return fmt.Sprintf("%s(o%d,g%d)", o.Kind, o.Order, o.Group)
	case "unreserve", "deployed", "pending":
		return fmt.Sprintf("%s(o%d)", o.Kind, o.Order)
	case "refresh":
		return fmt.Sprintf("refresh(s%d)", o.Snap)
	}
	return o.Kind
}

type vInvGroupSpec struct {
	Name    string
	Entries []struct {
		CPU, Mem, Sto int64
		Count         int
		Ports         int
	}
}

var vInvGroups = []vInvGroupSpec{
	{Name: "g0", Entries: []struct {
		CPU, Mem, Sto int64
		Count         int
		Ports         int
	}{{1000, 1000, 1000, 1, 1}}},
	{Name: "g1", Entries: []struct {
		CPU, Mem, Sto int64
		Count         int
		Ports         int
	}{{600, 500, 400, 2, 0}, {1500, 300, 200, 1, 1}}},
	{Name: "g2", Entries: []struct {
		CPU, Mem, Sto int64
		Count         int
		Ports         int
	}{{2500, 2000, 100, 1, 2}}},
}

var vInvSnaps = [][]vRes3{
	{{4000, 4000, 4000}, {3000, 3000, 3000}},
	{{2000, 1200, 5000}},
	{{2600, 2600, 2600}, {1000, 1000, 1000}, {1000, 1000, 1000}},
}

// The first vInvBaseGroups / vInvBaseSnaps entries are the alphabet of the
// operation-sequence enumeration; the entries behind them are packing
// instances (one entry of 1..3 replicas, 2..3 equal or unequal nodes) for the
// packing enumeration: replicas of one entry spread over several nodes,
// nodes partly used by an earlier reservation.
const (
	vInvBaseGroups = 3
	vInvBaseSnaps  = 3
)

func init() {
	for _, cpu := range []int64{600, 700, 1100} {
		for cnt := 1; cnt <= 3; cnt++ {
			vInvGroups = append(vInvGroups, vInvGroupSpec{Name: fmt.Sprintf("p%dx%d", cpu, cnt), Entries: []struct {
				CPU, Mem, Sto int64
				Count         int
				Ports         int
			}{{cpu, 100, 100, cnt, 0}}})
		}
	}
	vInvSnaps = append(vInvSnaps,
		[]vRes3{{1000, 9000, 9000}, {1000, 9000, 9000}},
		[]vRes3{{1000, 9000, 9000}, {1000, 9000, 9000}, {1000, 9000, 9000}},
		[]vRes3{{2000, 9000, 9000}, {1000, 9000, 9000}},
	)
}

func vInvGroup(i int) dtypes.GroupSpec {
	spec := vInvGroups[i]
	g := dtypes.GroupSpec{Name: spec.Name}
	for _, e := range spec.Entries {
		ru := atypes.ResourceUnits{
			CPU:     &atypes.CPU{Units: atypes.NewResourceValue(uint64(e.CPU))},
			Memory:  &atypes.Memory{Quantity: atypes.NewResourceValue(uint64(e.Mem))},
			Storage: &atypes.Storage{Quantity: atypes.NewResourceValue(uint64(e.Sto))},
		}
		for p := 0; p < e.Ports; p++ {
			ru.Endpoints = append(ru.Endpoints, atypes.Endpoint{Kind: atypes.Endpoint_RANDOM_PORT})
		}
		g.Resources = append(g.Resources, dtypes.Resource{Resources: ru, Count: uint32(e.Count), Price: sdk.NewInt64Coin("uakt", 1)})
	}
	return g
}

func vInvNodes(i int) []ctypes.Node {
	var out []ctypes.Node
	for n, r := range vInvSnaps[i] {
		ru := atypes.ResourceUnits{
			CPU:     &atypes.CPU{Units: atypes.NewResourceValue(uint64(r.CPU))},
			Memory:  &atypes.Memory{Quantity: atypes.NewResourceValue(uint64(r.Mem))},
			Storage: &atypes.Storage{Quantity: atypes.NewResourceValue(uint64(r.Sto))},
		}
		// allocatable is deliberately larger than available: capacity is what is *available*
		big := atypes.ResourceUnits{
			CPU:     &atypes.CPU{Units: atypes.NewResourceValue(uint64(r.CPU) * 4)},
			Memory:  &atypes.Memory{Quantity: atypes.NewResourceValue(uint64(r.Mem) * 4)},
			Storage: &atypes.Storage{Quantity: atypes.NewResourceValue(uint64(r.Sto) * 4)},
		}
		out = append(out, NewNode(fmt.Sprintf("node%d", n), big, ru))
	}
	return out
}

func vInvOrder(i int) mtypes.OrderID {
	return mtypes.OrderID{Owner: sdk.AccAddress([]byte("verif-tenant-0000000")).String(), DSeq: uint64(100 + i), GSeq: 1, OSeq: 1}
}

// ---- one run -------------------------------------------------------------------

type vInvOutcome struct {
	Op     string `json:"op"`
	Result string `json:"result"`
}

type vInvRun struct {
	Levels   [3]float64    `json:"levels"`
	Ports    int           `json:"ports"`
	Ops      []vInvOp      `json:"ops"`
	Outcomes []vInvOutcome `json:"outcomes"`
	Final    string        `json:"final_status"`
	Notes    []string      `json:"notes,omitempty"`
}

type vInvViolation struct{ Rule, Trigger, Detail string }

type vInvState struct {
	is    *inventoryService
	g     *vs.Gates
	st    *vs.Stepper
	bus   pubsub.Bus
	donec chan struct{}
	model *vInvModel
	run   *vInvRun
	viol  []vInvViolation
	// coverage
	refusedPackable int
	granted         int
	refused         int
	multiEntry      bool
}

const vInvTimeout = 20 * time.Second

var vInvPendingStepper sync.Map // *inventoryService registered lazily through the router default

func vNewInvState(levels [3]float64, ports int) *vInvState {
	g := vs.NewGates()
	s := &vInvState{g: g, st: vs.NewStepper(), bus: pubsub.NewBus(), donec: make(chan struct{})}
	s.model = &vInvModel{Levels: levels, Ports: ports}
	s.run = &vInvRun{Levels: levels, Ports: ports}
	cfg := Config{
		InventoryResourcePollPeriod:     time.Nanosecond,
		InventoryResourceDebugFrequency: 1 << 30,
		InventoryExternalPortQuantity:   uint(ports),
		CPUCommitLevel:                  levels[0],
		MemoryCommitLevel:               levels[1],
		StorageCommitLevel:              levels[2],
	}
	sub, _ := s.bus.Subscribe()
	// the constructor starts the loop: hand the stepper over through the router's default
	vInvNext.Store(s.st)
	is, err := newInventoryService(cfg, log.NewNopLogger(), s.donec, sub, &vInvClient{Client: NullClient(), g: g}, nil)
	if err != nil {
		panic(err)
	}
	s.is = is
	return s
}

// vInvNext carries the stepper for the next inventory service that reaches
// its loop top (constructions are serialized by vInvMu).
var (
	vInvNext atomic.Value
	vInvMu   sync.Mutex
)

func init() {
	vInvRouter.Default = func(component interface{}) *vs.Stepper {
		if _, ok := component.(*inventoryService); !ok {
			return nil
		}
		if st, ok := vInvNext.Load().(*vs.Stepper); ok && st != nil {
			vInvNext.Store((*vs.Stepper)(nil))
			return st
		}
		return nil
	}
}

func (s *vInvState) bad(rule, trigger, detail string) {
	s.viol = append(s.viol, vInvViolation{rule, trigger, fmt.Sprintf("%s; ops so far: %s", detail, vInvOps(s.run.Ops))})
}

func vInvOps(ops []vInvOp) string {
	var ss []string
	for _, o := range ops {
		ss = append(ss, o.String())
	}
	return "[" + strings.Join(ss, " ") + "]"
}

func (s *vInvState) step() bool {
	s.st.Grant(1)
	return s.st.WaitParked(s.is.lc.Done(), vInvTimeout) != "timeout"
}

// refresh delivers a snapshot: the pending Inventory call returns it, the
// loop consumes the result, then the (1 ns) poll timer fires and a new call
// becomes pending.
func (s *vInvState) refresh(snap int) bool {
	c := s.g.WaitPending(vKInventory, vInvTimeout)
	if c == nil {
		s.run.Notes = append(s.run.Notes, "no inventory call pending")
		return false
	}
	s.g.Release(c, vInvNodes(snap), nil)
	s.g.WaitEnded(c, vInvTimeout)
	if !s.step() { // result
		return false
	}
	if !s.step() { // timer -> next check
		return false
	}
	if s.g.WaitPending(vKInventory, vInvTimeout) == nil {
		s.run.Notes = append(s.run.Notes, "no new inventory call after refresh")
		return false
	}
	s.model.Snapshot = append([]vRes3(nil), vInvSnaps[snap]...)
	s.model.HasSnap = true
	s.model.Blocked = false
	return true
}

func (s *vInvState) modelReservation(order, group int) *vModelReservation {
	spec := vInvGroups[group]
	r := &vModelReservation{Order: order, Group: spec.Name}
	for _, e := range spec.Entries {
		r.Entries = append(r.Entries, vModelEntry{
			Unit:  vRes3{vCommitted(s.model.Levels[0], e.CPU), vCommitted(s.model.Levels[1], e.Mem), vCommitted(s.model.Levels[2], e.Sto)},
			Count: e.Count, Ports: e.Ports,
		})
	}
	return r
}

func vStatusString(st ctypes.InventoryStatus) string {
	f := func(us []atypes.ResourceUnits) string {
		var ss []string
		for _, u := range us {
			ss = append(ss, fmt.Sprintf("%d/%d/%d", u.CPU.Units.Value(), u.Memory.Quantity.Value(), u.Storage.Quantity.Value()))
		}
		return strings.Join(ss, ",")
	}
	return "active[" + f(st.Active) + "] pending[" + f(st.Pending) + "]"
}

func (s *vInvState) apply(op vInvOp, withStatusCheck bool) bool {
	s.run.Ops = append(s.run.Ops, op)
	out := vInvOutcome{Op: op.String()}
	sync1 := func(f func()) bool {
		done := make(chan struct{})
		go func() { f(); close(done) }()
		if !s.step() {
			return false
		}
		select {
		case <-done:
			return true
		case <-time.After(vInvTimeout):
			s.run.Notes = append(s.run.Notes, op.String()+": call did not return")
			return false
		}
	}
	ok := true
	switch op.Kind {
	case "refresh":
		ok = s.refresh(op.Snap)
		out.Result = "ok"
	case "reserve":
		// A second reservation for an order that already holds one of ANOTHER
		// group is not issued: which of several reservations of one order a
		// later release or deployment event picks is not fixed by the statement
		// ("a release removes exactly one"), and the model could not tell.  A
		// second reservation of the SAME group is issued: the two cannot be
		// told apart, so any pick is the model's pick.
		for _, r := range s.model.Res {
			if r.Order == op.Order && r.Group != vInvGroups[op.Group].Name {
				out.Result = "not issued (order holds a reservation of another group)"
				s.run.Outcomes = append(s.run.Outcomes, out)
				return true
			}
		}
		if s.model.Blocked || !s.model.HasSnap {
			// the service would make the caller wait for the next refresh: issue it with one
			s.run.Ops[len(s.run.Ops)-1] = vInvOp{Kind: "refresh", Snap: op.Snap}
			if !s.refresh(op.Snap) {
				return false
			}
			s.run.Outcomes = append(s.run.Outcomes, vInvOutcome{Op: s.run.Ops[len(s.run.Ops)-1].String(), Result: "ok"})
			s.run.Ops = append(s.run.Ops, op)
		}
		var err error
		gs := vInvGroup(op.Group)
		ok = sync1(func() { _, err = s.is.reserve(vInvOrder(op.Order), gs) })
		mr := s.modelReservation(op.Order, op.Group)
		pack := s.model.packable(mr)
		if err == nil {
			out.Result = "granted"
			s.granted++
			if len(mr.Entries) > 1 {
				s.multiEntry = true
			}
			if !pack {
				s.bad("granted-only-if-packable", "reserve", fmt.Sprintf("%s was granted although the not-yet-deployed reservations plus this one cannot be placed on the last reported available capacity %v with %d free external ports (commit levels %v)", op, s.model.Snapshot, s.model.freePorts(), s.model.Levels))
			}
			s.model.Res = append(s.model.Res, mr)
		} else {
			out.Result = "refused: " + err.Error()
			s.refused++
			if pack {
				s.refusedPackable++
			}
		}
	case "unreserve":
		var err error
		before := len(s.model.Res)
		ok = sync1(func() { err = s.is.unreserve(vInvOrder(op.Order)) })
		idx := -1
		for i, r := range s.model.Res {
			if r.Order == op.Order {
				idx = i
				break
			}
		}
		if err == nil {
			out.Result = "released"
			if idx < 0 {
				s.bad("release-names-an-outstanding-reservation", "unreserve", fmt.Sprintf("%s succeeded although no reservation of that order is outstanding", op))
			} else {
				s.model.Res = append(s.model.Res[:idx], s.model.Res[idx+1:]...)
			}
		} else {
			out.Result = "error: " + err.Error()
			if idx >= 0 {
				s.bad("release-of-outstanding-reservation-works", "unreserve", fmt.Sprintf("%s failed (%v) although a reservation of that order is outstanding", op, err))
			}
		}
		_ = before
	case "lookup":
		var err error
		gs := vInvGroup(op.Group)
		ok = sync1(func() { _, err = s.is.lookup(vInvOrder(op.Order), gs) })
		found := false
		for _, r := range s.model.Res {
			if r.Order == op.Order && r.Group == vInvGroups[op.Group].Name {
				found = true
			}
		}
		out.Result = fmt.Sprint(err == nil)
		if (err == nil) != found {
			s.bad("lookup-finds-outstanding-reservations", "lookup", fmt.Sprintf("%s returned found=%v, model says %v", op, err == nil, found))
		}
	case "deployed", "pending":
		// ClusterDeployment event for the first reservation of the order
		var target *vModelReservation
		for _, r := range s.model.Res {
			if r.Order == op.Order {
				target = r
				break
			}
		}
		name := "none"
		if target != nil {
			name = target.Group
		}
		status := event.ClusterDeploymentDeployed
		if op.Kind == "pending" {
			status = event.ClusterDeploymentPending
		}
		lid := mtypes.MakeLeaseID(mtypes.MakeBidID(vInvOrder(op.Order), sdk.AccAddress([]byte("verif-provider-00000"))))
		_ = s.bus.Publish(event.ClusterDeployment{LeaseID: lid, Group: &manifest.Group{Name: name}, Status: status})
		ok = s.step()
		if target != nil {
			target.Allocated = op.Kind == "deployed"
			s.model.Blocked = true
		}
		out.Result = "ok"
	case "status":
		ok = s.checkStatus("status")
		out.Result = "ok"
	}
	s.run.Outcomes = append(s.run.Outcomes, out)
	if ok && withStatusCheck && op.Kind != "status" {
		ok = s.checkStatus("after:" + op.Kind)
	}
	return ok
}

// checkStatus calls status() twice and compares with the model.
func (s *vInvState) checkStatus(trigger string) bool {
	var st1, st2 ctypes.InventoryStatus
	var e1, e2 error
	call := func(dst *ctypes.InventoryStatus, e *error) bool {
		done := make(chan struct{})
		go func() { *dst, *e = s.is.status(context.Background()); close(done) }()
		if !s.step() {
			return false
		}
		select {
		case <-done:
			return true
		case <-time.After(vInvTimeout):
			return false
		}
	}
	// the first answer is rendered before the second query is made: the
	// returned units may share memory with the service's own records
	ok1 := call(&st1, &e1)
	a := ""
	if ok1 && e1 == nil && st1.Error == nil {
		a = vStatusString(st1)
	}
	if !ok1 || !call(&st2, &e2) {
		s.run.Notes = append(s.run.Notes, "status did not return")
		return false
	}
	if e1 != nil || e2 != nil || st1.Error != nil || st2.Error != nil {
		s.bad("status-works", trigger, fmt.Sprintf("status failed: %v %v %v %v", e1, e2, st1.Error, st2.Error))
		return true
	}
	b := vStatusString(st2)
	if a != b {
		s.bad("status-reports-same-amounts-every-time", trigger, fmt.Sprintf("two consecutive status queries differ: %s then %s", a, b))
	}
	nAct, nPen := 0, 0
	for _, r := range s.model.Res {
		if r.Allocated {
			nAct++
		} else {
			nPen++
		}
	}
	if len(st1.Active) != nAct || len(st1.Pending) != nPen {
		s.bad("status-one-entry-per-reservation", trigger, fmt.Sprintf("status reports %d active / %d pending entries, outstanding are %d deployed / %d not yet deployed", len(st1.Active), len(st1.Pending), nAct, nPen))
	} else {
		// single-entry reservations report exactly their committed unit; the
		// statement fixes one entry per reservation with the same amounts every
		// time, not the position of an entry in the listing
		reported := map[string]int{}
		key := func(class string, c, m, st int64) string { return fmt.Sprintf("%s:%d/%d/%d", class, c, m, st) }
		for _, u := range st1.Active {
			reported[key("active", int64(u.CPU.Units.Value()), int64(u.Memory.Quantity.Value()), int64(u.Storage.Quantity.Value()))]++
		}
		for _, u := range st1.Pending {
			reported[key("pending", int64(u.CPU.Units.Value()), int64(u.Memory.Quantity.Value()), int64(u.Storage.Quantity.Value()))]++
		}
		for _, r := range s.model.Res {
			if len(r.Entries) != 1 {
				continue
			}
			class := "pending"
			if r.Allocated {
				class = "active"
			}
			e := r.Entries[0].Unit
			k := key(class, e.CPU, e.Mem, e.Sto)
			if reported[k] == 0 {
				s.bad("status-reports-committed-amounts", trigger, fmt.Sprintf("no %s entry of the status carries the committed unit %d/%d/%d of reservation o%d/%s; status: %s", class, e.CPU, e.Mem, e.Sto, r.Order, r.Group, a))
			} else {
				reported[k]--
			}
		}
	}
	return true
}

func (s *vInvState) finalStatus() string {
	s.st.Free()
	st, err := s.is.status(context.Background())
	if err != nil {
		return "error: " + err.Error()
	}
	return vStatusString(st)
}

func (s *vInvState) cleanup() {
	s.st.Free()
	close(s.donec)
	dl := time.Now().Add(5 * time.Second)
	for time.Now().Before(dl) {
		select {
		case <-s.is.lc.Done():
			s.bus.Close()
			return
		default:
		}
		s.g.ReleaseAll(func(c *vs.GateCall) (interface{}, error) { return []ctypes.Node{}, nil })
		time.Sleep(100 * time.Microsecond)
	}
	s.bus.Close()
}

// vRunInvOps executes ops on a fresh service; interleave = check status after every op.
func vRunInvOps(levels [3]float64, ports int, ops []vInvOp, interleave bool) *vInvState {
	vInvMu.Lock()
	s := vNewInvState(levels, ports)
	// wait for the loop to adopt its stepper (first loop-top visit)
	r := s.st.WaitParked(s.is.lc.Done(), vInvTimeout)
	vInvMu.Unlock()
	if r == "timeout" {
		s.run.Notes = append(s.run.Notes, "inventory service did not reach its loop")
		s.cleanup()
		return s
	}
	for _, op := range ops {
		if !s.apply(op, interleave) {
			break
		}
	}
	s.run.Final = s.finalStatus()
	s.cleanup()
	return s
}

func vInvOutcomesString(o []vInvOutcome, skipStatus bool) string {
	var ss []string
	for _, x := range o {
		if skipStatus && x.Op == "status" {
			continue
		}
		ss = append(ss, x.Op+"="+x.Result)
	}
	return strings.Join(ss, "; ")
}

// ---- sequence generation -------------------------------------------------------

func vInvAlphabet(nOrders int) []vInvOp {
	var al []vInvOp
	for o := 1; o <= nOrders; o++ {
		for g := 0; g < vInvBaseGroups; g++ {
			al = append(al, vInvOp{Kind: "reserve", Order: o, Group: g, Snap: 0})
		}
		al = append(al, vInvOp{Kind: "unreserve", Order: o}, vInvOp{Kind: "deployed", Order: o}, vInvOp{Kind: "pending", Order: o})
	}
	for sidx := 0; sidx < vInvBaseSnaps; sidx++ {
		al = append(al, vInvOp{Kind: "refresh", Snap: sidx})
	}
	al = append(al, vInvOp{Kind: "status"}, vInvOp{Kind: "lookup", Order: 1, Group: 0})
	return al
}

func TestVerif_C12(t *testing.T) {
	res := vs.NewResult("C12", "exploration",
		"operation sequences {reserve(order, group with 1 or 2 resource entries, with endpoints), unreserve, status, lookup, deployment-status events (deployed / pending), inventory refresh (3 snapshots)} executed on the real inventoryService (real bus, scripted Client.Inventory; loop stepped through its loop-top hook) next to a reference model: granted => an exact backtracking bin-packer places all not-yet-deployed reservations plus the new one on the last reported *available* capacity and the endpoints fit the free ports; status = one entry per outstanding reservation in the right class, equal on consecutive calls, committed amounts for single-entry reservations; every sequence is run with and without interleaved status queries and must give identical outcomes and final status; unreserve removes exactly one. Complete for all sequences up to length 3 over a 2-order alphabet, sampled beyond; plus a porcupine linearizability check of a concurrent reserve/unreserve/status history. distinct = operation sequences")
	res.Assume("commit levels {1,1,1}, {2,1,1.5}, {10,4,1}; the scripted cluster client reports the snapshots the harness releases; first-fit refusing a packable set is not an alarm (counted)")
	res.Assume("'scaled by the commit level' leaves the rounding free: the convention (nearest / down / up) is read off the provider's scaling function at three probe points and then demanded of every amount")
	res.Extra("commit_rounding_convention", vCommitConvention())
	if vs.Stage() == "" && vs.ReplayFile() == "" {
		for _, f := range []string{"sequences", "granted", "refused", "granted_multi_entry", "status_checks", "deployment_events", "metamorphic_pairs", "linearizability_histories", "packing_sequences"} {
			res.Floor(f, 1)
		}
	}
	defer func() {
		if err := res.Write(); err != nil {
			t.Fatalf("cannot write result: %v", err)
		}
		if n := res.Violations(); n > 0 {
			t.Errorf("%d violation(s) recorded", n)
		}
	}()
	verifhook.Set(vClusterHook)
	defer verifhook.Set(nil)

	levelSets := [][3]float64{{1, 1, 1}, {2, 1, 1.5}, {10, 4, 1}}
	judge := func(levels [3]float64, ports int, ops []vInvOp, origin string) {
		a := vRunInvOps(levels, ports, ops, true)
		b := vRunInvOps(levels, ports, ops, false)
		res.Eval(1)
		res.Count("sequences", 1)
		res.Count("metamorphic_pairs", 1)
		res.Count("granted", a.granted)
		res.Count("refused", a.refused)
		res.Count("refused_although_packable", a.refusedPackable)
		if a.multiEntry {
			res.Count("granted_multi_entry", 1)
		}
		for _, op := range ops {
			if op.Kind == "deployed" || op.Kind == "pending" {
				res.Count("deployment_events", 1)
			}
		}
		res.Count("status_checks", len(a.run.Outcomes))
		res.Distinct(vInvOps(ops) + fmt.Sprint(levels))
		for _, st := range []*vInvState{a, b} {
			for _, v := range st.viol {
				res.AddViolation(v.Rule, "C12/"+v.Rule+"/"+v.Trigger, v.Detail, st.run)
			}
		}
		oa, ob := vInvOutcomesString(a.run.Outcomes, true), vInvOutcomesString(b.run.Outcomes, true)
		if len(a.run.Notes) == 0 && len(b.run.Notes) == 0 {
			if oa != ob {
				res.AddViolation("status-queries-change-nothing", "C12/status-queries-change-nothing/outcomes", fmt.Sprintf("the same operations gave different results with interleaved status queries: [%s] vs without: [%s]", oa, ob), a.run)
			} else if a.run.Final != b.run.Final {
				res.AddViolation("status-queries-change-nothing", "C12/status-queries-change-nothing/final-status", fmt.Sprintf("after %s the final status is %s with interleaved status queries and %s without", vInvOps(ops), a.run.Final, b.run.Final), a.run)
			}
		} else {
			res.Count("runs_with_harness_notes", 1)
		}
		if res.WantSample() && a.granted >= 2 {
			res.Sample(a.run)
		}
	}

	if rp := vs.ReplayFile(); rp != "" {
		var r vInvRun
		if err := vs.LoadReplay(rp, &r); err != nil {
			t.Fatalf("replay: %v", err)
		}
		judge(r.Levels, r.Ports, r.Ops, "replay")
		return
	}
	if vs.Stage() == "race" {
		vInvLinearizability(res, vs.Scale(6, 60))
		return
	}

	// (1) complete small scope
	al := vInvAlphabet(2)
	depth := 3
	var seqs [][]vInvOp
	var rec func(prefix []vInvOp)
	rec = func(prefix []vInvOp) {
		if len(prefix) > 0 {
			seqs = append(seqs, append([]vInvOp(nil), prefix...))
		}
		if len(prefix) == depth {
			return
		}
		for _, o := range al {
			rec(append(prefix, o))
		}
	}
	if vs.Thorough() {
		rec(nil)
	} else {
		// quick: all sequences of length <= 2, and a seeded third of length 3
		depth = 2
		rec(nil)
		r := vs.NewRand(vs.Seed(), 0xC12)
		for i := 0; i < 700; i++ {
			seqs = append(seqs, []vInvOp{al[r.Intn(len(al))], al[r.Intn(len(al))], al[r.Intn(len(al))]})
		}
	}
	res.Extra("small_scope", fmt.Sprintf("alphabet of %d operations over 2 orders / 3 groups / 3 snapshots; %d sequences of length <= 3 (thorough: all of them), each preceded by refresh(s0), commit levels {1,1,1}", len(al), len(seqs)))
	workers := runtime.NumCPU()
	vs.Parallel(len(seqs), workers, func(i int) {
		ops := append([]vInvOp{{Kind: "refresh", Snap: 0}}, seqs[i]...)
		judge(levelSets[0], 3, ops, "enum")
	})
	// (2) random long sequences over 3 orders, all commit-level sets
	al3 := vInvAlphabet(3)
	seed := vs.Seed()
	nr := vs.Scale(600, 20000)
	vs.Parallel(nr, workers, func(i int) {
		r := vs.NewRand(seed, uint64(i)+0xC1212)
		n := r.Range(8, 20)
		ops := []vInvOp{{Kind: "refresh", Snap: r.Intn(vInvBaseSnaps)}}
		for k := 0; k < n; k++ {
			o := al3[r.Intn(len(al3))]
			if o.Kind == "reserve" {
				o.Snap = r.Intn(vInvBaseSnaps)
			}
			ops = append(ops, o)
		}
		judge(levelSets[i%len(levelSets)], r.Range(1, 4), ops, "random")
	})
	// (2b) packing enumeration: on each packing snapshot every ordered pair
	// (thorough: triple) of packing groups is reserved in turn (plus, for
	// pairs, a third reservation drawn from the seed), all of them pending
	nPack := len(vInvGroups) - vInvBaseGroups
	var packs [][]vInvOp
	pr := vs.NewRand(seed, 0xC12BB)
	for sn := vInvBaseSnaps; sn < len(vInvSnaps); sn++ {
		for a := 0; a < nPack; a++ {
			for b := 0; b < nPack; b++ {
				base := []vInvOp{{Kind: "refresh", Snap: sn},
					{Kind: "reserve", Order: 1, Group: vInvBaseGroups + a, Snap: sn},
					{Kind: "reserve", Order: 2, Group: vInvBaseGroups + b, Snap: sn}}
				if vs.Thorough() {
					for c := 0; c < nPack; c++ {
						packs = append(packs, append(append([]vInvOp(nil), base...), vInvOp{Kind: "reserve", Order: 3, Group: vInvBaseGroups + c, Snap: sn}))
					}
				} else {
					packs = append(packs, append(append([]vInvOp(nil), base...), vInvOp{Kind: "reserve", Order: 3, Group: vInvBaseGroups + pr.Intn(nPack), Snap: sn}))
				}
			}
		}
	}
	res.Extra("packing_enumeration", fmt.Sprintf("%d sequences: 3 node snapshots x ordered pairs%s of 9 single-entry groups (cpu 600/700/1100 x 1..3 replicas)", len(packs), map[bool]string{true: " and triples", false: " plus a drawn third"}[vs.Thorough()]))
	vs.Parallel(len(packs), workers, func(i int) {
		judge(levelSets[0], 3, packs[i], "packing")
		res.Count("packing_sequences", 1)
	})
	// (3) linearizability of a concurrent history
	vInvLinearizability(res, vs.Scale(4, 40))
}

// ---- porcupine -------------------------------------------------------------------

type vLinIn struct {
	Op    string // reserve | unreserve | status
	Order int
}
type vLinOut struct {
	OK     bool
	Count  int
	Detail string // status: the cpu amounts of the listed reservations, sorted
}

// order -> group template of the linearizability runs, and that group's total cpu
// (single-entry groups with one replica each: g0, g2 and the packing group p700x1)
var vLinGroup = map[int]int{1: 0, 2: 2, 3: vInvBaseGroups + 3}
var vLinCPU = map[int]uint64{1: 1000, 2: 2500, 3: 700}

func vInvLinearizability(res *vs.Result, runs int) {
	model := porcupine.Model{
		Init: func() interface{} { return "" },
		Step: func(state, in, out interface{}) (bool, interface{}) {
			st := state.(string)
			counts := map[int]int{}
			total := 0
			if st != "" {
				for _, p := range strings.Split(st, ",") {
					var o, n int
					fmt.Sscanf(p, "%d:%d", &o, &n)
					counts[o] = n
					total += n
				}
			}
			enc := func() string {
				var ks []int
				for k, n := range counts {
					if n > 0 {
						ks = append(ks, k)
					}
				}
				sort.Ints(ks)
				var ss []string
				for _, k := range ks {
					ss = append(ss, fmt.Sprintf("%d:%d", k, counts[k]))
				}
				return strings.Join(ss, ",")
			}
			i, o := in.(vLinIn), out.(vLinOut)
			switch i.Op {
			case "reserve":
				if !o.OK {
					return false, st // huge inventory: a reservation is always possible
				}
				counts[i.Order]++
				return true, enc()
			case "unreserve":
				if counts[i.Order] > 0 {
					if !o.OK {
						return false, st
					}
					counts[i.Order]--
					return true, enc()
				}
				return !o.OK, st
			case "status":
				// one entry per outstanding reservation, each with its own amounts
				// (the three orders reserve groups of different sizes)
				var want []string
				for k, n := range counts {
					for j := 0; j < n; j++ {
						want = append(want, fmt.Sprint(vLinCPU[k]))
					}
				}
				sort.Strings(want)
				return o.Count == total && o.Detail == strings.Join(want, ","), st
			}
			return false, st
		},
		Equal: func(a, b interface{}) bool { return a.(string) == b.(string) },
		DescribeOperation: func(in, out interface{}) string {
			return fmt.Sprintf("%v -> %v", in, out)
		},
	}
	seed := vs.Seed()
	for run := 0; run < runs; run++ {
		g := vs.NewGates()
		bus := pubsub.NewBus()
		sub, _ := bus.Subscribe()
		donec := make(chan struct{})
		huge := []ctypes.Node{NewNode("n0",
			atypes.ResourceUnits{CPU: &atypes.CPU{Units: atypes.NewResourceValue(1 << 40)}, Memory: &atypes.Memory{Quantity: atypes.NewResourceValue(1 << 50)}, Storage: &atypes.Storage{Quantity: atypes.NewResourceValue(1 << 50)}},
			atypes.ResourceUnits{CPU: &atypes.CPU{Units: atypes.NewResourceValue(1 << 40)}, Memory: &atypes.Memory{Quantity: atypes.NewResourceValue(1 << 50)}, Storage: &atypes.Storage{Quantity: atypes.NewResourceValue(1 << 50)}})}
		g.Auto(vKInventory, func(interface{}) (interface{}, error) { return huge, nil })
		cfg := Config{InventoryResourcePollPeriod: time.Hour, InventoryResourceDebugFrequency: 1 << 30, InventoryExternalPortQuantity: 1 << 20, CPUCommitLevel: 1, MemoryCommitLevel: 1, StorageCommitLevel: 1}
		vInvMu.Lock()
		vInvNext.Store((*vs.Stepper)(nil))
		is, err := newInventoryService(cfg, log.NewNopLogger(), donec, sub, &vInvClient{Client: NullClient(), g: g}, nil)
		vInvMu.Unlock()
		if err != nil {
			res.Inconclusive("cannot start inventory service: " + err.Error())
			return
		}
		<-is.ready()
		var clock int64
		var mu sync.Mutex
		var ops []porcupine.Operation
		var wg sync.WaitGroup
		clients := 8
		for c := 0; c < clients; c++ {
			c := c
			wg.Add(1)
			go func() {
				defer wg.Done()
				r := vs.NewRand(seed, uint64(run*100+c)+0x11C)
				for k := 0; k < 40; k++ {
					in := vLinIn{Op: []string{"reserve", "unreserve", "status"}[r.Pick([]int{4, 4, 3})], Order: r.Range(1, 3)}
					call := atomic.AddInt64(&clock, 1)
					var out vLinOut
					switch in.Op {
					case "reserve":
						_, e := is.reserve(vInvOrder(in.Order), vInvGroup(vLinGroup[in.Order]))
						out.OK = e == nil
					case "unreserve":
						out.OK = is.unreserve(vInvOrder(in.Order)) == nil
					case "status":
						st, e := is.status(context.Background())
						out.OK = e == nil
						out.Count = len(st.Active) + len(st.Pending)
						var got []string
						for _, ru := range append(append([]atypes.ResourceUnits(nil), st.Active...), st.Pending...) {
							if ru.CPU != nil {
								got = append(got, fmt.Sprint(ru.CPU.Units.Value()))
							}
						}
						sort.Strings(got)
						out.Detail = strings.Join(got, ",")
					}
					ret := atomic.AddInt64(&clock, 1)
					mu.Lock()
					ops = append(ops, porcupine.Operation{ClientId: c, Input: in, Call: call, Output: out, Return: ret})
					mu.Unlock()
					if r.Chance(1, 4) {
						runtime.Gosched()
					}
				}
			}()
		}
		wg.Wait()
		close(donec)
		<-is.lc.Done()
		bus.Close()
		result, _ := porcupine.CheckOperationsVerbose(model, ops, 30*time.Second)
		res.Eval(1)
		res.Count("linearizability_histories", 1)
		res.Count("linearizability_operations", len(ops))
		switch result {
		case porcupine.Illegal:
			var view []string
			for _, o := range ops {
				view = append(view, fmt.Sprintf("c%d %v->%v [%d,%d]", o.ClientId, o.Input, o.Output, o.Call, o.Return))
			}
			res.AddViolation("reservation-accounting-linearizable", "C12/reservation-accounting-linearizable/concurrent", fmt.Sprintf("history of %d concurrent reserve/unreserve/status operations is not linearizable against the multiset model", len(ops)), view)
		case porcupine.Unknown:
			res.Inconclusive("porcupine timed out on a history of " + fmt.Sprint(len(ops)) + " operations")
		}
	}
	_ = lifecycle.New
}
