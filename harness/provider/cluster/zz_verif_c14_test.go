//go:build verif
// +build verif

package cluster

// C14 — the deployment manager serializes cluster actions and always tears
// down.  DESIGN.md §5 C14 (engine E3): the real deploymentManager.run loop is
// stepped one message at a time through the loop-top hook; Deploy /
// TeardownLease / hostname reservation are scripted calls that block until
// the harness releases them.  All enabled event sequences up to a bound are
// enumerated, each on a fresh manager; the call log is judged at the end.

import (
	"context"
	"errors"
	"fmt"
	"runtime"
	"strings"
	"sync"
	"sync/atomic"
	"testing"
	"time"

	lifecycle "github.com/boz/go-lifecycle"
	sdk "github.com/cosmos/cosmos-sdk/types"
	"github.com/tendermint/tendermint/libs/log"

	"github.com/ovrclk/akash/manifest"
	ctypes "github.com/ovrclk/akash/provider/cluster/types"
	"github.com/ovrclk/akash/pubsub"
	"github.com/ovrclk/akash/util/verifhook"
	vs "github.com/ovrclk/akash/verifsupport"
	"github.com/ovrclk/akash/verifsupport/venv"
	dtypes "github.com/ovrclk/akash/x/deployment/types"
	mtypes "github.com/ovrclk/akash/x/market/types"
	ptypes "github.com/ovrclk/akash/x/provider/types"
)

const (
	vKDeploy   = "deploy"
	vKTeardown = "teardown"
)

var vDMRouter = &vs.HookRouter{}

// ---- scripted environment ---------------------------------------------------

type vScriptedCluster struct {
	Client // NullClient for everything not scripted
	g      *vs.Gates
}

func (c *vScriptedCluster) Deploy(ctx context.Context, lid mtypes.LeaseID, mg *manifest.Group) error {
	_, err := c.g.Enter(vKDeploy, mg)
	return err
}

func (c *vScriptedCluster) TeardownLease(ctx context.Context, lid mtypes.LeaseID) error {
	_, err := c.g.Enter(vKTeardown, lid)
	return err
}

func (c *vScriptedCluster) LeaseStatus(ctx context.Context, lid mtypes.LeaseID) (*ctypes.LeaseStatus, error) {
	return &ctypes.LeaseStatus{Services: map[string]*ctypes.ServiceStatus{}}, nil
}

type vScriptedHostnames struct {
	mu       sync.Mutex
	g        *vs.Gates
	pending  chan error
	reserved int64 // stamp of the successful reservation result
	released int64 // stamp of ReleaseHostnames
}

func (h *vScriptedHostnames) ReserveHostnames(hostnames []string, did dtypes.DeploymentID) <-chan error {
	h.mu.Lock()
	defer h.mu.Unlock()
	h.pending = make(chan error, 1)
	return h.pending
}

func (h *vScriptedHostnames) CanReserveHostnames(hostnames []string, did dtypes.DeploymentID) <-chan error {
	ch := make(chan error, 1)
	ch <- nil
	return ch
}

func (h *vScriptedHostnames) ReleaseHostnames(hostnames []string) {
	h.mu.Lock()
	h.released = h.g.Stamp()
	h.mu.Unlock()
}

func (h *vScriptedHostnames) answer(err error) bool {
	h.mu.Lock()
	defer h.mu.Unlock()
	if h.pending == nil {
		return false
	}
	if err == nil {
		h.reserved = h.g.Stamp()
	}
	h.pending <- err
	h.pending = nil
	return true
}

// ---- one scenario -----------------------------------------------------------

type vDMEvent string

const (
	evU  vDMEvent = "U"  // manifest update
	evC  vDMEvent = "C"  // lease closed -> teardown()
	evHp vDMEvent = "H+" // hostnames reserved
	evHm vDMEvent = "H-" // hostname reservation refused
	evDp vDMEvent = "D+" // deploy returns nil
	evDm vDMEvent = "D-" // deploy returns an error
	evTp vDMEvent = "T+" // teardown returns nil
	evT1 vDMEvent = "T1" // teardown fails once, then succeeds
	evS  vDMEvent = "S"  // shutdown
)

type vDMRun struct {
	Seq       []vDMEvent        `json:"seq"`
	Calls     []vs.GateCallView `json:"calls"`
	Notes     []string          `json:"notes,omitempty"`
	Accepted  map[string]int64  `json:"accepted"` // event -> stamp at which the caller's hand-off returned nil
	Done      bool              `json:"manager_done"`
	FinalLoop []interface{}     `json:"-"`
}

type vDMState struct {
	discovery bool // run only to find the enabled events of a prefix
	dm        *deploymentManager
	st        *vs.Stepper
	g         *vs.Gates
	hosts     *vScriptedHostnames
	bus       pubsub.Bus
	nMan      int
	lastM     *manifest.Group
	run       *vDMRun
	hostOK    bool // hostname answer still outstanding
	shut      bool
	// manifests by pointer for the log
	names map[*manifest.Group]string
}

const vStepTimeout = 20 * time.Second

// vDMStuckSeen: a manager loop was seen stuck for the whole bound in this
// process; later waits of the stepping harness are short (the verdict exists,
// the remaining sequences add detail).
var vDMStuckSeen int32

func vStepBound() time.Duration {
	if atomic.LoadInt32(&vDMStuckSeen) != 0 {
		return 300 * time.Millisecond
	}
	return vStepTimeout
}

func vNewDMState() *vDMState {
	g := vs.NewGates()
	s := &vDMState{g: g, st: vs.NewStepper(), hosts: &vScriptedHostnames{g: g}, bus: venv.QuietBus(pubsub.NewBus()), names: map[*manifest.Group]string{}}
	s.run = &vDMRun{Accepted: map[string]int64{}}
	m0 := s.newManifest()
	owner := sdk.AccAddress([]byte("verif-tenant-0000000")).String()
	prov := sdk.AccAddress([]byte("verif-provider-00000")).String()
	lease := mtypes.LeaseID{Owner: owner, DSeq: 7, GSeq: 1, OSeq: 1, Provider: prov}
	dm := &deploymentManager{
		bus:             s.bus,
		client:          &vScriptedCluster{Client: NullClient(), g: g},
		session:         venv.NewSession(g, &ptypes.Provider{Owner: prov}),
		state:           dsDeployActive,
		lease:           lease,
		mgroup:          m0,
		wg:              sync.WaitGroup{},
		updatech:        make(chan *manifest.Group),
		teardownch:      make(chan struct{}),
		log:             log.NewNopLogger(),
		lc:              lifecycle.New(),
		hostnameService: s.hosts,
	}
	vs.InitNilMaps(dm)
	s.dm = dm
	s.lastM = m0
	vDMRouter.Register(dm, s.st)
	go dm.run()
	s.hostOK = true
	return s
}

func (s *vDMState) newManifest() *manifest.Group {
	s.nMan++
	m := &manifest.Group{Name: fmt.Sprintf("m%d", s.nMan), Services: []manifest.Service{{Name: "web", Image: "img", Count: 1}}}
	s.names[m] = m.Name
	return m
}

func (s *vDMState) done() bool {
	select {
	case <-s.dm.lc.Done():
		return true
	default:
		return false
	}
}

func (s *vDMState) note(f string, a ...interface{}) {
	s.run.Notes = append(s.run.Notes, fmt.Sprintf(f, a...))
}

// settle waits until the loop is parked and, if it says an operation is in
// flight, until that operation's scripted call has registered.
func (s *vDMState) settle() string {
	r := s.st.WaitParked(s.dm.lc.Done(), vStepBound())
	if r == "timeout" {
		atomic.StoreInt32(&vDMStuckSeen, 1)
	}
	if r != "parked" {
		return r
	}
	last := s.st.LastArgs()
	if len(last) >= 2 {
		if inflight, _ := last[1].(bool); inflight {
			deadline := time.Now().Add(vStepTimeout)
			for s.g.Pending(vKDeploy) == nil && s.g.Pending(vKTeardown) == nil && s.unconsumed() == 0 {
				if time.Now().After(deadline) {
					return "timeout"
				}
				runtime.Gosched()
				time.Sleep(20 * time.Microsecond)
			}
		}
	}
	return r
}

// unconsumed: calls that have returned but whose result the loop has not
// taken yet cannot be told apart from outside; the harness always steps the
// loop right after releasing, so this is 0 at settle time.
func (s *vDMState) unconsumed() int { return 0 }

func (s *vDMState) enabled() []vDMEvent {
	if s.done() {
		return nil
	}
	var ev []vDMEvent
	if !s.shut {
		ev = append(ev, evU, evC, evS)
		if s.hostOK {
			ev = append(ev, evHp, evHm)
		}
	}
	if s.g.Pending(vKDeploy) != nil {
		ev = append(ev, evDp, evDm)
	}
	if s.g.Pending(vKTeardown) != nil {
		ev = append(ev, evTp, evT1)
	}
	return ev
}

var errScripted = errors.New("scripted failure")

// apply executes one event as one loop step.
func (s *vDMState) apply(ev vDMEvent) bool {
	s.run.Seq = append(s.run.Seq, ev)
	step := func() bool {
		if s.shut {
			return true // the loop has left; nothing to step
		}
		s.st.Grant(1)
		switch s.settle() {
		case "timeout":
			s.note("timeout after %s", ev)
			return false
		}
		return true
	}
	switch ev {
	case evU, evC:
		res := make(chan error, 1)
		var m *manifest.Group
		if ev == evU {
			m = s.newManifest()
		}
		go func() {
			if ev == evU {
				res <- s.dm.update(m)
			} else {
				res <- s.dm.teardown()
			}
		}()
		if !step() {
			return false
		}
		select {
		case err := <-res:
			if err == nil {
				key := string(ev)
				if ev == evU {
					s.lastM = m
					key = "U:" + m.Name
				}
				if _, had := s.run.Accepted[key]; !had {
					s.run.Accepted[key] = s.g.Stamp()
				}
			} else {
				s.note("%s refused: %v", ev, err)
			}
		case <-time.After(vStepTimeout):
			s.note("%s: caller did not return", ev)
			return false
		}
	case evHp, evHm:
		var err error
		if ev == evHm {
			err = errScripted
		}
		s.hosts.answer(err)
		s.hostOK = false
		return step()
	case evDp, evDm:
		c := s.g.WaitPending(vKDeploy, vStepBound())
		if c == nil {
			s.note("%s: no deploy in flight", ev)
			return false
		}
		var err error
		if ev == evDm {
			err = errScripted
		}
		s.g.Release(c, nil, err)
		s.g.WaitEnded(c, vStepBound())
		return step()
	case evTp:
		c := s.g.WaitPending(vKTeardown, vStepBound())
		if c == nil {
			s.note("T+: no teardown in flight")
			return false
		}
		s.g.Release(c, nil, nil)
		s.g.WaitEnded(c, vStepBound())
		return step()
	case evT1:
		c := s.g.WaitPending(vKTeardown, vStepBound())
		if c == nil {
			s.note("T1: no teardown in flight")
			return false
		}
		s.g.Release(c, nil, errScripted)
		s.g.WaitEnded(c, vStepBound())
		c2 := s.g.WaitPending(vKTeardown, vStepBound()) // retry after the back-off delay
		if c2 == nil {
			s.note("teardown was not retried")
			return false
		}
		s.g.Release(c2, nil, nil)
		s.g.WaitEnded(c2, vStepBound())
		return step()
	case evS:
		go s.dm.lc.ShutdownAsync(nil) // hands the request to the loop: blocks until the loop takes it
		s.st.Grant(1)
		s.shut = true
		s.run.Accepted["S"] = s.g.Stamp()
	}
	return true
}

// finish lets everything in flight complete successfully and runs the
// manager to quiescence (or termination).
func (s *vDMState) finish() (quiescent bool) {
	s.st.Free()
	deadline := time.Now().Add(vStepTimeout)
	idle := 0
	owedIdle := false
	for time.Now().Before(deadline) {
		if s.done() {
			return true
		}
		if s.hostOK && !s.shut {
			// a sequence may end before the hostname answer: give it
			s.hosts.answer(nil)
			s.hostOK = false
			s.run.Seq = append(s.run.Seq, "(H+)")
			idle = 0
			continue
		}
		if n := s.g.ReleaseAll(func(c *vs.GateCall) (interface{}, error) { return nil, nil }); n > 0 {
			idle = 0
			time.Sleep(50 * time.Microsecond)
			continue
		}
		v0 := s.st.Visits()
		time.Sleep(300 * time.Microsecond)
		last := s.st.LastArgs()
		inflight := false
		if len(last) >= 3 {
			a, _ := last[1].(bool)
			b, _ := last[2].(bool)
			inflight = a || b
		}
		if s.st.Visits() == v0 && !inflight && len(s.g.AnyPending()) == 0 {
			// (a loop that was not scheduled for a millisecond looks the same as
			// an idle one: while something is owed - a teardown request was
			// accepted and neither a TeardownLease call nor the end of the manager
			// has been seen - "idle" is only believed once the whole bound has
			// passed)
			if s.owed() {
				if !owedIdle {
					owedIdle = true
					if atomic.LoadInt32(&vDMOwedSeen) != 0 {
						// (a manager that sat on an accepted teardown for the whole
						// bound has been seen in this process: the verdict exists)
						deadline = time.Now().Add(200 * time.Millisecond)
					}
				}
				continue
			}
			idle++
			if idle >= 3 {
				return true
			}
		} else {
			idle = 0
			owedIdle = false
		}
	}
	if owedIdle {
		atomic.StoreInt32(&vDMOwedSeen, 1)
	}
	return owedIdle
}

var vDMOwedSeen int32

// owed: a teardown request was accepted, the manager is still running and no
// TeardownLease call has been made yet.
func (s *vDMState) owed() bool {
	if s.discovery || s.run.Accepted["C"] == 0 || s.done() {
		return false
	}
	for _, c := range s.g.Calls() {
		if c.Kind == vKTeardown {
			return false
		}
	}
	return true
}

func (s *vDMState) cleanup() {
	if !s.done() {
		s.st.Free()
		go s.dm.lc.ShutdownAsync(nil)
		dl := time.Now().Add(5 * time.Second)
		for !s.done() && time.Now().Before(dl) {
			s.g.ReleaseAll(func(c *vs.GateCall) (interface{}, error) { return nil, nil })
			time.Sleep(100 * time.Microsecond)
		}
	}
	vDMRouter.Unregister(s.dm)
	// (the bus is a venv.QuietBus: helper goroutines of the manager that get to
	// subscribe after this point receive a dead subscriber instead of an error)
	s.bus.Close()
}

// ---- oracle -----------------------------------------------------------------

type vDMViolation struct{ Rule, Trigger, Detail string }

var vDMHostnamesNotReleasedByManager int64

func vJudgeDM(s *vDMState, quiescent bool) []vDMViolation {
	var out []vDMViolation
	run := s.run
	seq := vSeqString(run.Seq)
	bad := func(rule, trigger, detail string) {
		out = append(out, vDMViolation{rule, trigger, fmt.Sprintf("sequence %s: %s; calls: %s", seq, detail, vCallsString(run.Calls))})
	}
	if !quiescent {
		bad("reaches-quiescence", vTriggerOf(run.Seq), "the manager neither terminated nor became idle after all scripted calls were released")
		return out
	}
	var ops []vs.GateCallView
	for _, c := range run.Calls {
		if c.Kind == vKDeploy || c.Kind == vKTeardown {
			ops = append(ops, c)
		}
	}
	// (1) never two cluster operations at once
	for i := 0; i < len(ops); i++ {
		for j := i + 1; j < len(ops); j++ {
			a, b := ops[i], ops[j]
			if a.End == 0 || b.Start < a.End {
				bad("cluster-operations-never-overlap", a.Kind+"+"+b.Kind, fmt.Sprintf("%s #%d [%d,%d] overlaps %s #%d starting at %d", a.Kind, a.ID, a.Start, a.End, b.Kind, b.ID, b.Start))
			}
		}
	}
	cAt, closed := run.Accepted["C"]
	_, shut := run.Accepted["S"]
	var deploys, teardowns []vs.GateCallView
	for _, c := range ops {
		if c.Kind == vKDeploy {
			deploys = append(deploys, c)
		} else {
			teardowns = append(teardowns, c)
		}
	}
	// (2) no deploy after teardown was requested
	if closed {
		for _, d := range deploys {
			if d.Start > cAt {
				bad("no-deploy-after-teardown-requested", vTriggerOf(run.Seq), fmt.Sprintf("teardown() was accepted at %d, deploy #%d (manifest %s) started at %d", cAt, d.ID, d.Arg, d.Start))
			}
		}
	}
	// (3) a closed lease is torn down after the last deploy, then released
	if closed && !shut {
		if !run.Done {
			bad("closed-lease-is-torn-down", vTriggerOf(run.Seq), "teardown() was accepted but the manager is idle and still running; TeardownLease calls: "+fmt.Sprint(len(teardowns)))
		}
		// ("if a lease closes, teardown is invoked": also when this manager has
		// not deployed anything itself - after a provider restart a manager is
		// created for a workload that is already running in the cluster)
		// (a manager whose hostname reservation was refused never had anything
		// in the cluster and ends by itself: no teardown is demanded of it)
		refused := false
		for _, e := range run.Seq {
			if e == evHm {
				refused = true
			}
		}
		if len(teardowns) == 0 && (len(deploys) > 0 || !refused) {
			bad("closed-lease-is-torn-down", vTriggerOf(run.Seq), fmt.Sprintf("teardown() was accepted, %d deploy(s) were started, TeardownLease was never invoked", len(deploys)))
		}
		if len(deploys) > 0 && len(teardowns) > 0 {
			lastD := deploys[len(deploys)-1]
			if teardowns[0].Start < lastD.End || lastD.End == 0 {
				bad("teardown-after-last-deploy", vTriggerOf(run.Seq), fmt.Sprintf("first TeardownLease started at %d, last deploy ended at %d", teardowns[0].Start, lastD.End))
			}
		}
		s.hosts.mu.Lock()
		reserved, released := s.hosts.reserved, s.hosts.released
		s.hosts.mu.Unlock()
		// (which component releases the hostnames is not part of the statement:
		// at this level a manager that is done without having released them
		// itself is counted; the release is demanded where the whole cluster
		// service runs - service scenarios and the end-to-end provider stage)
		if run.Done && reserved != 0 && released == 0 {
			atomic.AddInt64(&vDMHostnamesNotReleasedByManager, 1)
		}
	}
	// (4) the last deploy uses the most recent manifest
	failed := false
	for _, e := range run.Seq {
		if e == evDm || e == evHm {
			failed = true
		}
	}
	if !closed && !shut && !failed {
		if len(deploys) == 0 {
			bad("last-deploy-uses-latest-manifest", vTriggerOf(run.Seq), "no deploy was ever started although hostnames were reserved and nothing failed")
		} else if last := deploys[len(deploys)-1]; last.Arg != s.lastM.Name {
			bad("last-deploy-uses-latest-manifest", vTriggerOf(run.Seq), fmt.Sprintf("last deploy carried manifest %s, most recently accepted manifest is %s", last.Arg, s.lastM.Name))
		}
	}
	return out
}

// vTriggerOf abstracts a sequence to the relative order of its first close,
// hostname answer and deploy completion (finding keys must name the kind of
// schedule, not one sequence).
func vTriggerOf(seq []vDMEvent) string {
	var parts []string
	seen := map[string]bool{}
	for _, e := range seq {
		k := strings.Trim(string(e), "()")
		if e == evU {
			continue
		}
		if !seen[k] {
			seen[k] = true
			parts = append(parts, k)
		}
		if len(parts) >= 3 {
			break
		}
	}
	return strings.Join(parts, ",")
}

func vSeqString(seq []vDMEvent) string {
	var ss []string
	for _, e := range seq {
		ss = append(ss, string(e))
	}
	return "[" + strings.Join(ss, " ") + "]"
}

func vCallsString(cs []vs.GateCallView) string {
	var ss []string
	for _, c := range cs {
		if c.Kind != vKDeploy && c.Kind != vKTeardown {
			continue
		}
		s := fmt.Sprintf("%s(%s)@%d-%d", c.Kind, c.Arg, c.Start, c.End)
		if c.Err != "" {
			s += "!err"
		}
		ss = append(ss, s)
	}
	return "[" + strings.Join(ss, " ") + "]"
}

// vRunDMSequence replays a fixed sequence on a fresh manager.
func vRunDMSequence(seq []vDMEvent) (*vDMState, bool, bool) {
	s := vNewDMState()
	if r := s.settle(); r == "timeout" {
		s.note("manager did not reach its loop")
	}
	ok := true
	for _, e := range seq {
		if strings.HasPrefix(string(e), "(") {
			continue
		}
		en := false
		for _, x := range s.enabled() {
			if x == e {
				en = true
			}
		}
		if !en {
			s.note("event %s not enabled here; sequence cut", e)
			ok = false
			break
		}
		if !s.apply(e) {
			ok = false
			break
		}
	}
	q := s.finish()
	s.run.Done = s.done()
	s.run.Calls = s.g.Log()
	for i := range s.run.Calls {
		if c := s.g.Calls()[i]; c.Kind == vKDeploy {
			if mg, isM := c.Arg.(*manifest.Group); isM {
				s.run.Calls[i].Arg = mg.Name
			}
		} else if c.Kind == vKTeardown {
			s.run.Calls[i].Arg = "lease"
		}
	}
	return s, q, ok
}

// vEnumerateDM explores all enabled sequences up to maxLen depth-first
// (stateless: every sequence runs on a fresh manager).
func vEnumerateDM(maxLen int, limit int, visit func(seq []vDMEvent)) int {
	count := 0
	t1Used := 0
	var rec func(prefix []vDMEvent)
	rec = func(prefix []vDMEvent) {
		if limit > 0 && count >= limit {
			return
		}
		// discover what is enabled after the prefix by running it
		s := vNewDMState()
		s.settle()
		alive := true
		for _, e := range prefix {
			if !s.apply(e) {
				alive = false
				break
			}
		}
		var en []vDMEvent
		if alive {
			en = s.enabled()
		}
		// (discovery only: nothing is judged here, so nothing owed is waited for)
		s.discovery = true
		s.finish()
		s.cleanup()
		if len(prefix) > 0 {
			count++
			visit(prefix)
		}
		if len(prefix) >= maxLen {
			return
		}
		for _, e := range en {
			if e == evT1 {
				// the 100 ms back-off makes T1 expensive: a bounded number
				t1Used++
				if t1Used > 40 {
					continue
				}
			}
			rec(append(append([]vDMEvent(nil), prefix...), e))
		}
	}
	rec(nil)
	return count
}

func TestVerif_C14(t *testing.T) {
	res := vs.NewResult("C14", "exploration",
		"all enabled sequences over {manifest update, lease closed, hostnames reserved/refused, deploy ok/error, teardown ok/fails-once, shutdown} up to a length bound, each executed on a fresh real deploymentManager whose loop is stepped one message at a time (loop-top hook) against scripted Deploy/TeardownLease/hostname calls; the call log (logical stamps) is judged: no overlapping cluster operations, no deploy after teardown was requested, closed lease torn down after the last deploy and hostnames released, last deploy carries the latest manifest; plus free-running randomized schedules (under -race in the race stage). distinct = event sequences")
	res.Assume("the scripted cluster client, hostname service and chain client are the environment; stepping makes exactly one loop input ready at a time, simultaneous readiness is only sampled by the free-running runs")
	if vs.Stage() == "" && vs.ReplayFile() == "" {
		for _, f := range []string{"sequences", "seq_with_close", "seq_with_close_before_hostnames", "seq_with_update_during_deploy", "seq_with_failed_deploy", "seq_with_shutdown", "seq_teardown_retry", "service_level_scenarios"} {
			res.Floor(f, 1)
		}
	}
	if vs.ReplayFile() == "" {
		res.Floor("free_runs", 1)
	}
	defer func() {
		res.Count("manager_done_without_releasing_hostnames_itself", int(atomic.LoadInt64(&vDMHostnamesNotReleasedByManager)))
		if err := res.Write(); err != nil {
			t.Fatalf("cannot write result: %v", err)
		}
		if n := res.Violations(); n > 0 {
			t.Errorf("%d violation(s) recorded", n)
		}
	}()
	verifhook.Set(vClusterHook)
	defer verifhook.Set(nil)

	judge := func(seq []vDMEvent, origin string) {
		if atomic.LoadInt32(&vDMOwedSeen) != 0 && res.Violations() >= 24 && vs.ReplayFile() == "" {
			// a manager that sits on an accepted teardown costs a bounded wait per
			// sequence; two dozen recorded sequences are the verdict
			res.Count("sequences_skipped_after_the_verdict", 1)
			return
		}
		s, q, _ := vRunDMSequence(seq)
		s.cleanup()
		res.Eval(1)
		for _, v := range vJudgeDM(s, q) {
			res.AddViolation(v.Rule, "C14/"+v.Rule+"/"+v.Trigger, v.Detail, s.run)
		}
		res.Distinct(vSeqString(seq))
		res.Count("sequences", 1)
		has := func(e vDMEvent) bool {
			for _, x := range seq {
				if x == e {
					return true
				}
			}
			return false
		}
		idx := func(e vDMEvent) int {
			for i, x := range seq {
				if x == e {
					return i
				}
			}
			return 1 << 30
		}
		if has(evC) {
			res.Count("seq_with_close", 1)
			if idx(evC) < idx(evHp) && idx(evC) < idx(evHm) {
				res.Count("seq_with_close_before_hostnames", 1)
			}
		}
		if has(evU) && idx(evHp) < idx(evU) && idx(evU) < idx(evDp) {
			res.Count("seq_with_update_during_deploy", 1)
		}
		if has(evDm) {
			res.Count("seq_with_failed_deploy", 1)
		}
		if has(evS) {
			res.Count("seq_with_shutdown", 1)
		}
		if has(evT1) {
			res.Count("seq_teardown_retry", 1)
		}
		if res.WantSample() && len(seq) >= 3 && has(evC) {
			res.Sample(s.run)
		}
	}

	if rp := vs.ReplayFile(); rp != "" {
		var r vDMRun
		if err := vs.LoadReplay(rp, &r); err != nil {
			t.Fatalf("replay: %v", err)
		}
		judge(r.Seq, "replay")
		return
	}

	if vs.Stage() == "race" {
		vDMFreeRuns(res, vs.Scale(150, 4000))
		return
	}

	// enumeration: sequences are collected single-threaded (cheap) and then
	// judged on all cores
	maxLen := vs.Scale(4, 6)
	var seqs [][]vDMEvent
	vEnumerateDM(maxLen, 0, func(seq []vDMEvent) { seqs = append(seqs, append([]vDMEvent(nil), seq...)) })
	res.Extra("enumeration", fmt.Sprintf("all enabled sequences of length 1..%d: %d (complete, except that the teardown-fails-once branch T1 is followed for the first 40 occurrences only)", maxLen, len(seqs)))
	vs.Parallel(len(seqs), runtime.NumCPU(), func(i int) { judge(seqs[i], "enum") })
	vDMFreeRuns(res, vs.Scale(200, 5000))
	vDMServiceRuns(res)
}

func vClusterHook(point string, args ...interface{}) {
	switch point {
	case "cluster.dm.loop":
		vDMRouter.Handler("cluster.dm.loop")(point, args...)
	case "cluster.inv.loop":
		vInvRouter.Handler("cluster.inv.loop")(point, args...)
	}
}

// ---- free-running randomized schedules --------------------------------------

// vDMFreeRuns drives managers without stepping: callers and releases race
// with each other and with Go's select; only the schedule-independent
// clauses are judged (no overlap; teardown after last deploy; closed lease
// torn down; hostnames released).
func vDMFreeRuns(res *vs.Result, n int) {
	seed := vs.Seed()
	vs.Parallel(n, runtime.NumCPU(), func(i int) {
		r := vs.NewRand(seed, uint64(i)+0xC14)
		s := vNewDMState()
		s.st.Free()
		var wg sync.WaitGroup
		closed := false
		nEv := r.Range(2, 7)
		// releaser goroutine: answers whatever is pending with random results
		stop := make(chan struct{})
		wg.Add(1)
		go func() {
			defer wg.Done()
			rr := vs.NewRand(seed, uint64(i)*7+1)
			for {
				select {
				case <-stop:
					return
				default:
				}
				if rr.Chance(1, 3) {
					s.hosts.answer(nil)
				}
				for _, c := range s.g.AnyPending() {
					if rr.Chance(1, 2) {
						var err error
						if c.Kind == vKDeploy && rr.Chance(1, 8) {
							err = errScripted
						}
						s.g.Release(c, nil, err)
					}
				}
				if rr.Chance(1, 2) {
					runtime.Gosched()
				} else {
					time.Sleep(time.Duration(rr.Intn(80)) * time.Microsecond)
				}
			}
		}()
		var seq []vDMEvent
		for k := 0; k < nEv; k++ {
			if r.Chance(1, 3) && !closed {
				closed = true
				seq = append(seq, evC)
				if err := s.dm.teardown(); err == nil {
					s.run.Accepted["C"] = s.g.Stamp()
				}
			} else {
				seq = append(seq, evU)
				m := s.newManifest()
				if err := s.dm.update(m); err == nil {
					s.lastM = m
				}
			}
			if r.Chance(1, 2) {
				time.Sleep(time.Duration(r.Intn(120)) * time.Microsecond)
			}
		}
		s.run.Seq = seq
		close(stop)
		wg.Wait()
		q := s.finish()
		s.run.Done = s.done()
		s.run.Calls = s.g.Log()
		for k := range s.run.Calls {
			if c := s.g.Calls()[k]; c.Kind == vKDeploy {
				if mg, isM := c.Arg.(*manifest.Group); isM {
					s.run.Calls[k].Arg = mg.Name
				}
			}
		}
		s.cleanup()
		res.Eval(1)
		res.Count("free_runs", 1)
		for _, v := range vJudgeDM(s, q) {
			if v.Rule == "no-deploy-after-teardown-requested" || v.Rule == "last-deploy-uses-latest-manifest" {
				continue // stamp order of racing goroutines is not the loop's order
			}
			res.AddViolation(v.Rule, "C14/free/"+v.Rule+"/"+v.Trigger, v.Detail, s.run)
		}
	})
}
