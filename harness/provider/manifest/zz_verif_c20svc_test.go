//go:build verif
// +build verif

package manifest

// C20, service level.  The real manifest.NewService (its run loop, the
// managers it creates, reaps and re-creates per deployment) runs freely:
// client goroutines call Submit, an event goroutine publishes LeaseWon /
// EventLeaseClosed / EventDeploymentUpdated / EventDeploymentClosed on the
// real bus, a responder releases the scripted chain fetches (ok with the
// version then in force / error) after random delays.  Deployments 1 and 12
// of one tenant (their store paths are prefixes of one another) have
// manifests with different hashes.  Because everything is concurrent, only
// clauses that do not depend on the order of concurrent actions are judged:
//
//   - every Submit returns once the events have stopped and every fetch is
//     released (including a final probe submission per deployment: a service
//     loop that is stuck answers nothing);
//   - an announced manifest belongs to the announced deployment, validated
//     against a version that was in force for it at some time, after a lease
//     for it had been published and a fetch for it had succeeded;
//   - an accepted submission has the same justification, and its manifest is
//     announced.
//
// The order-sensitive clauses are decided by the stepped manager-level
// enumeration in zz_verif_c20_test.go.

import (
	"bytes"
	"context"
	"fmt"
	"runtime"
	"sort"
	"strings"
	"sync"
	"sync/atomic"
	"time"

	sdk "github.com/cosmos/cosmos-sdk/types"

	"github.com/ovrclk/akash/provider/event"
	"github.com/ovrclk/akash/pubsub"
	"github.com/ovrclk/akash/sdl"
	"github.com/ovrclk/akash/util/verifhook"
	vs "github.com/ovrclk/akash/verifsupport"
	"github.com/ovrclk/akash/verifsupport/venv"
	dtypes "github.com/ovrclk/akash/x/deployment/types"
	mtypes "github.com/ovrclk/akash/x/market/types"
	ptypes "github.com/ovrclk/akash/x/provider/types"
)

type vMSvcSubmission struct {
	Dep     int    `json:"dep"`
	Man     int    `json:"man"`
	Reply   string `json:"reply"` // "" = never returned
	Probe   bool   `json:"probe,omitempty"`
	StartAt int64  `json:"start"`
	EndAt   int64  `json:"end,omitempty"`
	// what had happened for this deployment when the reply arrived
	LeaseBefore   bool   `json:"lease_published_before_reply"`
	FetchOKBefore bool   `json:"fetch_ok_before_reply"`
	VersionsSeen  string `json:"versions_in_force_until_reply"`
}

type vMSvcAnn struct {
	Dep     int   `json:"dep"` // index of the deployment named by the lease id (-1 unknown)
	ManDep  int   `json:"manifest_of_dep"`
	Man     int   `json:"man"`
	At      int64 `json:"at"`
	LeaseOK bool  `json:"lease_published_before"`
	FetchOK bool  `json:"fetch_ok_before"`
	VerOK   bool  `json:"version_was_in_force"`
}

type vMSvcRun struct {
	Index    int                `json:"index"`
	PreLease []bool             `json:"pre_existing_lease"`
	Events   []string           `json:"events"`
	Subs     []*vMSvcSubmission `json:"submissions"`
	Anns     []vMSvcAnn         `json:"announcements"`
	Notes    []string           `json:"notes,omitempty"`
	// Watchdog: the service runs with a manifest timeout (microseconds); a
	// lease without a manifest in time makes its watchdog close the bid
	Watchdog      int `json:"watchdog_timeout_us,omitempty"`
	WatchdogFired int `json:"watchdog_close_bids,omitempty"`
	QueriesOpen   int `json:"status_queries_open_when_judged,omitempty"`
}

type vMSvcEnd struct{}

type vMSvcDep struct {
	k *vManifestKit
	// monotone facts (set before the corresponding action is issued)
	leasePublished int32
	fetchOK        int32
	verMask        int32 // bit i: version v_i has been in force
	curVer         int32
	nLease         int32
}

func vManifestServiceStage(res *vs.Result) {
	verifhook.Set(nil)
	for _, f := range []string{"service_runs", "service_submissions", "service_accepted", "service_announcements", "service_rejected_not_running", "service_deployment_closed_events", "service_managers_recreated", "service_probe_submissions", "service_runs_with_manifest_timeout", "service_watchdog_closed_a_bid", "service_submissions_in_runs_where_a_watchdog_fired"} {
		if vs.ReplayFile() == "" {
			res.Floor(f, 1)
		}
	}
	kits := make([]*vManifestKit, 2)
	for i, d := range []uint64{1, 12} {
		k, err := vMakeKitFor(d, fmt.Sprintf("-d%d", d))
		if err != nil {
			res.Inconclusive("cannot build manifests: " + err.Error())
			return
		}
		kits[i] = k
	}
	seed := vs.Seed()
	one := func(i int) {
		run, viol := vRunManifestService(kits, seed, i)
		res.Eval(1)
		res.Count("service_runs", 1)
		var shape []string
		for _, sb := range run.Subs {
			res.Count("service_submissions", 1)
			if sb.Probe {
				res.Count("service_probe_submissions", 1)
			}
			switch {
			case sb.Reply == "nil":
				res.Count("service_accepted", 1)
			case strings.Contains(sb.Reply, ErrNotRunning.Error()):
				res.Count("service_rejected_not_running", 1)
			case strings.Contains(sb.Reply, ErrNoLeaseForDeployment.Error()):
				res.Count("service_rejected_no_lease", 1)
			case strings.Contains(sb.Reply, ErrManifestVersion.Error()):
				res.Count("service_rejected_wrong_version", 1)
			case strings.Contains(sb.Reply, errScriptedFetch.Error()):
				res.Count("service_rejected_fetch_error", 1)
			}
		}
		res.Count("service_announcements", len(run.Anns))
		for _, e := range run.Events {
			if e == "Q" {
				res.Count("service_status_and_activity_queries", 1)
			}
		}
		res.Count("service_status_queries_still_open_when_judged", run.QueriesOpen)
		if run.Watchdog > 0 {
			res.Count("service_runs_with_manifest_timeout", 1)
			res.Count("service_watchdog_closed_a_bid", run.WatchdogFired)
			late := 0
			if run.WatchdogFired > 0 {
				for _, sb := range run.Subs {
					if !sb.Probe {
						late++
					}
				}
			}
			res.Count("service_submissions_in_runs_where_a_watchdog_fired", late)
		}
		closed := 0
		for _, e := range run.Events {
			if strings.HasPrefix(e, "X") {
				res.Count("service_deployment_closed_events", 1)
				closed++
			}
			if len(shape) < 8 {
				shape = append(shape, e)
			}
		}
		if closed > 0 && len(run.Anns) > 0 {
			res.Count("service_managers_recreated", 1)
		}
		res.Distinct(strings.Join(shape, " "))
		for _, v := range viol {
			res.AddViolation(v.Rule, "C20/service/"+v.Rule+"/"+v.Trigger, fmt.Sprintf("service run %d: %s", i, v.Detail), run)
		}
		if res.WantSample() && len(run.Anns) > 0 {
			res.Sample(run)
		}
	}
	if rp := vs.ReplayFile(); rp != "" {
		var run vMSvcRun
		if err := vs.LoadReplay(rp, &run); err == nil {
			// the same plan is drawn again from (seed, index); the interleaving is not
			for k := 0; k < 20; k++ {
				one(run.Index)
			}
		}
		return
	}
	n := vs.Scale(150, 6000)
	vs.Parallel(n, runtime.NumCPU(), one)
}

func vRunManifestService(kits []*vManifestKit, seed int64, idx int) (*vMSvcRun, []vMViolation) {
	r := vs.NewRand(seed, uint64(idx)+0x5C20)
	run := &vMSvcRun{Index: idx}
	g := vs.NewGates()
	bus := pubsub.NewBus()
	defer bus.Close()
	var clock int64
	stamp := func() int64 { return atomic.AddInt64(&clock, 1) }
	var mu sync.Mutex // run.Events / run.Subs / run.Anns / run.Notes
	note := func(f string, a ...interface{}) {
		mu.Lock()
		run.Notes = append(run.Notes, fmt.Sprintf(f, a...))
		mu.Unlock()
	}

	deps := make([]*vMSvcDep, len(kits))
	for i, k := range kits {
		deps[i] = &vMSvcDep{k: k, curVer: 1, verMask: 1 << 1}
	}
	depOf := func(id dtypes.DeploymentID) int {
		for i, d := range deps {
			if d.k.did.Equals(id) {
				return i
			}
		}
		return -1
	}
	// observer of announcements
	obs, _ := bus.Subscribe()
	sawEnd := make(chan struct{})
	var obsWG sync.WaitGroup
	obsWG.Add(1)
	go func() {
		defer obsWG.Done()
		for {
			select {
			case ev, ok := <-obs.Events():
				if !ok {
					return
				}
				if _, end := ev.(vMSvcEnd); end {
					close(sawEnd)
					continue
				}
				e, isAnn := ev.(event.ManifestReceived)
				if !isAnn {
					continue
				}
				a := vMSvcAnn{Dep: depOf(e.LeaseID.DeploymentID()), ManDep: -1, At: stamp()}
				if e.Manifest != nil {
					if v, err := sdl.ManifestVersion(*e.Manifest); err == nil {
						for di, d := range deps {
							for mi := 1; mi <= 3; mi++ {
								if bytes.Equal(v, d.k.v[mi]) {
									a.ManDep, a.Man = di, mi
								}
							}
						}
					}
				}
				if a.Dep >= 0 {
					d := deps[a.Dep]
					a.LeaseOK = atomic.LoadInt32(&d.leasePublished) != 0
					a.FetchOK = atomic.LoadInt32(&d.fetchOK) != 0
					a.VerOK = a.ManDep == a.Dep && atomic.LoadInt32(&d.verMask)&(1<<uint(a.Man)) != 0
				}
				mu.Lock()
				run.Anns = append(run.Anns, a)
				mu.Unlock()
			case <-obs.Done():
				return
			}
		}
	}()

	// pre-existing leases
	var pre []mtypes.QueryLeaseResponse
	for i, d := range deps {
		has := r.Chance(1, 4)
		run.PreLease = append(run.PreLease, has)
		if has {
			atomic.StoreInt32(&d.leasePublished, 1)
			n := atomic.AddInt32(&d.nLease, 1)
			lid := mtypes.LeaseID{Owner: d.k.owner, DSeq: d.k.did.DSeq, GSeq: 1, OSeq: uint32(n), Provider: d.k.prov}
			pre = append(pre, mtypes.QueryLeaseResponse{Lease: mtypes.Lease{LeaseID: lid, State: mtypes.LeaseActive, Price: sdk.NewInt64Coin("uakt", 30)}})
		}
		_ = i
	}
	g.Auto(venv.KQueryGroup, func(arg interface{}) (interface{}, error) {
		id, _ := arg.(dtypes.GroupID)
		for _, d := range deps {
			if d.k.did.Equals(id.DeploymentID()) {
				return &dtypes.QueryGroupResponse{Group: d.k.groups[0]}, nil
			}
		}
		return nil, errScriptedFetch
	})
	sess := venv.NewSessionWith(g, &ptypes.Provider{Owner: kits[0].prov}, venv.Options{
		ActiveLeases: func(sdk.AccAddress) ([]mtypes.QueryLeaseResponse, error) { return pre, nil },
	})

	// responder for the chain fetches
	stop := make(chan struct{})
	var quick, wdFired int32
	var rwg sync.WaitGroup
	rwg.Add(1)
	go func() {
		defer rwg.Done()
		rr := vs.NewRand(seed, uint64(idx)*17+3)
		for {
			select {
			case <-stop:
				return
			default:
			}
			for _, c := range g.AnyPending() {
				if strings.HasPrefix(c.Kind, venv.KBroadcast) {
					// the watchdog's close-bid: in flight for a while, then
					// accepted or refused by the chain
					if atomic.LoadInt32(&quick) == 0 && rr.Chance(3, 4) {
						continue
					}
					atomic.AddInt32(&wdFired, 1)
					if rr.Chance(1, 4) {
						g.Release(c, nil, errScriptedFetch)
					} else {
						g.Release(c, nil, nil)
					}
					continue
				}
				if c.Kind != venv.KQueryDeployment {
					continue
				}
				q := atomic.LoadInt32(&quick) != 0
				if !q && rr.Chance(2, 3) {
					continue
				}
				id, _ := c.Arg.(dtypes.DeploymentID)
				di := depOf(id)
				if di < 0 || (!q && rr.Chance(1, 5)) {
					g.Release(c, nil, errScriptedFetch)
					continue
				}
				d := deps[di]
				ver := atomic.LoadInt32(&d.curVer)
				atomic.StoreInt32(&d.fetchOK, 1)
				resp := &dtypes.QueryDeploymentResponse{
					Deployment: dtypes.Deployment{DeploymentID: d.k.did, State: dtypes.DeploymentActive, Version: append([]byte(nil), d.k.v[ver]...)},
					Groups:     d.k.groups,
				}
				g.Release(c, resp, nil)
			}
			if rr.Bool() {
				runtime.Gosched()
			} else {
				time.Sleep(time.Duration(rr.Intn(60)) * time.Microsecond)
			}
		}
	}()

	ctx, cancel := context.WithCancel(context.Background())
	cfg := ServiceConfig{}
	if r.Chance(1, 3) {
		run.Watchdog = r.Range(10, 400)
		cfg.ManifestTimeout = time.Duration(run.Watchdog) * time.Microsecond
		run.Events = append(run.Events, "W")
	}
	svcI, err := NewService(ctx, sess, bus, vScriptedHostnames{}, cfg)
	if err != nil {
		note("NewService failed: %v", err)
		cancel()
		close(stop)
		rwg.Wait()
		obs.Close()
		obsWG.Wait()
		return run, nil
	}

	var sideQ int32
	var subWG sync.WaitGroup
	submit := func(di, mi int, probe bool) {
		d := deps[di]
		sb := &vMSvcSubmission{Dep: di, Man: mi, Probe: probe, StartAt: stamp()}
		mu.Lock()
		run.Subs = append(run.Subs, sb)
		mu.Unlock()
		subWG.Add(1)
		go func() {
			defer subWG.Done()
			err := svcI.Submit(context.Background(), d.k.did, d.k.m[mi])
			lease := atomic.LoadInt32(&d.leasePublished) != 0
			fok := atomic.LoadInt32(&d.fetchOK) != 0
			mask := atomic.LoadInt32(&d.verMask)
			rep := "nil"
			if err != nil {
				rep = err.Error()
			}
			mu.Lock()
			sb.Reply, sb.EndAt = rep, stamp()
			sb.LeaseBefore, sb.FetchOKBefore = lease, fok
			sb.VersionsSeen = fmt.Sprintf("%03b", mask>>1)
			mu.Unlock()
		}()
	}
	ev := func(s string) {
		mu.Lock()
		run.Events = append(run.Events, s)
		mu.Unlock()
	}

	// the script: a random mix of events and submissions
	n := r.Range(8, 22)
	for j := 0; j < n; j++ {
		di := r.Intn(len(deps))
		d := deps[di]
		switch r.Pick([]int{5, 2, 3, 3, 8, 2}) {
		case 5: // read-only queries are inputs of the same loop
			ev("Q")
			atomic.AddInt32(&sideQ, 1)
			go func(id dtypes.DeploymentID, st bool) {
				qctx, qcancel := context.WithTimeout(context.Background(), vMTimeout)
				defer qcancel()
				if st {
					_, _ = svcI.Status(qctx)
				} else if ac, ok := svcI.(interface {
					IsActive(context.Context, dtypes.DeploymentID) (bool, error)
				}); ok {
					_, _ = ac.IsActive(qctx, id)
				}
				atomic.AddInt32(&sideQ, -1)
			}(d.k.did, r.Bool())
		case 0: // lease won
			atomic.StoreInt32(&d.leasePublished, 1)
			nl := atomic.AddInt32(&d.nLease, 1)
			lid := mtypes.LeaseID{Owner: d.k.owner, DSeq: d.k.did.DSeq, GSeq: 1, OSeq: uint32(nl), Provider: d.k.prov}
			grp := d.k.groups[0]
			ev(fmt.Sprintf("L%d", di))
			_ = bus.Publish(event.LeaseWon{LeaseID: lid, Group: &grp, Price: sdk.NewInt64Coin("uakt", 30)})
		case 1: // lease closed (sometimes one of another provider: must be ignored)
			nl := atomic.LoadInt32(&d.nLease)
			if nl == 0 {
				nl = 1
			}
			lid := mtypes.LeaseID{Owner: d.k.owner, DSeq: d.k.did.DSeq, GSeq: 1, OSeq: uint32(1 + r.Intn(int(nl))), Provider: d.k.prov}
			if r.Chance(1, 4) {
				lid.Provider = sdk.AccAddress([]byte("verif-provider-99999")).String()
			}
			ev(fmt.Sprintf("R%d", di))
			_ = bus.Publish(mtypes.NewEventLeaseClosed(lid, sdk.NewInt64Coin("uakt", 30)))
		case 2: // version update
			v := int32(2 + r.Intn(2))
			// in force from now on (set before the event is published)
			for {
				old := atomic.LoadInt32(&d.verMask)
				if atomic.CompareAndSwapInt32(&d.verMask, old, old|1<<uint(v)) {
					break
				}
			}
			atomic.StoreInt32(&d.curVer, v)
			ev(fmt.Sprintf("V%d:%d", v, di))
			_ = bus.Publish(dtypes.NewEventDeploymentUpdated(d.k.did, d.k.v[v]))
		case 3: // deployment closed
			ev(fmt.Sprintf("X%d", di))
			_ = bus.Publish(dtypes.NewEventDeploymentClosed(d.k.did))
		case 4:
			mi := 1 + r.Intn(3)
			ev(fmt.Sprintf("M%d:%d", mi, di))
			submit(di, mi, false)
		}
		switch r.Intn(3) {
		case 0:
			runtime.Gosched()
		case 1:
			time.Sleep(time.Duration(r.Intn(150)) * time.Microsecond)
		}
	}

	// quiescence: every fetch is answered at once from now on; every Submit
	// must come back
	atomic.StoreInt32(&quick, 1)
	waitSubs := func(d time.Duration) bool {
		done := make(chan struct{})
		go func() { subWG.Wait(); close(done) }()
		select {
		case <-done:
			return true
		case <-time.After(d):
			return false
		}
	}
	var viol []vMViolation
	hang := !waitSubs(vMTimeout)
	if !hang {
		// a last submission per deployment: a service loop that is stuck would
		// leave it unanswered
		for di := range deps {
			ev(fmt.Sprintf("probe:%d", di))
			submit(di, 1+r.Intn(2), true)
		}
		hang = !waitSubs(vMTimeout)
	}
	// let announcements drain: a marker published now is behind every
	// announcement that preceded a reply
	drained := false
	if err := bus.Publish(vMSvcEnd{}); err == nil {
		select {
		case <-sawEnd:
			drained = true
		case <-time.After(vMTimeout):
			note("the observer did not see the end marker")
		}
	}

	cancel()
	select {
	case <-svcI.Done():
	case <-time.After(2 * time.Second):
		note("the service had not terminated 2 s after its context was cancelled")
	}
	close(stop)
	rwg.Wait()
	g.ReleaseAll(func(c *vs.GateCall) (interface{}, error) { return nil, errScriptedFetch })
	obs.Close()
	obsWG.Wait()

	mu.Lock()
	defer mu.Unlock()
	run.WatchdogFired = int(atomic.LoadInt32(&wdFired))
	run.QueriesOpen = int(atomic.LoadInt32(&sideQ))
	trig := func(di int) string {
		var parts []string
		seen := map[string]bool{}
		for _, e := range run.Events {
			k := e
			if i := strings.IndexAny(e, "0123456789:"); i > 0 {
				k = e[:i]
			}
			if !seen[k] {
				seen[k] = true
				parts = append(parts, k)
			}
		}
		sort.Strings(parts)
		return strings.Join(parts, ",")
	}
	if hang {
		var open []string
		for i, sb := range run.Subs {
			if sb.Reply == "" {
				open = append(open, fmt.Sprintf("#%d(dep %d, m%d, probe=%v)", i, sb.Dep, sb.Man, sb.Probe))
			}
		}
		viol = append(viol, vMViolation{"every-submission-answered", trig(0), fmt.Sprintf("events %v: submissions %v had no reply %s after the last event although every chain fetch was answered", run.Events, open, vMTimeout)})
	}
	annSeen := map[[2]int]bool{}
	for _, a := range run.Anns {
		annSeen[[2]int{a.Dep, a.Man}] = true
		switch {
		case a.Dep < 0:
			viol = append(viol, vMViolation{"announcement-names-a-known-deployment", trig(0), "a manifest was announced for a lease of an unknown deployment"})
		case a.ManDep != a.Dep:
			viol = append(viol, vMViolation{"announced-manifest-belongs-to-the-deployment", trig(a.Dep), fmt.Sprintf("events %v: the manifest announced for deployment %d is m%d of deployment %d", run.Events, a.Dep, a.Man, a.ManDep)})
		case !a.LeaseOK:
			viol = append(viol, vMViolation{"announce-only-with-a-lease", trig(a.Dep), fmt.Sprintf("events %v: manifest m%d announced for deployment %d before any lease for it existed", run.Events, a.Man, a.Dep)})
		case !a.FetchOK:
			viol = append(viol, vMViolation{"announce-only-after-chain-data", trig(a.Dep), fmt.Sprintf("events %v: manifest m%d announced for deployment %d before any chain fetch for it had succeeded", run.Events, a.Man, a.Dep)})
		case !a.VerOK || a.Man == 3:
			viol = append(viol, vMViolation{"announce-only-validated-manifest", trig(a.Dep), fmt.Sprintf("events %v: manifest m%d announced for deployment %d; its version was never in force / it does not match the on-chain groups", run.Events, a.Man, a.Dep)})
		}
	}
	for i, sb := range run.Subs {
		if sb.Reply != "nil" {
			continue
		}
		okVer := sb.Man != 3 && len(sb.VersionsSeen) == 3 && sb.VersionsSeen[3-sb.Man] == '1'
		if !sb.LeaseBefore || !sb.FetchOKBefore || !okVer {
			viol = append(viol, vMViolation{"accept-only-valid-manifest", trig(sb.Dep), fmt.Sprintf("events %v: submission #%d (deployment %d, m%d) was accepted; lease published before: %v, fetch succeeded before: %v, versions in force until then (v3v2v1): %s", run.Events, i, sb.Dep, sb.Man, sb.LeaseBefore, sb.FetchOKBefore, sb.VersionsSeen)})
		}
		if !hang && drained && !annSeen[[2]int{sb.Dep, sb.Man}] {
			viol = append(viol, vMViolation{"acceptance-implies-announcement", trig(sb.Dep), fmt.Sprintf("events %v: submission #%d (deployment %d, m%d) was accepted but that manifest was never announced for that deployment", run.Events, i, sb.Dep, sb.Man)})
		}
	}
	return run, viol
}
