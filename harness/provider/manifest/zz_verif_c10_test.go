//go:build verif
// +build verif

package manifest

// C10, provider side: "the provider accepts a manifest for a deployment only
// if its hash equals the version recorded on chain for that deployment".
// The version in force is state of the manifest manager (fetched chain data,
// later update events), so this clause is judged on the real manager, with
// the stepping harness of C20 (zz_verif_c20_test.go): all enabled sequences
// of submissions, version updates, fetch completions and leases up to a
// bound.  Only the acceptance clauses are judged here; the reply/announce
// discipline is C20's.

import (
	"fmt"
	"runtime"
	"strings"
	"testing"

	"github.com/ovrclk/akash/util/verifhook"
	vs "github.com/ovrclk/akash/verifsupport"
)

func TestVerif_C10(t *testing.T) {
	res := vs.NewResult("C10", "exploration",
		"manager stage: all enabled sequences over {lease won, lease removed, submit m1 / m2 / m3, version update to v2 / v3, chain fetch ok / error, stop} up to a bound on the real manifest.manager (stepped, scripted chain fetch); alarm when a submission is accepted, or a manifest announced, whose hash is not the version in force (fetched version, superseded by later update events) or whose resources do not match the on-chain groups. distinct = event sequences containing a version update and a submission")
	res.Assume("manager stage of C10; the validation-level oracle and the hash checks are the main stage (package validation)")
	defer func() {
		if err := res.Write(); err != nil {
			t.Fatalf("cannot write result: %v", err)
		}
		if n := res.Violations(); n > 0 {
			t.Errorf("%d violation(s) recorded", n)
		}
	}()
	if vs.ReplayFile() != "" {
		return // replays of manager-stage cases go through bin/check C20 --replay
	}
	res.Floor("manager_sequences", 1)
	res.Floor("manager_sequences_with_update_and_submission", 1)
	res.Floor("manager_accepted", 1)
	res.Floor("manager_rejected_wrong_version", 1)
	k, err := vMakeKit()
	if err != nil {
		res.Inconclusive("cannot build manifests: " + err.Error())
		return
	}
	verifhook.Set(vMgrHook)
	defer verifhook.Set(nil)
	var seqs [][]vMEvent
	vEnumerateM(k, vs.Scale(4, 5), func(seq []vMEvent) {
		hasV, hasM := false, false
		for _, e := range seq {
			if e == mV2 || e == mV3 {
				hasV = true
			}
			if e == mM1 || e == mM2 || e == mM3 {
				hasM = true
			}
		}
		if hasM {
			seqs = append(seqs, append([]vMEvent(nil), seq...))
			_ = hasV
		}
	})
	vSortSeqs(seqs)
	// directed: version updates on both sides of the fetch, then a submission
	nEnum := len(seqs)
	seqs = append(seqs, vMDirectedVersionSeqs()...)
	res.Count("manager_directed_sequences", len(seqs)-nEnum)
	// random longer sequences, version updates and submissions weighted up
	seed := vs.Seed()
	nr := vs.Scale(800, 20000)
	for i := 0; i < nr; i++ {
		r := vs.NewRand(seed, uint64(i)+0xC10)
		n := r.Range(5, 9)
		seq := []vMEvent{}
		pool := []vMEvent{mL, mL, mR, mM1, mM2, mM3, mM1, mM2, mV2, mV3, mV2, mV3, mFp, mFp, mFm}
		for j := 0; j < n; j++ {
			seq = append(seq, pool[r.Intn(len(pool))])
		}
		seqs = append(seqs, seq) // events that are not enabled where they stand cut the sequence there
	}
	vs.Parallel(len(seqs), runtime.NumCPU(), func(i int) {
		s := vRunMSequence(k, seqs[i])
		res.Eval(1)
		res.Count("manager_sequences", 1)
		hasV := false
		for _, e := range seqs[i] {
			if e == mV2 || e == mV3 {
				hasV = true
			}
		}
		if hasV {
			res.Count("manager_sequences_with_update_and_submission", 1)
			res.Distinct(vMSeq(seqs[i]))
		}
		for _, sub := range s.run.Subs {
			if len(sub.Replies) > 0 && sub.Replies[0] == "nil" {
				res.Count("manager_accepted", 1)
			}
			if len(sub.Replies) > 0 && strings.Contains(sub.Replies[0], ErrManifestVersion.Error()) {
				res.Count("manager_rejected_wrong_version", 1)
			}
		}
		for _, v := range s.viol {
			switch v.Rule {
			case "accept-only-valid-manifest", "announce-only-validated-manifest":
				res.AddViolation("provider-"+v.Rule, "C10/provider-"+v.Rule+"/"+v.Trigger, v.Detail, s.run)
			}
		}
	})
	res.Extra("manager_stage", fmt.Sprintf("%d sequences with at least one submission", len(seqs)))
}
