//go:build verif
// +build verif

package manifest

// C20 — manifest submissions are answered exactly once; a manifest is
// announced only when complete.  DESIGN.md §5 C20 (engine E3): the real
// manifest.manager.run loop is stepped through its loop-top hook; the chain
// fetch is a scripted call; all enabled event sequences up to a bound are
// enumerated, each on a fresh manager.  Replies (reply channels of capacity
// 4, so that a second reply is observable) and the ManifestReceived events
// seen by an independent bus subscriber are judged against a small
// reference model of what was submitted, fetched, leased and in force.

import (
	"bytes"
	"encoding/hex"
	"errors"
	"fmt"
	"runtime"
	"sort"
	"strings"
	"sync"
	"sync/atomic"
	"testing"
	"time"

	lifecycle "github.com/boz/go-lifecycle"
	sdk "github.com/cosmos/cosmos-sdk/types"
	"github.com/tendermint/tendermint/libs/log"

	amanifest "github.com/ovrclk/akash/manifest"
	"github.com/ovrclk/akash/provider/event"
	"github.com/ovrclk/akash/pubsub"
	"github.com/ovrclk/akash/sdl"
	"github.com/ovrclk/akash/util/verifhook"
	vs "github.com/ovrclk/akash/verifsupport"
	"github.com/ovrclk/akash/verifsupport/venv"
	dtypes "github.com/ovrclk/akash/x/deployment/types"
	mtypes "github.com/ovrclk/akash/x/market/types"
	ptypes "github.com/ovrclk/akash/x/provider/types"
)

var vMgrRouter = &vs.HookRouter{}

const vSDLTemplate = `---
version: "2.0"
services:
  web:
    image: %s
    expose:
      - port: 80
        to:
          - global: true
        accept:
          - test.localhost
profiles:
  compute:
    web:
      resources:
        cpu:
          units: "%s"
        memory:
          size: "128Mi"
        storage:
          size: "512Mi"
  placement:
    global:
      pricing:
        web:
          denom: uakt
          amount: 30
deployment:
  web:
    global:
      profile: web
      count: 1
`

type vManifestKit struct {
	m      [4]amanifest.Manifest // index 1..3
	v      [4][]byte
	groups []dtypes.Group
	did    dtypes.DeploymentID
	owner  string
	prov   string
}

func vMakeKit() (*vManifestKit, error) { return vMakeKitFor(31, "") }

// vMakeKitFor builds the three manifests for one deployment; tag makes the
// images (hence the version hashes) differ between deployments.
func vMakeKitFor(dseq uint64, tag string) (*vManifestKit, error) {
	k := &vManifestKit{}
	k.owner = sdk.AccAddress([]byte("verif-tenant-0000000")).String()
	k.prov = sdk.AccAddress([]byte("verif-provider-00000")).String()
	k.did = dtypes.DeploymentID{Owner: k.owner, DSeq: dseq}
	specs := []struct{ img, cpu string }{{}, {"nginx:1" + tag, "100m"}, {"nginx:2" + tag, "100m"}, {"nginx:1" + tag, "200m"}}
	for i := 1; i <= 3; i++ {
		s, err := sdl.Read([]byte(fmt.Sprintf(vSDLTemplate, specs[i].img, specs[i].cpu)))
		if err != nil {
			return nil, err
		}
		k.m[i], err = s.Manifest()
		if err != nil {
			return nil, err
		}
		k.v[i], err = sdl.ManifestVersion(k.m[i])
		if err != nil {
			return nil, err
		}
		if i == 1 {
			gs, err := s.DeploymentGroups()
			if err != nil {
				return nil, err
			}
			for gi, g := range gs {
				k.groups = append(k.groups, dtypes.Group{GroupID: dtypes.GroupID{Owner: k.owner, DSeq: k.did.DSeq, GSeq: uint32(gi + 1)}, State: dtypes.GroupOpen, GroupSpec: *g})
			}
		}
	}
	return k, nil
}

func (k *vManifestKit) which(m *amanifest.Manifest) int {
	if m == nil {
		return 0
	}
	v, err := sdl.ManifestVersion(*m)
	if err != nil {
		return 0
	}
	for i := 1; i <= 3; i++ {
		if bytes.Equal(v, k.v[i]) {
			return i
		}
	}
	return 0
}

type vScriptedHostnames struct{}

func (vScriptedHostnames) ReserveHostnames(h []string, d dtypes.DeploymentID) <-chan error {
	ch := make(chan error, 1)
	ch <- nil
	return ch
}
func (vScriptedHostnames) ReleaseHostnames(h []string) {}
func (vScriptedHostnames) CanReserveHostnames(h []string, d dtypes.DeploymentID) <-chan error {
	ch := make(chan error, 1)
	ch <- nil
	return ch
}

// ---- events -----------------------------------------------------------------

type vMEvent string

const (
	mL  vMEvent = "L"  // lease won
	mR  vMEvent = "R"  // lease removed
	mM1 vMEvent = "M1" // submit m1 (version v1 = the on-chain version at fetch time)
	mM2 vMEvent = "M2" // submit m2 (same resources, other image: version v2)
	mM3 vMEvent = "M3" // submit m3 (other resources: fails cross-validation; version v3)
	mV2 vMEvent = "V2" // deployment updated: version := v2
	mV3 vMEvent = "V3" // deployment updated: version := v3
	mFp vMEvent = "F+" // chain fetch completes
	mFm vMEvent = "F-" // chain fetch fails
	mX  vMEvent = "X"  // deployment closed / shutdown -> stop()
)

type vSubmission struct {
	ID       int      `json:"id"`
	Man      int      `json:"manifest"`
	Step     int      `json:"step"`
	Replies  []string `json:"replies"`
	ch       chan error
	accepted bool
	// model: was it checked, and was it valid when checked
	Checked      bool `json:"checked"`
	ValidAtCheck bool `json:"valid_at_check"`
	CheckStep    int  `json:"check_step"`
}

type vAnnouncement struct {
	Step int `json:"step"`
	Man  int `json:"manifest"`
}

type vMRun struct {
	Seq    []vMEvent       `json:"seq"`
	Subs   []*vSubmission  `json:"submissions"`
	Ann    []vAnnouncement `json:"announcements"`
	Notes  []string        `json:"notes,omitempty"`
	Done   bool            `json:"manager_done"`
	Leases []int           `json:"leases_after_step"`
}

type vMState struct {
	k    *vManifestKit
	m    *manager
	g    *vs.Gates
	st   *vs.Stepper
	bus  pubsub.Bus
	obs  pubsub.Subscriber
	run  *vMRun
	done chan *manager
	// model
	leases  int
	fetched bool
	version int // manifest index whose hash is in force (after fetch / updates)
	updated int // last V before the fetch completed (0 = none)
	stopped bool
	step    int
	nLease  int
	valid   []int // submissions (ids) valid when answered, in that order
	viol    []vMViolation
	stepAnn []vStepAnn // announcements seen in the current step
}

type vMViolation struct{ Rule, Trigger, Detail string }

const vMTimeout = 20 * time.Second

// vMQuick is set while sequences are only being enumerated (nothing is
// judged) and once a violation has been recorded (the verdict is settled):
// waits for a manager to terminate are then kept short.
var vMQuick int32
var vMStaleSeen int32

func vMTermWait() time.Duration {
	if atomic.LoadInt32(&vMQuick) != 0 {
		return 150 * time.Millisecond
	}
	return 1500 * time.Millisecond
}

type vMarker struct{ n int }

type vStepAnn struct {
	a vAnnouncement
	e event.ManifestReceived
}

func vNewMState(k *vManifestKit) *vMState {
	g := vs.NewGates()
	s := &vMState{k: k, g: g, st: vs.NewStepper(), bus: pubsub.NewBus(), run: &vMRun{}, done: make(chan *manager, 1), version: 1}
	s.obs, _ = s.bus.Subscribe()
	sess := venv.NewSession(g, &ptypes.Provider{Owner: k.prov})
	m := &manager{
		daddr:           k.did,
		session:         sess,
		bus:             s.bus,
		leasech:         make(chan event.LeaseWon),
		rmleasech:       make(chan mtypes.LeaseID),
		manifestch:      make(chan manifestRequest),
		updatech:        make(chan []byte),
		log:             log.NewNopLogger(),
		lc:              lifecycle.New(),
		config:          ServiceConfig{},
		hostnameService: vScriptedHostnames{},
	}
	vs.InitNilMaps(m)
	s.m = m
	vMgrRouter.Register(m, s.st)
	go m.run(s.done)
	return s
}

func (s *vMState) note(f string, a ...interface{}) {
	s.run.Notes = append(s.run.Notes, fmt.Sprintf(f, a...))
}

func (s *vMState) isDone() bool {
	select {
	case <-s.m.lc.Done():
		return true
	default:
		return false
	}
}

func (s *vMState) bad(rule, trigger, detail string) {
	s.viol = append(s.viol, vMViolation{rule, trigger, fmt.Sprintf("sequence %s: %s", vMSeq(s.run.Seq), detail)})
}

func vMSeq(seq []vMEvent) string {
	var ss []string
	for _, e := range seq {
		ss = append(ss, string(e))
	}
	return "[" + strings.Join(ss, " ") + "]"
}

func (s *vMState) enabled() []vMEvent {
	if s.stopped || s.isDone() {
		return nil
	}
	ev := []vMEvent{mL, mM1, mM2, mM3, mV2, mV3, mX}
	if s.leases > 0 {
		ev = append(ev, mR)
	}
	if s.g.Pending(venv.KQueryDeployment) != nil {
		ev = append(ev, mFp, mFm)
	}
	return ev
}

// vMStuckSeen: a manager loop has been seen stuck for the full bound (a
// deadlock inside one iteration); from then on a stuck loop is given half a
// second only - the verdict exists, the remaining sequences add detail.
var vMStuckSeen int32

func (s *vMState) waitParked() string {
	bound := vMTimeout
	if atomic.LoadInt32(&vMStuckSeen) != 0 {
		bound = 500 * time.Millisecond
	}
	r := s.st.WaitParked(s.m.lc.ShuttingDown(), bound)
	if r == "timeout" {
		atomic.StoreInt32(&vMStuckSeen, 1)
	}
	return r
}

func (s *vMState) stepLoop() bool {
	s.st.Grant(1)
	if r := s.waitParked(); r == "timeout" {
		s.note("loop neither parked nor left")
		return false
	}
	// if the loop says a fetch is in flight, wait until its call registered
	last := s.st.LastArgs()
	if len(last) >= 2 {
		if inflight, _ := last[1].(bool); inflight {
			// (a started fetch goroutine reaches the chain client within
			// microseconds; a loop that reports a fetch which never arrives is a
			// stuck manager: noted, the wait is short from then on and the
			// consequences - unanswered submissions - are judged by finish())
			bound := 2 * time.Second
			if atomic.LoadInt32(&vMStaleSeen) != 0 {
				bound = 50 * time.Millisecond
			}
			dl := time.Now().Add(bound)
			for s.g.Pending(venv.KQueryDeployment) == nil {
				if !time.Now().Before(dl) {
					atomic.StoreInt32(&vMStaleSeen, 1)
					s.note("loop reports a fetch in flight, none reached the chain client")
					break
				}
				select {
				case <-s.m.lc.ShuttingDown():
					return true
				default:
				}
				runtime.Gosched()
				time.Sleep(20 * time.Microsecond)
			}
		}
	}
	return true
}

// collect drains the observer up to a marker published now: everything the
// manager published during the step precedes it.
func (s *vMState) collect() {
	mk := vMarker{s.step}
	if err := s.bus.Publish(mk); err != nil {
		return
	}
	dl := time.After(vMTimeout)
	for {
		select {
		case ev := <-s.obs.Events():
			switch e := ev.(type) {
			case vMarker:
				if e == mk {
					return
				}
			case event.ManifestReceived:
				a := vAnnouncement{Step: s.step, Man: s.k.which(e.Manifest)}
				s.run.Ann = append(s.run.Ann, a)
				s.stepAnn = append(s.stepAnn, vStepAnn{a, e})
			}
		case <-dl:
			s.note("observer did not see the marker")
			return
		}
	}
}

func (s *vMState) judgeAnnouncement(a vAnnouncement, e event.ManifestReceived) {
	trig := string(s.run.Seq[len(s.run.Seq)-1])
	if s.leases < 1 {
		s.bad("announce-only-with-a-lease", trig, fmt.Sprintf("manifest m%d announced at step %d while no lease is held", a.Man, a.Step))
	}
	if !s.fetched {
		s.bad("announce-only-after-chain-data", trig, fmt.Sprintf("manifest m%d announced at step %d before the deployment's chain data was fetched", a.Man, a.Step))
	}
	if e.Deployment == nil && s.fetched {
		s.bad("announcement-carries-chain-data", trig, "ManifestReceived without deployment data")
	}
	if len(s.valid) == 0 {
		s.bad("announce-only-validated-manifest", trig, fmt.Sprintf("manifest m%d announced at step %d but no submitted manifest has passed validation", a.Man, a.Step))
		return
	}
	latest := s.run.Subs[s.valid[len(s.valid)-1]]
	if a.Man != latest.Man {
		ok := false
		for _, id := range s.valid {
			if s.run.Subs[id].Man == a.Man {
				ok = true
			}
		}
		if !ok {
			s.bad("announce-only-validated-manifest", trig, fmt.Sprintf("manifest m%d announced at step %d; validated so far: %v", a.Man, a.Step, s.validMen()))
		} else {
			s.bad("announce-latest-validated-manifest", trig, fmt.Sprintf("manifest m%d announced at step %d, the latest validated manifest is m%d", a.Man, a.Step, latest.Man))
		}
	}
}

func (s *vMState) validMen() []int {
	var out []int
	for _, id := range s.valid {
		out = append(out, s.run.Subs[id].Man)
	}
	return out
}

// check marks the submissions that the manager can judge now (chain data
// present) in the model.
func (s *vMState) modelCheck() {}

// modelReplies judges the submissions that received their first reply in
// this step.  A manifest is valid when it is answered - whenever the manager
// chose to look at it - iff it hashes to the version in force at that moment
// and matches the on-chain groups; whatever was validated then (accepted, or
// refused only for want of a lease) may be announced from now on.
func (s *vMState) modelReplies() {
	for _, sub := range s.run.Subs {
		if sub.Checked || len(sub.Replies) == 0 {
			continue
		}
		sub.Checked = true
		sub.CheckStep = s.step
		sub.ValidAtCheck = s.fetched && sub.Man == s.version && sub.Man != 3
		if sub.ValidAtCheck {
			s.valid = append(s.valid, sub.ID)
		}
	}
}

func (s *vMState) drainReplies() {
	for _, sub := range s.run.Subs {
		for {
			select {
			case err := <-sub.ch:
				r := "nil"
				if err != nil {
					r = err.Error()
				}
				sub.Replies = append(sub.Replies, r)
				continue
			default:
			}
			break
		}
	}
}

var errScriptedFetch = errors.New("scripted fetch failure")

func (s *vMState) apply(ev vMEvent) bool {
	s.run.Seq = append(s.run.Seq, ev)
	s.step++
	handoff := func(f func()) bool {
		done := make(chan struct{})
		go func() { f(); close(done) }()
		if !s.stepLoop() {
			return false
		}
		select {
		case <-done:
			return true
		case <-time.After(vMTimeout):
			s.note("%s: hand-off did not return", ev)
			return false
		}
	}
	ok := true
	switch ev {
	case mL:
		s.nLease++
		lid := mtypes.LeaseID{Owner: s.k.owner, DSeq: s.k.did.DSeq, GSeq: 1, OSeq: uint32(s.nLease), Provider: s.k.prov}
		grp := s.k.groups[0]
		s.leases++ // model first: announcements made while handling L see the lease
		ok = handoff(func() {
			s.m.handleLease(event.LeaseWon{LeaseID: lid, Group: &grp, Price: sdk.NewInt64Coin("uakt", 30)})
		})
	case mR:
		lid := mtypes.LeaseID{Owner: s.k.owner, DSeq: s.k.did.DSeq, GSeq: 1, OSeq: uint32(s.nLease - s.leases + 1), Provider: s.k.prov}
		ok = handoff(func() { s.m.removeLease(lid) })
		s.leases--
	case mM1, mM2, mM3:
		idx := map[vMEvent]int{mM1: 1, mM2: 2, mM3: 3}[ev]
		sub := &vSubmission{ID: len(s.run.Subs), Man: idx, Step: s.step, ch: make(chan error, 4)}
		s.run.Subs = append(s.run.Subs, sub)
		man := s.k.m[idx]
		req := manifestRequest{value: &submitRequest{Deployment: s.k.did, Manifest: man}, ch: sub.ch, ctx: nil}
		s.modelCheck()
		ok = handoff(func() { s.m.handleManifest(req) })
	case mV2, mV3:
		idx := 2
		if ev == mV3 {
			idx = 3
		}
		s.version = idx
		ok = handoff(func() { s.m.handleUpdate(s.k.v[idx]) })
	case mFp, mFm:
		c := s.g.Pending(venv.KQueryDeployment)
		if ev == mFp {
			s.fetched = true
			s.modelCheck()
			resp := &dtypes.QueryDeploymentResponse{
				Deployment: dtypes.Deployment{DeploymentID: s.k.did, State: dtypes.DeploymentActive, Version: append([]byte(nil), s.k.v[1]...)},
				Groups:     s.k.groups,
			}
			s.g.Release(c, resp, nil)
		} else {
			s.g.Release(c, nil, errScriptedFetch)
		}
		s.g.WaitEnded(c, vMTimeout)
		ok = s.stepLoop()
	case mX:
		s.stopped = true
		go s.m.stop()
		s.st.Grant(1)
		// the stop request is the loop's only ready input; once the loop has
		// left, a fetch still in flight is allowed to return
		select {
		case <-s.m.lc.ShuttingDown():
		case <-time.After(vMTimeout):
			s.note("X: the loop did not take the stop request")
		}
		// termination itself is not part of C20's statement: give it a moment
		// and go on (a manager that cannot terminate is noted, not alarmed)
		dl := time.Now().Add(vMTermWait())
		for !s.isDone() && time.Now().Before(dl) {
			s.g.ReleaseAll(func(c *vs.GateCall) (interface{}, error) { return nil, errScriptedFetch })
			time.Sleep(50 * time.Microsecond)
		}
		if !s.isDone() {
			s.note("manager did not terminate after stop()")
		}
	}
	s.stepAnn = s.stepAnn[:0]
	s.collect()
	s.drainReplies()
	s.modelReplies()
	for _, x := range s.stepAnn {
		s.judgeAnnouncement(x.a, x.e)
	}
	s.run.Leases = append(s.run.Leases, s.leases)
	// a nil reply implies an announcement of a manifest with the same hash in this step
	for _, sub := range s.run.Subs {
		if len(sub.Replies) > 0 && sub.Replies[0] == "nil" && !sub.accepted {
			sub.accepted = true
			found := false
			for _, a := range s.run.Ann {
				if a.Step == s.step && a.Man == sub.Man {
					found = true
				}
			}
			if !found {
				s.bad("acceptance-implies-announcement", string(ev), fmt.Sprintf("submission #%d (m%d) was accepted at step %d but no manifest with its hash was announced then", sub.ID, sub.Man, s.step))
			}
			if !sub.ValidAtCheck {
				s.bad("accept-only-valid-manifest", string(ev), fmt.Sprintf("submission #%d (m%d) was accepted although it was not valid for the version in force (m%d) / the on-chain groups", sub.ID, sub.Man, s.version))
			}
		}
	}
	return ok
}

// finish: nothing more is injected; a pending fetch completes; then every
// submission must have exactly one reply.
func (s *vMState) finish() {
	if !s.stopped && !s.isDone() {
		if s.g.Pending(venv.KQueryDeployment) != nil {
			s.apply(mFp)
			s.run.Seq[len(s.run.Seq)-1] = "(F+)"
		}
	}
	s.drainReplies()
	trig := "end"
	if len(s.run.Seq) > 0 {
		trig = vMTrigger(s.run.Seq)
	}
	for _, sub := range s.run.Subs {
		switch {
		case len(sub.Replies) == 0:
			// legitimately outstanding only while it waits for a lease-independent condition:
			// data fetched and checked => must have been answered; not fetched and no fetch in flight => hang
			inflight := s.g.Pending(venv.KQueryDeployment) != nil
			if !inflight {
				s.bad("every-submission-answered", trig, fmt.Sprintf("submission #%d (m%d, step %d) has no reply although the manager is idle, no fetch is in flight and nothing is queued", sub.ID, sub.Man, sub.Step))
			}
		case len(sub.Replies) > 1:
			s.bad("submission-answered-once", trig, fmt.Sprintf("submission #%d (m%d) received %d replies: %v", sub.ID, sub.Man, len(sub.Replies), sub.Replies))
		}
	}
}

func vMTrigger(seq []vMEvent) string {
	// kind of schedule: the distinct events in order of first appearance (max 4)
	var parts []string
	seen := map[string]bool{}
	for _, e := range seq {
		k := strings.Trim(string(e), "()")
		if !seen[k] {
			seen[k] = true
			parts = append(parts, k)
		}
		if len(parts) >= 4 {
			break
		}
	}
	return strings.Join(parts, ",")
}

func (s *vMState) cleanup() {
	if !s.isDone() {
		s.st.Free()
		go s.m.stop()
		dl := time.Now().Add(vMTermWait())
		for !s.isDone() && time.Now().Before(dl) {
			s.g.ReleaseAll(func(c *vs.GateCall) (interface{}, error) { return nil, errScriptedFetch })
			time.Sleep(100 * time.Microsecond)
		}
	}
	s.run.Done = s.isDone()
	vMgrRouter.Unregister(s.m)
	s.obs.Close()
	s.bus.Close()
}

func vRunMSequence(k *vManifestKit, seq []vMEvent) *vMState {
	s := vNewMState(k)
	if r := s.waitParked(); r == "timeout" {
		s.note("manager did not reach its loop")
	}
	for _, e := range seq {
		if strings.HasPrefix(string(e), "(") {
			continue
		}
		en := false
		for _, x := range s.enabled() {
			if x == e {
				en = true
			}
		}
		if !en {
			s.note("event %s not enabled; sequence cut", e)
			break
		}
		if !s.apply(e) {
			break
		}
	}
	s.finish()
	s.cleanup()
	return s
}

func vEnumerateM(k *vManifestKit, maxLen int, visit func(seq []vMEvent)) {
	atomic.StoreInt32(&vMQuick, 1)
	defer atomic.StoreInt32(&vMQuick, 0)
	// the subtrees below the first two levels are explored concurrently (each
	// prefix runs on its own manager); visit is serialized and the caller
	// sorts what it collected
	var mu sync.Mutex
	var wg sync.WaitGroup
	sem := make(chan struct{}, runtime.NumCPU())
	var rec func(prefix []vMEvent)
	rec = func(prefix []vMEvent) {
		s := vNewMState(k)
		s.waitParked()
		alive := true
		for _, e := range prefix {
			if !s.apply(e) {
				alive = false
				break
			}
		}
		var en []vMEvent
		if alive {
			en = s.enabled()
		}
		s.cleanup()
		if len(prefix) > 0 {
			mu.Lock()
			visit(prefix)
			mu.Unlock()
		}
		if len(prefix) >= maxLen {
			return
		}
		for _, e := range en {
			next := append(append([]vMEvent(nil), prefix...), e)
			if len(prefix) < 2 {
				wg.Add(1)
				go func() {
					defer wg.Done()
					sem <- struct{}{}
					defer func() { <-sem }()
					rec(next)
				}()
			} else {
				rec(next)
			}
		}
	}
	rec(nil)
	wg.Wait()
}

func vSortSeqs(seqs [][]vMEvent) {
	sort.Slice(seqs, func(i, j int) bool {
		if len(seqs[i]) != len(seqs[j]) {
			return len(seqs[i]) < len(seqs[j])
		}
		return vMSeq(seqs[i]) < vMSeq(seqs[j])
	})
}

// vMDirectedVersionSeqs: version updates on both sides of the chain fetch,
// then a submission (longer than the enumeration bound of the quick tier).
func vMDirectedVersionSeqs() [][]vMEvent {
	var seqs [][]vMEvent
	for _, a := range []vMEvent{mV2, mV3} {
		for _, b := range []vMEvent{mV2, mV3} {
			for _, sub := range []vMEvent{mM1, mM2, mM3} {
				seqs = append(seqs,
					[]vMEvent{a, mL, mFp, b, sub},
					[]vMEvent{mL, a, mFp, b, sub},
					[]vMEvent{mL, a, mFm, mL, mFp, b, sub},
					[]vMEvent{mL, mM1, a, mFp, b, sub},
					[]vMEvent{a, b, mL, mFp, sub},
					[]vMEvent{mL, mFp, a, b, sub},
					[]vMEvent{mL, mFp, a, sub, b, sub},
				)
			}
		}
	}
	return seqs
}

func vMgrHook(point string, args ...interface{}) {
	if point == "manifest.mgr.loop" {
		vMgrRouter.Handler("manifest.mgr.loop")(point, args...)
	}
}

func TestVerif_C20(t *testing.T) {
	res := vs.NewResult("C20", "exploration",
		"all enabled sequences over {lease won, lease removed, submit m1 (matches the on-chain version) / m2 (other version) / m3 (other version and resources), version update to v2 / v3, chain fetch ok / error, deployment closed} up to a length bound, each on a fresh real manifest.manager stepped through its loop-top hook with a scripted chain fetch; replies are collected on channels of capacity 4, ManifestReceived events by an independent bus subscriber (flushed with a marker after every step), and judged against a reference model: exactly one reply per submission, no outstanding submission when idle, announce only with a lease, after the fetch, a validated manifest, the latest one; acceptance implies an announcement of that hash. distinct = event sequences")
	res.Assume("the scripted chain query client and hostname service are the environment; manifests are derived from SDL documents by the repository's own sdl package")
	if vs.ReplayFile() == "" && vs.Stage() != "service" {
		for _, f := range []string{"sequences", "submissions", "accepted", "rejected_wrong_version", "rejected_invalid", "rejected_no_lease", "rejected_fetch_error", "rejected_not_running", "announcements", "seq_with_version_update", "seq_with_lease_removed"} {
			res.Floor(f, 1)
		}
	}
	defer func() {
		if err := res.Write(); err != nil {
			t.Fatalf("cannot write result: %v", err)
		}
		if n := res.Violations(); n > 0 {
			t.Errorf("%d violation(s) recorded", n)
		}
	}()
	k, err := vMakeKit()
	if err != nil {
		res.Inconclusive("cannot build manifests from the SDL template: " + err.Error())
		return
	}
	verifhook.Set(vMgrHook)
	defer verifhook.Set(nil)

	judge := func(seq []vMEvent) {
		s := vRunMSequence(k, seq)
		res.Eval(1)
		res.Count("sequences", 1)
		res.Distinct(vMSeq(seq))
		for _, v := range s.viol {
			res.AddViolation(v.Rule, "C20/"+v.Rule+"/"+v.Trigger, v.Detail, s.run)
			atomic.StoreInt32(&vMQuick, 1)
		}
		res.Count("announcements", len(s.run.Ann))
		for _, sub := range s.run.Subs {
			res.Count("submissions", 1)
			if len(sub.Replies) == 0 {
				continue
			}
			r := sub.Replies[0]
			switch {
			case r == "nil":
				res.Count("accepted", 1)
			case strings.Contains(r, ErrManifestVersion.Error()):
				res.Count("rejected_wrong_version", 1)
			case strings.Contains(r, ErrNoLeaseForDeployment.Error()):
				res.Count("rejected_no_lease", 1)
			case strings.Contains(r, errScriptedFetch.Error()):
				res.Count("rejected_fetch_error", 1)
			case strings.Contains(r, ErrNotRunning.Error()):
				res.Count("rejected_not_running", 1)
			default:
				res.Count("rejected_invalid", 1)
			}
		}
		for _, e := range seq {
			if e == mV2 || e == mV3 {
				res.Count("seq_with_version_update", 1)
				break
			}
		}
		for _, e := range seq {
			if e == mR {
				res.Count("seq_with_lease_removed", 1)
				break
			}
		}
		if res.WantSample() && len(s.run.Ann) > 0 && len(seq) >= 4 {
			res.Sample(s.run)
		}
	}
	if rp := vs.ReplayFile(); rp != "" {
		var r vMRun
		if err := vs.LoadReplay(rp, &r); err != nil {
			t.Fatalf("replay: %v", err)
		}
		judge(r.Seq)
		return
	}
	if vs.Stage() == "service" {
		vManifestServiceStage(res)
		return
	}
	if vs.Stage() == "race" {
		// the same enumeration, shallower, under the race detector
		var seqs [][]vMEvent
		vEnumerateM(k, 3, func(seq []vMEvent) { seqs = append(seqs, append([]vMEvent(nil), seq...)) })
		vSortSeqs(seqs)
		vs.Parallel(len(seqs), runtime.NumCPU(), func(i int) { judge(seqs[i]) })
		return
	}
	maxLen := vs.Scale(4, 5)
	var seqs [][]vMEvent
	vEnumerateM(k, maxLen, func(seq []vMEvent) { seqs = append(seqs, append([]vMEvent(nil), seq...)) })
	vSortSeqs(seqs)
	res.Extra("enumeration", fmt.Sprintf("all enabled sequences of length 1..%d over 10 events: %d (complete)", maxLen, len(seqs)))
	seqs = append(seqs, vMDirectedVersionSeqs()...)
	vs.Parallel(len(seqs), runtime.NumCPU(), func(i int) { judge(seqs[i]) })
	// longer random sequences
	seed := vs.Seed()
	nr := vs.Scale(600, 20000)
	vs.Parallel(nr, runtime.NumCPU(), func(i int) {
		r := vs.NewRand(seed, uint64(i)+0xC20)
		n := r.Range(6, 10)
		// choose events by replaying enabledness on the fly
		s := vNewMState(k)
		s.waitParked()
		for j := 0; j < n; j++ {
			en := s.enabled()
			if len(en) == 0 {
				break
			}
			e := en[r.Intn(len(en))]
			if e == mX && r.Chance(2, 3) {
				continue
			}
			if !s.apply(e) {
				break
			}
		}
		s.finish()
		s.cleanup()
		res.Eval(1)
		res.Count("random_sequences", 1)
		res.Distinct(vMSeq(s.run.Seq))
		for _, v := range s.viol {
			res.AddViolation(v.Rule, "C20/"+v.Rule+"/"+v.Trigger, v.Detail, s.run)
		}
	})
	_ = hex.EncodeToString
}
