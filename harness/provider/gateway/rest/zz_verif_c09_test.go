//go:build verif
// +build verif

package rest

// C09 — the gateway authenticates only holders of on-chain certificates and
// scopes every lease/deployment request to the authenticated tenant at this
// provider.  DESIGN.md §5 C09.
//
// The oracle is a reference model of the registry (what the harness itself
// registered / revoked through the keeper) plus byte comparison of the
// presented chain; it never calls gateway code.

import (
	"bytes"
	"crypto/ecdsa"
	"crypto/tls"
	"crypto/x509"
	"crypto/x509/pkix"
	"encoding/pem"
	"fmt"
	"math/big"
	"net/url"
	"path"
	"sort"
	"strings"
	"sync"
	"sync/atomic"
	"testing"
	"time"

	"github.com/cosmos/cosmos-sdk/types/bech32"

	"github.com/ovrclk/akash/testutil"
	vs "github.com/ovrclk/akash/verifsupport"
)

const (
	vC09RuleAuth  = "authenticated-only-with-onchain-certificate"
	vC09RuleScope = "request-scoped-to-authenticated-tenant"
)

// ---------------------------------------------------------------------------
// credentials (what a client presents in the handshake)

type vC09Cred struct {
	Class string
	Chain [][]byte
	Key   *ecdsa.PrivateKey
	// Victim is the account the credential tries to act as (or is); Other
	// is a different registered account (used by hostile parameters).
	Victim string
	Other  string
	Note   string
}

var vC09Classes = []string{
	"genuine",
	"forged-copied-cn-serial",
	"forged-revoked-serial",
	"forged-uppercase-cn",
	"genuine-revoked",
	"unknown-serial",
	"expired-registered",
	"forged-expired",
	"not-yet-valid-registered",
	"forged-not-yet-valid",
	"serverauth-only-registered",
	"forged-serverauth-only",
	"chain-genuine-leaf-plus-extra",
	"chain-forged-leaf-plus-genuine",
	"cn-not-bech32",
	"cn-empty",
	"issuer-cn-differs",
	"x-as-ca-leaf",
	"x-as-ca-leaf-ca-registered",
	"other-account-genuine",
	"genuine-two-common-names",
	"genuine-cert-without-its-key",
	"no-certificate",
}

func vC09MakeCred(reg *vC09Registry, class string, r *vs.Rand) (vC09Cred, error) {
	ai := r.Intn(len(reg.Accts))
	x := reg.Accts[ai]
	y := reg.Accts[(ai+1+r.Intn(len(reg.Accts)-1))%len(reg.Accts)]
	c := vC09Cred{Class: class, Victim: x.Bech, Other: y.Bech}
	fresh := vC09Key(r)
	valid := x.Certs["valid"]
	if r.Chance(1, 4) {
		valid = x.Certs["valid2"]
	}
	copyOf := func(cc *vC09ChainCert) vC09Spec {
		return vC09Spec{CN: cc.Owner, Serial: cc.Serial, Window: cc.Window, Server: !cc.ClientAuth}
	}
	var err error
	var der []byte
	switch class {
	case "genuine", "other-account-genuine":
		c.Chain, c.Key = [][]byte{valid.DER}, valid.Key
		c.Note = valid.Kind
	case "forged-copied-cn-serial":
		der, err = vC09SelfSigned(copyOf(valid), fresh)
		c.Chain, c.Key = [][]byte{der}, fresh
	case "forged-uppercase-cn":
		// bech32 is case-insensitive as a whole: the upper-case spelling names the same account
		spec := copyOf(valid)
		spec.CN = strings.ToUpper(spec.CN)
		der, err = vC09SelfSigned(spec, fresh)
		c.Chain, c.Key = [][]byte{der}, fresh
	case "forged-revoked-serial":
		der, err = vC09SelfSigned(copyOf(x.Certs["revoked"]), fresh)
		c.Chain, c.Key = [][]byte{der}, fresh
	case "genuine-revoked":
		c.Chain, c.Key = [][]byte{x.Certs["revoked"].DER}, x.Certs["revoked"].Key
	case "unknown-serial":
		spec := vC09Spec{CN: x.Bech, Serial: new(big.Int).SetUint64(r.Uint64()>>3 | 1), Window: "current"}
		k := fresh
		if r.Bool() {
			k = x.Key // X's real key, but a certificate that was never published
			c.Note = "real-key"
		}
		der, err = vC09SelfSigned(spec, k)
		c.Chain, c.Key = [][]byte{der}, k
	case "expired-registered":
		c.Chain, c.Key = [][]byte{x.Certs["expired"].DER}, x.Certs["expired"].Key
	case "forged-expired":
		spec := copyOf(valid)
		spec.Window = "expired"
		if r.Bool() {
			spec = copyOf(x.Certs["expired"])
			c.Note = "copies-expired-registered"
		}
		der, err = vC09SelfSigned(spec, fresh)
		c.Chain, c.Key = [][]byte{der}, fresh
	case "not-yet-valid-registered":
		c.Chain, c.Key = [][]byte{x.Certs["future"].DER}, x.Certs["future"].Key
	case "forged-not-yet-valid":
		spec := copyOf(valid)
		spec.Window = "future"
		der, err = vC09SelfSigned(spec, fresh)
		c.Chain, c.Key = [][]byte{der}, fresh
	case "serverauth-only-registered":
		c.Chain, c.Key = [][]byte{x.Certs["serverauth"].DER}, x.Certs["serverauth"].Key
	case "forged-serverauth-only":
		spec := copyOf(valid)
		spec.Server = true
		der, err = vC09SelfSigned(spec, fresh)
		c.Chain, c.Key = [][]byte{der}, fresh
	case "chain-genuine-leaf-plus-extra":
		extra := y.Certs["valid"].DER
		if r.Bool() {
			extra, err = vC09SelfSigned(vC09Spec{CN: "intermediate", Serial: big.NewInt(int64(r.Range(2, 1<<30))), Window: "current", IsCA: true}, fresh)
			c.Note = "extra-selfsigned-ca"
		}
		c.Chain, c.Key = [][]byte{valid.DER, extra}, valid.Key
	case "chain-forged-leaf-plus-genuine":
		der, err = vC09SelfSigned(copyOf(valid), fresh)
		c.Chain, c.Key = [][]byte{der, valid.DER}, fresh
	case "cn-not-bech32":
		cn := "not-a-bech32-address"
		switch r.Intn(4) {
		case 0, 1:
			b := []byte(x.Bech) // break the checksum
			if b[len(b)-1] == 'q' {
				b[len(b)-1] = 'p'
			} else {
				b[len(b)-1] = 'q'
			}
			cn = string(b)
			c.Note = "bad-checksum"
		case 2:
			if s, e := bech32.ConvertAndEncode("other", x.Addr.Bytes()); e == nil {
				cn = s
			}
			c.Note = "foreign-prefix"
		case 3:
			cn = x.Bech + " "
			c.Note = "trailing-space"
		}
		der, err = vC09SelfSigned(vC09Spec{CN: cn, Serial: valid.Serial, Window: "current"}, fresh)
		c.Chain, c.Key = [][]byte{der}, fresh
	case "cn-empty":
		der, err = vC09SelfSigned(vC09Spec{CN: "", Serial: valid.Serial, Window: "current", NoExtras: r.Bool()}, fresh)
		c.Chain, c.Key = [][]byte{der}, fresh
	case "issuer-cn-differs":
		issuer := y.Bech
		if r.Bool() {
			issuer = "akash-root-ca"
		}
		parent := &x509.Certificate{Subject: pkix.Name{CommonName: issuer}}
		spec := copyOf(valid)
		if r.Chance(1, 3) {
			spec.Serial = new(big.Int).SetUint64(r.Uint64()>>3 | 1)
			c.Note = "unknown-serial"
		}
		der, err = vC09SignedBy(spec, &fresh.PublicKey, parent, fresh)
		c.Chain, c.Key = [][]byte{der}, fresh
	case "x-as-ca-leaf":
		// leaf for CN = X issued by X's registered (non-CA) certificate
		par := x.Certs["valid"]
		der, err = vC09SignedBy(copyOf(par), &fresh.PublicKey, par.Parsed, par.Key)
		c.Chain, c.Key = [][]byte{der}, fresh
	case "x-as-ca-leaf-ca-registered":
		par := x.Certs["ca"]
		der, err = vC09SignedBy(vC09Spec{CN: x.Bech, Serial: par.Serial, Window: "current"}, &fresh.PublicKey, par.Parsed, par.Key)
		c.Chain, c.Key = [][]byte{der}, fresh
	case "genuine-two-common-names":
		// X's own, published, valid certificate whose subject has a first
		// commonName naming another account and X's address last
		tc := x.Certs["twocn"]
		c.Chain, c.Key = [][]byte{tc.DER}, tc.Key
		if p, e := x509.ParseCertificate(tc.DER); e == nil && p.Subject.CommonName != x.Bech {
			err = fmt.Errorf("harness: the two-CN certificate parses with CN %q", p.Subject.CommonName)
		}
	case "genuine-cert-without-its-key":
		c.Chain, c.Key = [][]byte{valid.DER}, fresh
	case "no-certificate":
		c.Victim = ""
	default:
		return c, fmt.Errorf("unknown class %q", class)
	}
	return c, err
}

// vC09Account maps a CN to the account it names: a bech32 string written
// entirely in upper case is the same address as its lower-case spelling.
func vC09Account(cn string) string {
	if cn != "" && cn == strings.ToUpper(cn) {
		return strings.ToLower(cn)
	}
	return cn
}

// vC09AuthOK is the reference predicate of the property: the presented chain
// is exactly one certificate, DER-identical to a certificate its CN's account
// has on chain in state valid, inside its validity window, with clientAuth
// usage, and the client holds its private key.  It returns the CN as well.
func vC09AuthOK(reg *vC09Registry, chain [][]byte, key *ecdsa.PrivateKey) (cn string, ok bool, why string) {
	if len(chain) == 0 {
		return "", false, "no certificate presented"
	}
	leaf, err := x509.ParseCertificate(chain[0])
	if err != nil {
		return "", false, "leaf does not parse"
	}
	cn = leaf.Subject.CommonName
	if len(chain) != 1 {
		return cn, false, fmt.Sprintf("%d certificates presented; on-chain credentials are single certificates", len(chain))
	}
	pub, isEC := leaf.PublicKey.(*ecdsa.PublicKey)
	if key == nil || !isEC || pub.X.Cmp(key.PublicKey.X) != 0 || pub.Y.Cmp(key.PublicKey.Y) != 0 {
		return cn, false, "client does not hold the certificate's private key"
	}
	found := false
	for _, cc := range reg.model[vC09Account(cn)] {
		if !bytes.Equal(cc.DER, chain[0]) {
			continue
		}
		found = true
		switch {
		case cc.Revoked:
			why = "certificate is revoked on chain"
		case cc.Window != "current":
			why = "certificate is outside its validity window (" + cc.Window + ")"
		case !cc.ClientAuth:
			why = "certificate has no clientAuth usage"
		default:
			return cn, true, ""
		}
	}
	if !found {
		why = fmt.Sprintf("presented certificate is not DER-identical to any certificate account %q has on chain", cn)
	}
	return cn, false, why
}

// ---------------------------------------------------------------------------
// routes (transcribed from router.go)

type vC09Route struct {
	Name   string
	Kind   string // public | deployment | lease
	Method string
	Tail   string
	Query  []string
	Body   string
	WS     bool
	Stub   bool // a recording stub is reached when the request is served
}

var vC09ShellQ = []string{"cmd0=ls", "tty=0", "service=web", "stdin=0", "podIndex=0"}

var vC09Routes = []vC09Route{
	{Name: "status", Kind: "public", Method: "GET", Tail: "/status"},
	{Name: "validate", Kind: "public", Method: "GET", Tail: "/validate", Body: "{}"},
	{Name: "manifest-put", Kind: "deployment", Method: "PUT", Tail: "/manifest", Body: "[]", Stub: true},
	{Name: "manifest-put-badjson", Kind: "deployment", Method: "PUT", Tail: "/manifest", Body: "{"},
	{Name: "lease-status", Kind: "lease", Method: "GET", Tail: "/status", Stub: true},
	{Name: "service-status", Kind: "lease", Method: "GET", Tail: "/service/web/status", Stub: true},
	{Name: "kubeevents-ws", Kind: "lease", Method: "GET", Tail: "/kubeevents", Query: []string{"follow=false"}, WS: true, Stub: true},
	{Name: "kubeevents-plain", Kind: "lease", Method: "GET", Tail: "/kubeevents"},
	{Name: "logs-ws", Kind: "lease", Method: "GET", Tail: "/logs", Query: []string{"tail=10", "service=web"}, WS: true, Stub: true},
	{Name: "logs-plain", Kind: "lease", Method: "GET", Tail: "/logs"},
	{Name: "shell-ws", Kind: "lease", Method: "GET", Tail: "/shell", Query: vC09ShellQ, WS: true, Stub: true},
	{Name: "shell-post", Kind: "lease", Method: "POST", Tail: "/shell", Query: vC09ShellQ, Stub: true},
}

type vC09Target struct {
	Abs     string // scheme://authority prefix (absolute-form request target)
	Prefix  string
	Segs    []string
	Tail    string
	Query   []string
	Headers [][2]string
	Method  string
	Body    string
	WS      bool
}

func vC09BaseTarget(rt vC09Route, d uint64, g, o uint32) *vC09Target {
	t := &vC09Target{Tail: rt.Tail, Method: rt.Method, Body: rt.Body, WS: rt.WS}
	t.Query = append(t.Query, rt.Query...)
	switch rt.Kind {
	case "deployment":
		t.Prefix = "/deployment"
		t.Segs = []string{fmt.Sprint(d)}
	case "lease":
		t.Prefix = "/lease"
		t.Segs = []string{fmt.Sprint(d), fmt.Sprint(g), fmt.Sprint(o)}
	}
	return t
}

func (t *vC09Target) Req() vC09Req {
	s := t.Abs + t.Prefix
	if len(t.Segs) > 0 {
		s += "/" + strings.Join(t.Segs, "/")
	}
	s += t.Tail
	if len(t.Query) > 0 {
		s += "?" + strings.Join(t.Query, "&")
	}
	return vC09Req{Method: t.Method, Target: s, Headers: t.Headers, Body: t.Body, WS: t.WS}
}

// vC09OwnerScopedTarget: does the request target, once decoded and cleaned,
// address the lease or deployment subtree (every route there is owner-scoped)?
func vC09OwnerScopedTarget(target string) bool {
	p := target
	if i := strings.Index(p, "://"); i >= 0 && !strings.HasPrefix(p, "/") {
		p = p[i+3:]
		if j := strings.Index(p, "/"); j >= 0 {
			p = p[j:]
		} else {
			p = "/"
		}
	}
	if i := strings.IndexAny(p, "?#"); i >= 0 {
		p = p[:i]
	}
	if u, err := url.PathUnescape(p); err == nil {
		p = u
	}
	p = path.Clean("/" + p)
	return strings.HasPrefix(p, "/lease/") || strings.HasPrefix(p, "/deployment/") || p == "/lease" || p == "/deployment"
}

// ---------------------------------------------------------------------------
// hostile path / parameter variants

type vC09HCtx struct {
	Self, Other, P, OtherP string
}

type vC09Variant struct {
	Name  string
	Apply func(t *vC09Target, x vC09HCtx) bool // false: not applicable to this route
}

func vC09Variants() []vC09Variant {
	var vv []vC09Variant
	add := func(name string, f func(t *vC09Target, x vC09HCtx) bool) {
		vv = append(vv, vC09Variant{name, f})
	}
	seg := func(name string, idx int, val func(x vC09HCtx) string) {
		add(name, func(t *vC09Target, x vC09HCtx) bool {
			if idx >= len(t.Segs) {
				return false
			}
			t.Segs[idx] = val(x)
			return true
		})
	}
	lit := func(s string) func(vC09HCtx) string { return func(vC09HCtx) string { return s } }
	// dseq
	seg("dseq-2^64", 0, lit("18446744073709551616"))
	seg("dseq-2^64+7", 0, lit("18446744073709551623"))
	seg("dseq-2^128", 0, lit("340282366920938463463374607431768211456"))
	seg("dseq-max-uint64", 0, lit("18446744073709551615"))
	seg("dseq-negative", 0, lit("-1"))
	seg("dseq-plus-sign", 0, lit("+5"))
	seg("dseq-zero", 0, lit("0"))
	seg("dseq-leading-zeros", 0, lit("000000000000000000000000000000007"))
	seg("dseq-hex", 0, lit("0x10"))
	seg("dseq-exponent", 0, lit("1e3"))
	seg("dseq-float", 0, lit("1.0"))
	seg("dseq-underscore", 0, lit("1_000"))
	seg("dseq-encoded-space", 0, lit("%201"))
	seg("dseq-encoded-digit", 0, lit("%31%32"))
	seg("dseq-empty", 0, lit(""))
	seg("dseq-dot", 0, lit("."))
	seg("dseq-dotdot", 0, lit(".."))
	seg("dseq-encoded-slash", 0, lit("1%2F2"))
	seg("dseq-encoded-nul", 0, lit("1%00"))
	seg("dseq-unicode-digits", 0, lit("\xef\xbc\x91\xef\xbc\x92")) // fullwidth 12
	seg("dseq-is-other-owner", 0, func(x vC09HCtx) string { return x.Other })
	seg("dseq-matrix-param-owner", 0, func(x vC09HCtx) string { return "1;owner=" + x.Other })
	seg("dseq-comma-list", 0, lit("1,2"))
	seg("dseq-owner-slash-encoded", 0, func(x vC09HCtx) string { return x.Other + "%2F1" })
	seg("dseq-10k-digits", 0, lit(strings.Repeat("9", 10000)))
	// gseq / oseq
	seg("gseq-2^32", 1, lit("4294967296"))
	seg("gseq-2^64", 1, lit("18446744073709551616"))
	seg("gseq-negative", 1, lit("-1"))
	seg("gseq-empty", 1, lit(""))
	seg("oseq-2^32", 2, lit("4294967296"))
	seg("oseq-negative", 2, lit("-2"))
	seg("oseq-is-other-provider", 2, func(x vC09HCtx) string { return x.OtherP })
	seg("oseq-encoded-slash-provider", 2, func(x vC09HCtx) string { return "1%2F" + x.OtherP })
	// structure
	add("owner-as-first-segment", func(t *vC09Target, x vC09HCtx) bool {
		t.Segs = append([]string{x.Other}, t.Segs...)
		return true
	})
	add("provider-as-last-segment", func(t *vC09Target, x vC09HCtx) bool {
		t.Segs = append(t.Segs, x.OtherP)
		return true
	})
	add("full-five-part-id", func(t *vC09Target, x vC09HCtx) bool {
		t.Segs = append(append([]string{x.Other}, t.Segs...), x.OtherP)
		return true
	})
	add("double-slash", func(t *vC09Target, x vC09HCtx) bool {
		t.Prefix = "/" + t.Prefix
		t.Segs[0] = "/" + t.Segs[0]
		return true
	})
	add("trailing-slash", func(t *vC09Target, x vC09HCtx) bool { t.Tail += "/"; return true })
	add("trailing-junk-segment", func(t *vC09Target, x vC09HCtx) bool { t.Tail += "/" + x.Other; return true })
	add("suffix-junk", func(t *vC09Target, x vC09HCtx) bool { t.Tail += "x"; return true })
	add("uppercase-prefix", func(t *vC09Target, x vC09HCtx) bool { t.Prefix = strings.ToUpper(t.Prefix); return true })
	add("dot-segment-inside", func(t *vC09Target, x vC09HCtx) bool { t.Segs[0] = "./" + t.Segs[0]; return true })
	add("dotdot-into-other-subtree", func(t *vC09Target, x vC09HCtx) bool {
		if t.Prefix == "/lease" {
			t.Tail = "/.." + strings.Repeat("/..", len(t.Segs)) + "/deployment/7/manifest"
		} else {
			t.Tail = "/.." + strings.Repeat("/..", len(t.Segs)) + "/lease/7/1/1/status"
		}
		return true
	})
	add("encoded-dotdot", func(t *vC09Target, x vC09HCtx) bool { t.Tail = "/%2e%2e" + t.Tail; return true })
	add("encoded-slash-before-tail", func(t *vC09Target, x vC09HCtx) bool {
		t.Tail = "%2F" + strings.TrimPrefix(t.Tail, "/")
		return true
	})
	add("backslash-separator", func(t *vC09Target, x vC09HCtx) bool { t.Tail = "%5C" + strings.TrimPrefix(t.Tail, "/"); return true })
	add("absolute-form-foreign-host", func(t *vC09Target, x vC09HCtx) bool { t.Abs = "https://" + x.Other + ".example:8443"; return true })
	add("absolute-form-userinfo-owner", func(t *vC09Target, x vC09HCtx) bool { t.Abs = "https://" + x.Other + "@gateway"; return true })
	add("fragment", func(t *vC09Target, x vC09HCtx) bool { t.Query = append(t.Query, "a=1#owner="+x.Other); return true })
	// query parameters
	q := func(name string, kv func(x vC09HCtx) []string) {
		add(name, func(t *vC09Target, x vC09HCtx) bool { t.Query = append(t.Query, kv(x)...); return true })
	}
	q("q-owner-other", func(x vC09HCtx) []string { return []string{"owner=" + x.Other} })
	q("q-owner-other-first", func(x vC09HCtx) []string { return []string{"owner=" + x.Other, "owner=" + x.Self} })
	q("q-owner-self-then-other", func(x vC09HCtx) []string { return []string{"owner=" + x.Self, "owner=" + x.Other} })
	q("q-provider-other", func(x vC09HCtx) []string { return []string{"provider=" + x.OtherP} })
	q("q-owner-and-provider", func(x vC09HCtx) []string { return []string{"owner=" + x.Other, "provider=" + x.OtherP} })
	q("q-dseq", func(x vC09HCtx) []string { return []string{"dseq=99"} })
	q("q-dseq-duplicates", func(x vC09HCtx) []string { return []string{"dseq=98", "dseq=99", "dseq=18446744073709551616"} })
	q("q-gseq-oseq", func(x vC09HCtx) []string { return []string{"gseq=9", "oseq=9"} })
	q("q-owner-array", func(x vC09HCtx) []string { return []string{"owner[]=" + x.Other, "owner%5B0%5D=" + x.Other} })
	q("q-owner-capitalised", func(x vC09HCtx) []string { return []string{"Owner=" + x.Other, "OWNER=" + x.Other} })
	q("q-dotted-owner", func(x vC09HCtx) []string {
		return []string{"id.owner=" + x.Other, "lease.owner=" + x.Other, "lease_id.owner=" + x.Other, "id.provider=" + x.OtherP}
	})
	q("q-encoded-key-owner", func(x vC09HCtx) []string { return []string{"%6f%77%6e%65%72=" + x.Other} })
	q("q-semicolon-separated", func(x vC09HCtx) []string { return []string{"a=1;owner=" + x.Other + ";provider=" + x.OtherP} })
	q("q-owner-empty", func(x vC09HCtx) []string { return []string{"owner="} })
	q("q-owner-garbage", func(x vC09HCtx) []string { return []string{"owner=%00%ff"} })
	q("q-bad-escape", func(x vC09HCtx) []string { return []string{"owner=%zz" + x.Other} })
	q("q-lease-id-path", func(x vC09HCtx) []string {
		return []string{"lease=" + x.Other + "%2F1%2F1%2F1%2F" + x.OtherP, "id=" + x.Other + "/1/1/1/" + x.OtherP}
	})
	q("q-long", func(x vC09HCtx) []string { return []string{"pad=" + strings.Repeat("A", 20000), "owner=" + x.Other} })
	// headers / bodies
	h := func(name string, hs func(x vC09HCtx) [][2]string) {
		add(name, func(t *vC09Target, x vC09HCtx) bool { t.Headers = append(t.Headers, hs(x)...); return true })
	}
	h("hdr-owner", func(x vC09HCtx) [][2]string {
		return [][2]string{{"Owner", x.Other}, {"X-Owner", x.Other}, {"X-Akash-Owner", x.Other}, {"X-Provider", x.OtherP}}
	})
	h("hdr-forwarded-client-cert", func(x vC09HCtx) [][2]string {
		return [][2]string{{"X-Forwarded-Client-Cert", "Subject=\"CN=" + x.Other + "\""}, {"X-SSL-Client-CN", x.Other}, {"X-Forwarded-For", "127.0.0.1"}}
	})
	h("hdr-host-is-other-owner", func(x vC09HCtx) [][2]string { return [][2]string{{"Host", x.Other}} })
	h("hdr-method-override", func(x vC09HCtx) [][2]string { return [][2]string{{"X-HTTP-Method-Override", "DELETE"}} })
	h("hdr-authorization", func(x vC09HCtx) [][2]string { return [][2]string{{"Authorization", "Bearer " + x.Other}} })
	add("form-body-owner", func(t *vC09Target, x vC09HCtx) bool {
		if t.Method != "POST" && t.Method != "PUT" {
			return false
		}
		if t.Method == "POST" {
			t.Body = "owner=" + x.Other + "&provider=" + x.OtherP + "&dseq=99"
			t.Headers = append(t.Headers, [2]string{"Content-Type", "application/x-www-form-urlencoded"})
		} else {
			t.Headers = append(t.Headers, [2]string{"Content-Type", "application/json"})
			t.Body = `[{"Name":"g","owner":"` + x.Other + `","Services":[]}]`
		}
		return true
	})
	return vv
}

// ---------------------------------------------------------------------------
// one case

type vC09Case struct {
	Seed     int64    `json:"seed"`
	Class    string   `json:"class"`
	Note     string   `json:"note,omitempty"`
	ChainPEM []string `json:"chain_pem"`
	KeyPEM   string   `json:"key_pem"`
	Route    string   `json:"route"`
	Hostile  string   `json:"hostile,omitempty"`
	Request  vC09Req  `json:"request"`
	Line     string   `json:"request_line"`

	chain [][]byte
	key   *ecdsa.PrivateKey
}

func (c *vC09Case) seal() error {
	c.ChainPEM = nil
	for _, der := range c.chain {
		c.ChainPEM = append(c.ChainPEM, string(vC09CertPEM(der)))
	}
	kp, err := vC09KeyPEM(c.key)
	c.KeyPEM = kp
	c.Line = c.Request.Line()
	if len(c.Line) > 300 {
		c.Line = c.Line[:300] + "…"
	}
	return err
}

func (c *vC09Case) unseal() error {
	c.chain = nil
	for _, p := range c.ChainPEM {
		blk, _ := pem.Decode([]byte(p))
		if blk == nil {
			return fmt.Errorf("bad certificate pem in replay case")
		}
		c.chain = append(c.chain, blk.Bytes)
	}
	k, err := vC09ParseKeyPEM(c.KeyPEM)
	c.key = k
	return err
}

type vC09Judge struct {
	res *vs.Result
	reg *vC09Registry
}

func vC09CallsText(calls []vC09Call) string {
	var ss []string
	for _, c := range calls {
		if c.Scoped {
			ss = append(ss, fmt.Sprintf("%s(owner=%s provider=%s %d/%d/%d)", c.Method, c.Owner, c.Provider, c.DSeq, c.GSeq, c.OSeq))
		} else {
			ss = append(ss, c.Method+"()")
		}
	}
	return strings.Join(ss, ", ")
}

// judge applies both oracles to one observed case.
func (j *vC09Judge) judge(c *vC09Case, obs vC09Obs, calls []vC09Call) {
	res := j.res
	res.Eval(1)
	res.Count("class:"+c.Class, 1)
	if obs.TLS13 {
		res.Count("tls13_handshakes", 1)
	}
	cn, authOK, why := vC09AuthOK(j.reg, c.chain, c.key)
	P := j.reg.Provider.String()

	var scoped []vC09Call
	for _, cl := range calls {
		if cl.Scoped {
			scoped = append(scoped, cl)
		}
	}
	ownerTarget := vC09OwnerScopedTarget(c.Request.Target)
	served := len(scoped) > 0 || (ownerTarget && (obs.Status/100 == 2 || obs.Status == 101))

	outcome := obs.Outcome
	if len(scoped) > 0 {
		outcome += "+stub"
	}
	res.Distinct(c.Class + "|" + c.Route + "|" + c.Hostile + "|" + outcome)
	res.Count("outcome:"+obs.Outcome, 1)
	if c.Hostile != "" {
		res.Count("hostile_requests", 1)
		if len(scoped) > 0 {
			res.Count("hostile_requests_reaching_stub", 1)
		} else {
			res.Count("hostile_requests_stopped_before_stub", 1)
		}
	}

	// ---- authentication: served as an account => genuine credential
	if served && !authOK {
		res.AddViolation(vC09RuleAuth, "C09/"+vC09RuleAuth+"/"+c.Class,
			fmt.Sprintf("class %s: %q was served (outcome %s; stub calls: %s) although %s; certificate CN=%q", c.Class, c.Line, obs.Outcome, vC09CallsText(scoped), why, cn),
			c)
	}
	if !served && !authOK {
		res.Count("nongenuine_not_served", 1)
	}
	if authOK {
		rt := vC09RouteByName(c.Route)
		ok := false
		if c.Hostile == "" && rt != nil {
			if rt.Stub {
				for _, cl := range scoped {
					if cl.Owner == vC09Account(cn) {
						ok = true
					}
				}
			} else {
				ok = obs.Status != 0 && obs.Status != 401 && obs.Status != 403
			}
			if ok {
				res.Count("genuine_served:"+c.Route, 1)
			} else {
				res.Count("genuine_not_served", 1) // converse direction: statistic only
			}
		}
	}

	// ---- scoping: every id that reaches a stub is (authenticated CN, this provider)
	for _, cl := range scoped {
		res.Count("stub_calls_checked", 1)
		if cl.Owner != vC09Account(cn) {
			res.AddViolation(vC09RuleScope, "C09/"+vC09RuleScope+"/"+c.Route+"/owner",
				fmt.Sprintf("%s received owner %q but the authenticated certificate's CN is %q (class %s, variant %q, request %q)", cl.Method, cl.Owner, cn, c.Class, c.Hostile, c.Line),
				c)
		}
		if cl.HasProvider && cl.Provider != P {
			res.AddViolation(vC09RuleScope, "C09/"+vC09RuleScope+"/"+c.Route+"/provider",
				fmt.Sprintf("%s received provider %q but this gateway's provider is %q (class %s, variant %q, request %q)", cl.Method, cl.Provider, P, c.Class, c.Hostile, c.Line),
				c)
		}
		if authOK && c.Class == "other-account-genuine" && cl.Owner == vC09Account(cn) {
			res.Count("other_account_scoped_to_itself", 1)
		}
	}
	if res.WantSample() && (c.Hostile != "" || c.Class != "genuine") {
		res.Sample(map[string]interface{}{"class": c.Class, "route": c.Route, "hostile": c.Hostile, "request_line": c.Line, "outcome": outcome, "stub_calls": vC09CallsText(calls)})
	}
}

func vC09RouteByName(n string) *vC09Route {
	for i := range vC09Routes {
		if vC09Routes[i].Name == n {
			return &vC09Routes[i]
		}
	}
	return nil
}

// ---------------------------------------------------------------------------
// server pool: one request in flight per server, so every recorded stub call
// belongs to the case that is being run on it

type vC09Pool struct {
	t     *testing.T
	reg   *vC09Registry
	certs []tls.Certificate
	ch    chan *vC09Server
	mu    sync.Mutex
	all   []*vC09Server
}

func vC09NewPool(t *testing.T, reg *vC09Registry, n int) (*vC09Pool, error) {
	pcert := testutil.Certificate(t, reg.Provider, testutil.CertificateOptionDomains([]string{"localhost", "127.0.0.1"}))
	p := &vC09Pool{t: t, reg: reg, certs: pcert.Cert, ch: make(chan *vC09Server, n)}
	for i := 0; i < n; i++ {
		s, err := vC09StartServer(t, reg, p.certs)
		if err != nil {
			return nil, err
		}
		p.all = append(p.all, s)
		p.ch <- s
	}
	return p, nil
}

func (p *vC09Pool) closeAll() {
	p.mu.Lock()
	defer p.mu.Unlock()
	for _, s := range p.all {
		s.close()
	}
}

// run executes one case on an exclusive server and returns what was seen.
func (p *vC09Pool) run(c *vC09Case) (vC09Obs, []vC09Call, error) {
	s := <-p.ch
	s.rec.drain()
	obs := vC09Do(s.addr, c.chain, c.key, c.Request)
	calls := s.rec.drain()
	if obs.Outcome == "timeout" || obs.Outcome == "connect-error" {
		// a handler may still be running: retire this server
		ns, err := vC09StartServer(p.t, p.reg, p.certs)
		if err != nil {
			p.ch <- s
			return obs, calls, err
		}
		p.mu.Lock()
		p.all = append(p.all, ns)
		p.mu.Unlock()
		p.ch <- ns
		return obs, calls, nil
	}
	p.ch <- s
	return obs, calls, nil
}

// ---------------------------------------------------------------------------

func TestVerif_C09(t *testing.T) {
	res := vs.NewResult("C09", "exploration",
		"client credentials of 22 classes (genuine; forged self-signed copies of CN+serial of valid/revoked/expired certificates, also with the CN in upper case; revoked, expired, not-yet-valid, serverAuth-only registered ones; unknown serial; chains; non-bech32/empty CN; issuer!=subject; leaves issued by X's own certificate; another account; certificate without its key; none) are each used in a real TLS 1.3 handshake against the real rest.NewServer (real router and middlewares, certificate lookups answered by the real x/cert keeper querier over an in-memory store) followed by one request per route of router.go; genuine and forged credentials additionally send >=50 hostile variants of path segments, query parameters, headers and bodies on every owner-scoped route. Alarm (a) when a request is served (a recording stub receives an owner-scoped call, or 2xx/101 on the lease/deployment subtree) although the presented chain is not exactly one certificate that is DER-identical to a valid, unrevoked, currently valid clientAuth certificate the CN's account has on chain and whose key the client holds; (b) when any id reaching a stub has owner != authenticated CN or provider != this gateway's provider. distinct = (class, route, hostile variant, outcome)")
	res.Assume("the reference registry is what the harness itself registered/revoked through keeper.CreateCertificate/RevokeCertificate (self-checked against keeper.GetCertificateByID); the gateway's lookups go through the production querier")
	res.Assume("validity windows are absolute dates (current 2021-01-01..2049-01-01, expired 2019..2020, future 2090..2099); the run date is checked to lie inside the current window, no oracle reads the clock")
	res.Assume("possession of the presented key is proven by the TLS 1.3 CertificateVerify of Go's crypto/tls; a presented chain longer than one certificate is not 'a certificate X published' (on-chain credentials are single self-signed certificates), so being served after presenting one is alarmed")
	res.Assume("one request is in flight per gateway instance, so every recorded stub call belongs to the case under judgement; websocket handlers call their stub after the upgrade and the client waits for the server to close the connection")
	defer func() {
		if err := res.Write(); err != nil {
			t.Errorf("writing result: %v", err)
		}
		if res.Violations() > 0 {
			t.Errorf("C09: %d violation(s) recorded", res.Violations())
		}
	}()

	now := time.Now()
	if now.Before(vC09CurNB.Add(48*time.Hour)) || now.After(vC09CurNA.Add(-48*time.Hour)) {
		res.Inconclusive("the machine's date is outside the window the certificates were generated for")
		return
	}

	// ---- replay of one case
	if rp := vs.ReplayFile(); rp != "" {
		var c vC09Case
		if err := vs.LoadReplay(rp, &c); err != nil {
			res.Inconclusive("cannot load replay file: " + err.Error())
			return
		}
		if err := c.unseal(); err != nil {
			res.Inconclusive("cannot decode replay case: " + err.Error())
			return
		}
		reg, err := vC09BuildRegistry(c.Seed)
		if err != nil {
			res.Inconclusive("registry setup failed: " + err.Error())
			return
		}
		pool, err := vC09NewPool(t, reg, 1)
		if err != nil {
			res.Inconclusive("server setup failed: " + err.Error())
			return
		}
		defer pool.closeAll()
		obs, calls, err := pool.run(&c)
		if err != nil {
			res.Inconclusive("server restart failed: " + err.Error())
			return
		}
		(&vC09Judge{res: res, reg: reg}).judge(&c, obs, calls)
		res.Extra("replayed", map[string]interface{}{"class": c.Class, "request_line": c.Line, "outcome": obs.Outcome, "error": obs.Err, "stub_calls": vC09CallsText(calls)})
		return
	}

	// ---- floors
	for _, cl := range vC09Classes {
		res.Floor("class_credentials:"+cl, 5)
	}
	for _, rt := range vC09Routes {
		res.Floor("genuine_served:"+rt.Name, 1)
	}
	res.Floor("hostile_variants", 50)
	res.Floor("hostile_requests_reaching_stub", 1)
	res.Floor("hostile_requests_stopped_before_stub", 1)
	res.Floor("nongenuine_not_served", 1)
	res.Floor("other_account_scoped_to_itself", 1)
	res.Floor("stub_calls_checked", 1)
	res.Floor("cert_queries_with_answer_from_keeper", 1)
	res.Floor("tls13_handshakes", 1)
	res.Floor("multitenant_responses_checked", 100)
	res.Floor("multitenant_streams_checked", 50)
	res.Floor("revoke_after_use_served_before_revocation", 20)
	res.Floor("revoke_after_use_presentations_after_revocation", 60)
	res.Floor("concurrent_genuine_served", 1)
	res.Floor("concurrent_nongenuine_handshakes", 20)

	seed := vs.Seed()
	reg, err := vC09BuildRegistry(seed)
	if err != nil {
		res.Inconclusive("registry setup failed: " + err.Error())
		return
	}
	workers := 16
	pool, err := vC09NewPool(t, reg, workers)
	if err != nil {
		res.Inconclusive("server setup failed: " + err.Error())
		return
	}
	defer pool.closeAll()

	// ---- case list (a function of the seed)
	var cases []*vC09Case
	nCreds := vs.Scale(300, 5000)
	P, OP := reg.Provider.String(), reg.OtherPrv.String()
	mk := func(cred vC09Cred, rt vC09Route, hostile string, tg *vC09Target) {
		c := &vC09Case{Seed: seed, Class: cred.Class, Note: cred.Note, Route: rt.Name, Hostile: hostile, Request: tg.Req(), chain: cred.Chain, key: cred.Key}
		cases = append(cases, c)
	}
	var setupErr error
	for i := 0; i < nCreds; i++ {
		r := vs.NewRand(seed, uint64(10000+i))
		cred, err := vC09MakeCred(reg, vC09Classes[i%len(vC09Classes)], r)
		if err != nil {
			setupErr = err
			break
		}
		res.Count("class_credentials:"+cred.Class, 1)
		for _, rt := range vC09Routes {
			tg := vC09BaseTarget(rt, uint64(1+r.Intn(1<<30)), uint32(1+r.Intn(9)), uint32(1+r.Intn(9)))
			if cred.Class == "other-account-genuine" && rt.Kind != "public" {
				// legitimate Y asking for X's lease by parameter
				tg.Query = append(tg.Query, "owner="+cred.Other)
			}
			mk(cred, rt, "", tg)
		}
	}
	if setupErr != nil {
		res.Inconclusive("credential generation failed: " + setupErr.Error())
		return
	}
	variants := vC09Variants()
	res.Extra("hostile_variant_names", len(variants))
	hostileClasses := []string{"genuine", "other-account-genuine", "forged-copied-cn-serial", "no-certificate"}
	usedVariants := map[string]bool{}
	hostileOne := func(r *vs.Rand, cred vC09Cred, rt vC09Route, vis []int) {
		tg := vC09BaseTarget(rt, uint64(1+r.Intn(1<<30)), uint32(1+r.Intn(9)), uint32(1+r.Intn(9)))
		x := vC09HCtx{Self: cred.Victim, Other: cred.Other, P: P, OtherP: OP}
		if x.Other == "" {
			x.Other = reg.Accts[0].Bech
		}
		var names []string
		for _, vi := range vis {
			if variants[vi].Apply(tg, x) {
				names = append(names, variants[vi].Name)
			}
		}
		if len(names) == 0 {
			return
		}
		for _, n := range names {
			usedVariants[n] = true
		}
		mk(cred, rt, strings.Join(names, "+"), tg)
	}
	hi := 0
	for vi := range variants {
		for ri, rt := range vC09Routes {
			if rt.Kind == "public" {
				continue
			}
			for _, hc := range hostileClasses {
				if hc == "no-certificate" && (vi+ri)%4 != 0 {
					continue
				}
				r := vs.NewRand(seed, uint64(5000000+hi))
				hi++
				cred, err := vC09MakeCred(reg, hc, r)
				if err != nil {
					res.Inconclusive("credential generation failed: " + err.Error())
					return
				}
				hostileOne(r, cred, rt, []int{vi})
			}
		}
	}
	// random combinations of two or three variants
	nCombo := vs.Scale(600, 30000)
	for k := 0; k < nCombo; k++ {
		r := vs.NewRand(seed, uint64(9000000+k))
		cred, err := vC09MakeCred(reg, hostileClasses[r.Intn(3)], r)
		if err != nil {
			res.Inconclusive("credential generation failed: " + err.Error())
			return
		}
		var owner []vC09Route
		for _, rt := range vC09Routes {
			if rt.Kind != "public" {
				owner = append(owner, rt)
			}
		}
		rt := owner[r.Intn(len(owner))]
		n := r.Range(2, 3)
		var vis []int
		for len(vis) < n {
			vis = append(vis, r.Intn(len(variants)))
		}
		hostileOne(r, cred, rt, vis)
	}
	res.Count("hostile_variants", len(usedVariants))
	for _, c := range cases {
		if err := c.seal(); err != nil {
			res.Inconclusive("cannot serialise case: " + err.Error())
			return
		}
	}
	res.Extra("cases", len(cases))
	res.Extra("credentials", nCreds)
	res.Extra("routes", len(vC09Routes))
	res.Extra("registry", fmt.Sprintf("%d accounts x %d on-chain certificates (%s), provider %s", len(reg.Accts), len(vC09Kinds), strings.Join(vC09Kinds, ","), P))

	// ---- run
	judge := &vC09Judge{res: res, reg: reg}
	var trouble int64
	var firstTrouble atomic.Value
	vs.Parallel(len(cases), workers, func(i int) {
		c := cases[i]
		obs, calls, err := pool.run(c)
		if err != nil || obs.Outcome == "timeout" || obs.Outcome == "connect-error" {
			atomic.AddInt64(&trouble, 1)
			msg := obs.Outcome + ": " + obs.Err
			if err != nil {
				msg += " / " + err.Error()
			}
			firstTrouble.Store(c.Line + " -> " + msg)
			res.Count("harness_trouble:"+obs.Outcome, 1)
			return
		}
		judge.judge(c, obs, calls)
	})
	if trouble > 0 {
		ft, _ := firstTrouble.Load().(string)
		res.Inconclusive(fmt.Sprintf("%d case(s) could not be judged (timeout / connect error), e.g. %s", trouble, ft))
	}
	// ---- concurrent phase: overlapping lookups on one gateway instance
	vC09Concurrent(t, res, reg, vs.Scale(150, 3000))
	vC09ConcurrentTenants(t, res, reg, vs.Scale(200, 4000))
	vC09RevokeAfterUse(t, res, reg, vs.Scale(60, 1500))

	res.Count("cert_queries_with_answer_from_keeper", int(atomic.LoadInt64(&reg.answered)))
	res.Extra("cert_queries_total", atomic.LoadInt64(&reg.queries))

	names := append([]string{}, vC09Classes...)
	sort.Strings(names)
	res.Extra("classes", names)
}
