//go:build verif
// +build verif

package rest

// C09, concurrent phase: genuine and non-genuine credentials that name the
// SAME account and serial complete their handshakes at the same time against
// ONE gateway instance whose chain lookups are slowed down, so that lookups
// of several handshakes overlap.  A verdict reached for one handshake must
// never be used for another (caching / coalescing of lookups keyed by
// owner+serial is the realistic way to get that wrong).  Judged per client by
// what that client itself observed: a non-genuine credential being served on
// an owner-scoped route is a violation.

import (
	"context"
	"fmt"
	"io/ioutil"
	stdlog "log"
	"net"
	"sync"
	"testing"
	"time"

	"github.com/tendermint/tendermint/libs/log"
	"google.golang.org/grpc"

	"github.com/ovrclk/akash/testutil"
	vs "github.com/ovrclk/akash/verifsupport"
	vcerttypes "github.com/ovrclk/akash/x/cert/types"
)

// vC09SlowQuery answers through the production querier after a delay that
// differs per call, which keeps several lookups in flight at once.
type vC09SlowQuery struct {
	inner vC09Query
	mu    *sync.Mutex
	rnd   *vs.Rand
}

func (q vC09SlowQuery) Certificates(ctx context.Context, req *vcerttypes.QueryCertificatesRequest, opts ...grpc.CallOption) (*vcerttypes.QueryCertificatesResponse, error) {
	q.mu.Lock()
	d := time.Duration(200+q.rnd.Intn(3000)) * time.Microsecond
	q.mu.Unlock()
	time.Sleep(d)
	return q.inner.Certificates(ctx, req, opts...)
}

func vC09Concurrent(t *testing.T, res *vs.Result, reg *vC09Registry, rounds int) {
	pcert := testutil.Certificate(t, reg.Provider, testutil.CertificateOptionDomains([]string{"localhost", "127.0.0.1"}))
	rec := &vC09Rec{}
	pc := &vC09Provider{rec: rec, m: &vC09Manifest{rec: rec}, c: &vC09Cluster{rec: rec}}
	q := vC09SlowQuery{inner: vC09Query{reg: reg}, mu: &sync.Mutex{}, rnd: vs.NewRand(vs.Seed(), 0xC09C)}
	srv, err := NewServer(context.Background(), log.NewNopLogger(), pc, q, "127.0.0.1:0", reg.Provider, pcert.Cert)
	if err != nil {
		res.Inconclusive("concurrent phase: server setup failed: " + err.Error())
		return
	}
	srv.ErrorLog = stdlog.New(ioutil.Discard, "", 0)
	ln, err := net.Listen("tcp", "127.0.0.1:0")
	if err != nil {
		res.Inconclusive("concurrent phase: listen failed: " + err.Error())
		return
	}
	go func() { _ = srv.ServeTLS(ln, "", "") }()
	defer srv.Close()
	addr := ln.Addr().String()

	var route vC09Route
	for _, rt := range vC09Routes {
		if rt.Kind != "public" && !rt.WS && rt.Method == "GET" {
			route = rt
			break
		}
	}
	if route.Name == "" {
		res.Inconclusive("concurrent phase: no plain GET owner-scoped route found")
		return
	}
	bad := []string{"forged-copied-cn-serial", "forged-uppercase-cn", "x-as-ca-leaf", "genuine-cert-without-its-key", "forged-revoked-serial"}
	seed := vs.Seed()
	for round := 0; round < rounds; round++ {
		// the same PRNG stream for every credential of the round: they all
		// name the same account and the same on-chain certificate
		type client struct {
			cred vC09Cred
			obs  vC09Obs
		}
		var cs []*client
		mk := func(class string) {
			r := vs.NewRand(seed, uint64(7700000+round))
			cred, err := vC09MakeCred(reg, class, r)
			if err == nil {
				cs = append(cs, &client{cred: cred})
			}
		}
		rr := vs.NewRand(seed, uint64(7800000+round))
		for k := 0; k < 2+rr.Intn(3); k++ {
			mk("genuine")
		}
		for k := 0; k < 2+rr.Intn(4); k++ {
			mk(bad[rr.Intn(len(bad))])
		}
		perm := rr.Perm(len(cs))
		var wg sync.WaitGroup
		for _, i := range perm {
			c := cs[i]
			wg.Add(1)
			delay := time.Duration(rr.Intn(1500)) * time.Microsecond
			go func() {
				defer wg.Done()
				time.Sleep(delay)
				tg := vC09BaseTarget(route, 77, 1, 1)
				c.obs = vC09Do(addr, c.cred.Chain, c.cred.Key, tg.Req())
			}()
		}
		wg.Wait()
		for _, c := range cs {
			res.Eval(1)
			served := c.obs.Status >= 200 && c.obs.Status < 300
			if c.cred.Class == "genuine" {
				if served {
					res.Count("concurrent_genuine_served", 1)
				} else {
					res.Count("concurrent_genuine_not_served", 1)
				}
				continue
			}
			res.Count("concurrent_nongenuine_handshakes", 1)
			if served {
				cc := &vC09Case{Seed: seed, Class: c.cred.Class, Route: route.Name, Hostile: "concurrent-with-genuine-handshakes", Request: vC09BaseTarget(route, 77, 1, 1).Req(), chain: c.cred.Chain, key: c.cred.Key}
				_ = cc.seal()
				res.AddViolation(vC09RuleAuth, "C09/"+vC09RuleAuth+"/concurrent/"+c.cred.Class,
					fmt.Sprintf("class %s: %q was served (outcome %s) while genuine handshakes for the same account and serial were in flight on the same gateway, although the presented certificate is not the one account %s published", c.cred.Class, cc.Request.Line(), c.obs.Outcome, c.cred.Victim), cc)
			}
		}
		res.Distinct(fmt.Sprintf("concurrent|%d clients", len(cs)))
	}
	res.Count("concurrent_rounds", rounds)
}
