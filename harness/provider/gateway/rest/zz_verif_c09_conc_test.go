//go:build verif
// +build verif

package rest

// C09, concurrent phase: genuine and non-genuine credentials that name the
// SAME account and serial complete their handshakes at the same time against
// ONE gateway instance whose chain lookups are slowed down, so that lookups
// of several handshakes overlap.  A verdict reached for one handshake must
// never be used for another (caching / coalescing of lookups keyed by
// owner+serial is the realistic way to get that wrong).  Judged per client by
// what that client itself observed: a non-genuine credential being served on
// an owner-scoped route is a violation.

import (
	"context"
	"crypto/x509"
	"encoding/pem"
	"fmt"
	"io/ioutil"
	stdlog "log"
	"math/big"
	"net"
	"regexp"
	"strings"
	"sync"
	"testing"
	"time"

	"github.com/tendermint/tendermint/libs/log"
	"google.golang.org/grpc"

	"github.com/ovrclk/akash/testutil"
	vs "github.com/ovrclk/akash/verifsupport"
	vcerttypes "github.com/ovrclk/akash/x/cert/types"
)

// vC09SlowQuery answers through the production querier after a delay that
// differs per call, which keeps several lookups in flight at once.
type vC09SlowQuery struct {
	inner vC09Query
	mu    *sync.Mutex
	rnd   *vs.Rand
}

func (q vC09SlowQuery) Certificates(ctx context.Context, req *vcerttypes.QueryCertificatesRequest, opts ...grpc.CallOption) (*vcerttypes.QueryCertificatesResponse, error) {
	q.mu.Lock()
	d := time.Duration(200+q.rnd.Intn(3000)) * time.Microsecond
	q.mu.Unlock()
	time.Sleep(d)
	return q.inner.Certificates(ctx, req, opts...)
}

func vC09Concurrent(t *testing.T, res *vs.Result, reg *vC09Registry, rounds int) {
	pcert := testutil.Certificate(t, reg.Provider, testutil.CertificateOptionDomains([]string{"localhost", "127.0.0.1"}))
	rec := &vC09Rec{}
	pc := &vC09Provider{rec: rec, m: &vC09Manifest{rec: rec}, c: &vC09Cluster{rec: rec}}
	q := vC09SlowQuery{inner: vC09Query{reg: reg}, mu: &sync.Mutex{}, rnd: vs.NewRand(vs.Seed(), 0xC09C)}
	srv, err := NewServer(context.Background(), log.NewNopLogger(), pc, q, "127.0.0.1:0", reg.Provider, pcert.Cert)
	if err != nil {
		res.Inconclusive("concurrent phase: server setup failed: " + err.Error())
		return
	}
	srv.ErrorLog = stdlog.New(ioutil.Discard, "", 0)
	ln, err := net.Listen("tcp", "127.0.0.1:0")
	if err != nil {
		res.Inconclusive("concurrent phase: listen failed: " + err.Error())
		return
	}
	go func() { _ = srv.ServeTLS(ln, "", "") }()
	defer srv.Close()
	addr := ln.Addr().String()

	var route vC09Route
	for _, rt := range vC09Routes {
		if rt.Kind != "public" && !rt.WS && rt.Method == "GET" {
			route = rt
			break
		}
	}
	if route.Name == "" {
		res.Inconclusive("concurrent phase: no plain GET owner-scoped route found")
		return
	}
	bad := []string{"forged-copied-cn-serial", "forged-uppercase-cn", "x-as-ca-leaf", "genuine-cert-without-its-key", "forged-revoked-serial"}
	seed := vs.Seed()
	for round := 0; round < rounds; round++ {
		// the same PRNG stream for every credential of the round: they all
		// name the same account and the same on-chain certificate
		type client struct {
			cred vC09Cred
			obs  vC09Obs
		}
		var cs []*client
		mk := func(class string) {
			r := vs.NewRand(seed, uint64(7700000+round))
			cred, err := vC09MakeCred(reg, class, r)
			if err == nil {
				cs = append(cs, &client{cred: cred})
			}
		}
		rr := vs.NewRand(seed, uint64(7800000+round))
		for k := 0; k < 2+rr.Intn(3); k++ {
			mk("genuine")
		}
		for k := 0; k < 2+rr.Intn(4); k++ {
			mk(bad[rr.Intn(len(bad))])
		}
		perm := rr.Perm(len(cs))
		var wg sync.WaitGroup
		for _, i := range perm {
			c := cs[i]
			wg.Add(1)
			delay := time.Duration(rr.Intn(1500)) * time.Microsecond
			go func() {
				defer wg.Done()
				time.Sleep(delay)
				tg := vC09BaseTarget(route, 77, 1, 1)
				c.obs = vC09Do(addr, c.cred.Chain, c.cred.Key, tg.Req())
			}()
		}
		wg.Wait()
		for _, c := range cs {
			res.Eval(1)
			served := c.obs.Status >= 200 && c.obs.Status < 300
			if c.cred.Class == "genuine" {
				if served {
					res.Count("concurrent_genuine_served", 1)
				} else {
					res.Count("concurrent_genuine_not_served", 1)
				}
				continue
			}
			res.Count("concurrent_nongenuine_handshakes", 1)
			if served {
				cc := &vC09Case{Seed: seed, Class: c.cred.Class, Route: route.Name, Hostile: "concurrent-with-genuine-handshakes", Request: vC09BaseTarget(route, 77, 1, 1).Req(), chain: c.cred.Chain, key: c.cred.Key}
				_ = cc.seal()
				res.AddViolation(vC09RuleAuth, "C09/"+vC09RuleAuth+"/concurrent/"+c.cred.Class,
					fmt.Sprintf("class %s: %q was served (outcome %s) while genuine handshakes for the same account and serial were in flight on the same gateway, although the presented certificate is not the one account %s published", c.cred.Class, cc.Request.Line(), c.obs.Outcome, c.cred.Victim), cc)
			}
		}
		res.Distinct(fmt.Sprintf("concurrent|%d clients", len(cs)))
	}
	res.Count("concurrent_rounds", rounds)
}

// vC09ConcurrentTenants: several accounts, each with its genuine on-chain
// certificate, request lease status, service status and log streams of their
// OWN leases at the same time on one gateway (the lease numbers overlap: all
// of them have a lease 1/1/1).  Every stub marks what it returns with the
// lease id it was asked about (owner from the authentication, numbers from
// the URL), so each client can tell from its response whose lease it was
// derived from: it must be its own, whatever the others are doing.
func vC09ConcurrentTenants(t *testing.T, res *vs.Result, reg *vC09Registry, rounds int) {
	pcert := testutil.Certificate(t, reg.Provider, testutil.CertificateOptionDomains([]string{"localhost", "127.0.0.1"}))
	srv, err := vC09StartServer(t, reg, pcert.Cert)
	if err != nil {
		res.Inconclusive("multi-tenant phase: cannot start the gateway: " + err.Error())
		return
	}
	defer srv.close()
	var routes []vC09Route
	for _, rt := range vC09Routes {
		if rt.Name == "lease-status" || rt.Name == "service-status" || rt.Name == "logs-ws" {
			routes = append(routes, rt)
		}
	}
	if len(routes) != 3 || len(reg.Accts) < 2 {
		res.Inconclusive("multi-tenant phase: routes or accounts missing")
		return
	}
	seed := vs.Seed()
	re := regexp.MustCompile(`verif-lease-tag:([a-z0-9]+)/(\d+)/(\d+)/(\d+)/([a-z0-9]+);`)
	type job struct {
		acct  *vC09Acct
		route vC09Route
		d     uint64
		g, o  uint32
		obs   vC09Obs
	}
	for round := 0; round < rounds; round++ {
		rr := vs.NewRand(seed, uint64(7900000+round))
		nt := 2 + rr.Intn(2)
		if nt > len(reg.Accts) {
			nt = len(reg.Accts)
		}
		perm := rr.Perm(len(reg.Accts))
		var jobs []*job
		for k := 0; k < nt; k++ {
			a := reg.Accts[perm[k]]
			if a.Certs["valid"] == nil {
				continue
			}
			rt := routes[rr.Intn(len(routes))]
			if rr.Chance(2, 3) {
				rt = routes[2] // the streams are the long-lived handlers
			}
			for w := 0; w < 2+rr.Intn(4); w++ {
				j := &job{acct: a, route: rt, d: 1, g: 1, o: 1}
				if rr.Chance(1, 3) {
					j.d, j.g, j.o = uint64(1+rr.Intn(3)), uint32(1+rr.Intn(2)), uint32(1+rr.Intn(2))
				}
				jobs = append(jobs, j)
			}
		}
		var wg sync.WaitGroup
		for _, i := range rr.Perm(len(jobs)) {
			j := jobs[i]
			wg.Add(1)
			delay := time.Duration(rr.Intn(300)) * time.Microsecond
			go func() {
				defer wg.Done()
				time.Sleep(delay)
				cc := j.acct.Certs["valid"]
				j.obs = vC09Do(srv.addr, [][]byte{cc.DER}, cc.Key, vC09BaseTarget(j.route, j.d, j.g, j.o).Req())
			}()
		}
		wg.Wait()
		_ = srv.rec.drain()
		for _, j := range jobs {
			res.Eval(1)
			if !(j.obs.Status == 101 || (j.obs.Status >= 200 && j.obs.Status < 300)) {
				res.Count("multitenant_not_served", 1)
				continue
			}
			tags := re.FindAllStringSubmatch(j.obs.Body, -1)
			if len(tags) == 0 {
				res.Count("multitenant_served_without_tag", 1)
				continue
			}
			res.Count("multitenant_responses_checked", 1)
			if j.route.WS {
				res.Count("multitenant_streams_checked", 1)
			}
			want := fmt.Sprintf("%s/%d/%d/%d/%s", j.acct.Bech, j.d, j.g, j.o, reg.Provider.String())
			for _, m := range tags {
				got := strings.Join(m[1:], "/")
				if got != want {
					cc := j.acct.Certs["valid"]
					c := &vC09Case{Seed: seed, Class: "genuine", Route: j.route.Name, Hostile: "concurrent-with-other-tenants", Request: vC09BaseTarget(j.route, j.d, j.g, j.o).Req(), chain: [][]byte{cc.DER}, key: cc.Key}
					_ = c.seal()
					res.AddViolation("scoped-to-authenticated-tenant", "C09/scoped-to-authenticated-tenant/concurrent-tenants/"+j.route.Name,
						fmt.Sprintf("client authenticated as %s asked %q and was answered from lease %s (expected %s) while other tenants were using the gateway", j.acct.Bech, c.Request.Line(), got, want), c)
					break
				}
			}
		}
		res.Distinct(fmt.Sprintf("multitenant|%d tenants|%d requests", nt, len(jobs)))
	}
	res.Count("multitenant_rounds", rounds)
}

// vC09RevokeAfterUse: "currently valid, unrevoked".  A certificate is
// published, used on one gateway (served), revoked on chain, and presented
// again on fresh connections to the same gateway - at once and repeatedly.
// Every presentation after the revocation must be refused, however recently
// the gateway has seen the certificate accepted.
func vC09RevokeAfterUse(t *testing.T, res *vs.Result, reg *vC09Registry, rounds int) {
	pcert := testutil.Certificate(t, reg.Provider, testutil.CertificateOptionDomains([]string{"localhost", "127.0.0.1"}))
	srv, err := vC09StartServer(t, reg, pcert.Cert)
	if err != nil {
		res.Inconclusive("revoke-after-use phase: cannot start the gateway: " + err.Error())
		return
	}
	defer srv.close()
	var route vC09Route
	for _, rt := range vC09Routes {
		if rt.Name == "lease-status" {
			route = rt
		}
	}
	seed := vs.Seed()
	for round := 0; round < rounds; round++ {
		rr := vs.NewRand(seed, uint64(8100000+round))
		acct := reg.Accts[rr.Intn(len(reg.Accts))]
		serial := new(big.Int).SetUint64(rr.Uint64()>>2 | 1<<40 | uint64(round))
		key := vC09Key(rr)
		der, err := vC09SelfSigned(vC09Spec{CN: acct.Bech, Serial: serial, Window: "current"}, key)
		if err != nil {
			continue
		}
		pub, err := x509.MarshalPKIXPublicKey(key.Public())
		if err != nil {
			continue
		}
		pubPEM := pem.EncodeToMemory(&pem.Block{Type: vcerttypes.PemBlkTypeECPublicKey, Bytes: pub})
		reg.mu.Lock()
		err = reg.keeper.CreateCertificate(reg.ctx, acct.Addr, vC09CertPEM(der), pubPEM)
		reg.mu.Unlock()
		if err != nil {
			res.Count("revoke_after_use_setup_failed", 1)
			continue
		}
		req := vC09BaseTarget(route, uint64(1+rr.Intn(3)), 1, 1).Req()
		uses := 1 + rr.Intn(3)
		servedBefore := 0
		for u := 0; u < uses; u++ {
			if o := vC09Do(srv.addr, [][]byte{der}, key, req); o.Status >= 200 && o.Status < 300 {
				servedBefore++
			}
		}
		reg.mu.Lock()
		err = reg.keeper.RevokeCertificate(reg.ctx, vcerttypes.CertID{Owner: acct.Addr, Serial: *serial})
		reg.mu.Unlock()
		if err != nil {
			res.Count("revoke_after_use_setup_failed", 1)
			continue
		}
		res.Eval(1)
		if servedBefore > 0 {
			res.Count("revoke_after_use_served_before_revocation", 1)
		}
		for k := 0; k < 3+rr.Intn(3); k++ {
			o := vC09Do(srv.addr, [][]byte{der}, key, req)
			res.Count("revoke_after_use_presentations_after_revocation", 1)
			if o.Status >= 200 && o.Status < 300 {
				c := &vC09Case{Seed: seed, Class: "genuine-revoked", Route: route.Name, Hostile: "revoked-after-it-had-been-accepted", Request: req, chain: [][]byte{der}, key: key}
				_ = c.seal()
				res.AddViolation(vC09RuleAuth, "C09/"+vC09RuleAuth+"/revoked-after-use",
					fmt.Sprintf("certificate %s/%s was accepted %d time(s), then revoked on chain; presentation %d after the revocation was still served (%s)", acct.Bech, serial, servedBefore, k+1, o.Outcome), c)
				break
			}
			if rr.Bool() {
				time.Sleep(time.Duration(rr.Intn(400)) * time.Microsecond)
			}
		}
	}
	_ = srv.rec.drain()
}
