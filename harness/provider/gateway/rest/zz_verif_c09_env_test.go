//go:build verif
// +build verif

package rest

// C09 environment: on-chain certificate registry answered by the real x/cert
// keeper querier, deterministic certificate generator, recording stubs for
// provider / cluster / manifest clients, the real gateway server
// (rest.NewServer) on a loopback listener, and a raw TLS 1.3 client that
// sends request lines byte for byte (no client-side path normalisation).

import (
	"bufio"
	"bytes"
	"context"
	"crypto/ecdsa"
	"crypto/elliptic"
	"crypto/tls"
	"crypto/x509"
	"crypto/x509/pkix"
	"encoding/asn1"
	"encoding/base64"
	"encoding/pem"
	"fmt"
	"io"
	"io/ioutil"
	stdlog "log"
	"math/big"
	"net"
	"net/http"
	"strings"
	"sync"
	"sync/atomic"
	"testing"
	"time"

	"github.com/cosmos/cosmos-sdk/store"
	sdk "github.com/cosmos/cosmos-sdk/types"
	"github.com/tendermint/tendermint/libs/log"
	tmproto "github.com/tendermint/tendermint/proto/tendermint/types"
	dbm "github.com/tendermint/tm-db"
	"google.golang.org/grpc"
	"k8s.io/client-go/tools/remotecommand"

	"github.com/ovrclk/akash/manifest"
	"github.com/ovrclk/akash/provider"
	"github.com/ovrclk/akash/provider/cluster"
	vclustertypes "github.com/ovrclk/akash/provider/cluster/types"
	pmanifest "github.com/ovrclk/akash/provider/manifest"
	"github.com/ovrclk/akash/testutil"
	vs "github.com/ovrclk/akash/verifsupport"
	vcertkeeper "github.com/ovrclk/akash/x/cert/keeper"
	vcerttypes "github.com/ovrclk/akash/x/cert/types"
	dtypes "github.com/ovrclk/akash/x/deployment/types"
	mtypes "github.com/ovrclk/akash/x/market/types"
)

// ---------------------------------------------------------------------------
// deterministic certificates

type vC09ZeroReader struct{}

func (vC09ZeroReader) Read(p []byte) (int, error) {
	for i := range p {
		p[i] = 0
	}
	return len(p), nil
}

func vC09Key(r *vs.Rand) *ecdsa.PrivateKey {
	curve := elliptic.P256()
	d := new(big.Int).SetBytes(r.Bytes(32))
	n1 := new(big.Int).Sub(curve.Params().N, big.NewInt(1))
	d.Mod(d, n1)
	d.Add(d, big.NewInt(1))
	priv := &ecdsa.PrivateKey{D: d}
	priv.PublicKey.Curve = curve
	priv.PublicKey.X, priv.PublicKey.Y = curve.ScalarBaseMult(d.Bytes())
	return priv
}

// Validity windows are absolute dates, so that certificates (and therefore
// the registry) are a function of the seed and no oracle reads the clock.
// The run date is assumed to lie strictly inside the "current" window.
var (
	vC09CurNB = time.Date(2021, 1, 1, 0, 0, 0, 0, time.UTC)
	vC09CurNA = time.Date(2049, 1, 1, 0, 0, 0, 0, time.UTC)
	vC09ExpNB = time.Date(2019, 1, 1, 0, 0, 0, 0, time.UTC)
	vC09ExpNA = time.Date(2020, 1, 1, 0, 0, 0, 0, time.UTC)
	vC09FutNB = time.Date(2090, 1, 1, 0, 0, 0, 0, time.UTC)
	vC09FutNA = time.Date(2099, 1, 1, 0, 0, 0, 0, time.UTC)
)

func vC09Window(kind string) (time.Time, time.Time) {
	switch kind {
	case "expired":
		return vC09ExpNB, vC09ExpNA
	case "future":
		return vC09FutNB, vC09FutNA
	}
	return vC09CurNB, vC09CurNA
}

type vC09Spec struct {
	CN       string
	Serial   *big.Int
	Window   string // current | expired | future
	Server   bool   // ExtKeyUsage serverAuth only (else clientAuth)
	IsCA     bool
	NoExtras bool
	// FirstCN: the subject carries TWO commonName attributes, this one first
	// and CN last (Go's parser reports the last one as Subject.CommonName)
	FirstCN string
}

func vC09Template(s vC09Spec) *x509.Certificate {
	nb, na := vC09Window(s.Window)
	eku := []x509.ExtKeyUsage{x509.ExtKeyUsageClientAuth}
	if s.Server {
		eku = []x509.ExtKeyUsage{x509.ExtKeyUsageServerAuth}
	}
	t := &x509.Certificate{
		SerialNumber:          s.Serial,
		Subject:               pkix.Name{CommonName: s.CN},
		NotBefore:             nb,
		NotAfter:              na,
		KeyUsage:              x509.KeyUsageDataEncipherment | x509.KeyUsageKeyEncipherment,
		ExtKeyUsage:           eku,
		BasicConstraintsValid: true,
	}
	if !s.NoExtras {
		t.Subject.ExtraNames = []pkix.AttributeTypeAndValue{{Type: testutil.AuthVersionOID, Value: "v0.0.1"}}
	}
	if s.FirstCN != "" {
		cnOID := asn1.ObjectIdentifier{2, 5, 4, 3}
		t.Subject = pkix.Name{ExtraNames: []pkix.AttributeTypeAndValue{{Type: cnOID, Value: s.FirstCN}, {Type: cnOID, Value: s.CN}, {Type: testutil.AuthVersionOID, Value: "v0.0.1"}}}
	}
	if s.IsCA {
		t.IsCA = true
		t.KeyUsage |= x509.KeyUsageCertSign
	}
	return t
}

// vC09SelfSigned returns the DER of a self-signed certificate for key.
func vC09SelfSigned(s vC09Spec, key *ecdsa.PrivateKey) ([]byte, error) {
	t := vC09Template(s)
	return x509.CreateCertificate(vC09ZeroReader{}, t, t, key.Public(), key)
}

// vC09SignedBy returns the DER of a certificate for pub whose issuer is
// parent (name taken from parent's subject) signed with signer.
func vC09SignedBy(s vC09Spec, pub *ecdsa.PublicKey, parent *x509.Certificate, signer *ecdsa.PrivateKey) ([]byte, error) {
	return x509.CreateCertificate(vC09ZeroReader{}, vC09Template(s), parent, pub, signer)
}

func vC09CertPEM(der []byte) []byte {
	return pem.EncodeToMemory(&pem.Block{Type: vcerttypes.PemBlkTypeCertificate, Bytes: der})
}

func vC09KeyPEM(key *ecdsa.PrivateKey) (string, error) {
	if key == nil {
		return "", nil
	}
	der, err := x509.MarshalPKCS8PrivateKey(key)
	if err != nil {
		return "", err
	}
	return string(pem.EncodeToMemory(&pem.Block{Type: "PRIVATE KEY", Bytes: der})), nil
}

func vC09ParseKeyPEM(s string) (*ecdsa.PrivateKey, error) {
	if s == "" {
		return nil, nil
	}
	blk, _ := pem.Decode([]byte(s))
	if blk == nil {
		return nil, fmt.Errorf("no pem block in key")
	}
	k, err := x509.ParsePKCS8PrivateKey(blk.Bytes)
	if err != nil {
		return nil, err
	}
	ek, ok := k.(*ecdsa.PrivateKey)
	if !ok {
		return nil, fmt.Errorf("not an ecdsa key")
	}
	return ek, nil
}

// ---------------------------------------------------------------------------
// on-chain registry: real keeper + the harness's own model of what it put there

type vC09ChainCert struct {
	Owner  string
	Kind   string // valid | valid2 | revoked | expired | future | serverauth | ca
	Serial *big.Int
	DER    []byte
	Key    *ecdsa.PrivateKey
	Parsed *x509.Certificate
	// model attributes, set from how the certificate was built and what was
	// done with it on chain (never read back from the gateway code)
	Revoked    bool
	Window     string
	ClientAuth bool
}

type vC09Acct struct {
	Addr  sdk.AccAddress
	Bech  string
	Key   *ecdsa.PrivateKey
	Key2  *ecdsa.PrivateKey
	Certs map[string]*vC09ChainCert
}

type vC09Registry struct {
	mu       sync.Mutex
	ctx      sdk.Context
	keeper   vcertkeeper.Keeper
	Accts    []*vC09Acct
	Provider sdk.AccAddress
	OtherPrv sdk.AccAddress
	model    map[string][]*vC09ChainCert
	queries  int64
	answered int64
}

var vC09Kinds = []string{"valid", "valid2", "revoked", "expired", "future", "serverauth", "ca", "twocn"}

func vC09BuildRegistry(seed int64) (*vC09Registry, error) {
	key := sdk.NewKVStoreKey(vcerttypes.StoreKey)
	db := dbm.NewMemDB()
	ms := store.NewCommitMultiStore(db)
	ms.MountStoreWithDB(key, sdk.StoreTypeIAVL, db)
	if err := ms.LoadLatestVersion(); err != nil {
		return nil, err
	}
	reg := &vC09Registry{
		ctx:    sdk.NewContext(ms, tmproto.Header{Time: time.Unix(0, 0)}, false, log.NewNopLogger()),
		keeper: vcertkeeper.NewKeeper(vcerttypes.ModuleCdc, key),
		model:  map[string][]*vC09ChainCert{},
	}
	pr := vs.NewRand(seed, 0xC0900)
	reg.Provider = sdk.AccAddress(pr.Bytes(20))
	reg.OtherPrv = sdk.AccAddress(pr.Bytes(20))

	used := map[string]bool{}
	// every account's first valid certificate has the SAME serial number: a
	// certificate is identified by (owner, serial), the serial is chosen by
	// the client and public, so equal serials under different owners are legal
	common := new(big.Int).SetUint64(pr.Uint64()>>2 | 1)
	used[common.String()] = true
	for a := 0; a < 4; a++ {
		r := vs.NewRand(seed, uint64(0xC0910+a))
		acct := &vC09Acct{Addr: sdk.AccAddress(r.Bytes(20)), Certs: map[string]*vC09ChainCert{}}
		acct.Bech = acct.Addr.String()
		acct.Key = vC09Key(r)
		acct.Key2 = vC09Key(r)
		for _, kind := range vC09Kinds {
			var serial *big.Int
			for {
				if kind == "valid2" {
					serial = new(big.Int).SetBytes(r.Bytes(16)) // beyond 64 bits
				} else {
					serial = new(big.Int).SetUint64(r.Uint64()>>2 | 1)
				}
				if serial.Sign() > 0 && !used[serial.String()] {
					break
				}
			}
			if kind == "valid" {
				serial = new(big.Int).Set(common)
			}
			used[serial.String()] = true
			spec := vC09Spec{CN: acct.Bech, Serial: serial, Window: "current"}
			k := acct.Key
			switch kind {
			case "valid2":
				k = acct.Key2
			case "expired":
				spec.Window = "expired"
			case "future":
				spec.Window = "future"
			case "serverauth":
				spec.Server = true
			case "ca":
				spec.IsCA = true
			case "twocn":
				// published by this account, valid in every respect; its subject
				// names the NEXT account in a first commonName attribute
				spec.FirstCN = sdk.AccAddress(vs.NewRand(seed, uint64(0xC0910+(a+1)%4)).Bytes(20)).String()
			}
			der, err := vC09SelfSigned(spec, k)
			if err != nil {
				return nil, err
			}
			parsed, err := x509.ParseCertificate(der)
			if err != nil {
				return nil, err
			}
			pub, err := x509.MarshalPKIXPublicKey(k.Public())
			if err != nil {
				return nil, err
			}
			pubPEM := pem.EncodeToMemory(&pem.Block{Type: vcerttypes.PemBlkTypeECPublicKey, Bytes: pub})
			if err := reg.keeper.CreateCertificate(reg.ctx, acct.Addr, vC09CertPEM(der), pubPEM); err != nil {
				return nil, fmt.Errorf("CreateCertificate %s/%s: %v", acct.Bech, kind, err)
			}
			cc := &vC09ChainCert{Owner: acct.Bech, Kind: kind, Serial: serial, DER: der, Key: k, Parsed: parsed,
				Window: spec.Window, ClientAuth: !spec.Server}
			if kind == "revoked" {
				if err := reg.keeper.RevokeCertificate(reg.ctx, vcerttypes.CertID{Owner: acct.Addr, Serial: *serial}); err != nil {
					return nil, fmt.Errorf("RevokeCertificate: %v", err)
				}
				cc.Revoked = true
			}
			acct.Certs[kind] = cc
			reg.model[acct.Bech] = append(reg.model[acct.Bech], cc)
		}
		reg.Accts = append(reg.Accts, acct)
	}
	ms.Commit()

	// harness self-check: the keeper holds what the model says
	for _, acct := range reg.Accts {
		for _, cc := range acct.Certs {
			got, ok := reg.keeper.GetCertificateByID(reg.ctx, vcerttypes.CertID{Owner: acct.Addr, Serial: *cc.Serial})
			if !ok {
				return nil, fmt.Errorf("registry self-check: %s/%s not stored", acct.Bech, cc.Kind)
			}
			wantState := vcerttypes.CertificateValid
			if cc.Revoked {
				wantState = vcerttypes.CertificateRevoked
			}
			if got.Certificate.State != wantState || !bytes.Equal(got.Certificate.Cert, vC09CertPEM(cc.DER)) {
				return nil, fmt.Errorf("registry self-check: %s/%s stored differently", acct.Bech, cc.Kind)
			}
		}
	}
	return reg, nil
}

// vC09Query adapts the keeper's QueryServer to the QueryClient the gateway
// consumes. Filtering by owner / serial / state is the production querier.
type vC09Query struct{ reg *vC09Registry }

func (q vC09Query) Certificates(_ context.Context, req *vcerttypes.QueryCertificatesRequest, _ ...grpc.CallOption) (*vcerttypes.QueryCertificatesResponse, error) {
	q.reg.mu.Lock()
	defer q.reg.mu.Unlock()
	atomic.AddInt64(&q.reg.queries, 1)
	resp, err := q.reg.keeper.Querier().Certificates(sdk.WrapSDKContext(q.reg.ctx), req)
	if err == nil && resp != nil && len(resp.Certificates) > 0 {
		atomic.AddInt64(&q.reg.answered, 1)
	}
	return resp, err
}

var _ vcerttypes.QueryClient = vC09Query{}

// ---------------------------------------------------------------------------
// recording stubs

type vC09Call struct {
	Method      string `json:"method"`
	Owner       string `json:"owner"`
	Provider    string `json:"provider,omitempty"`
	HasProvider bool   `json:"has_provider"`
	DSeq        uint64 `json:"dseq"`
	GSeq        uint32 `json:"gseq"`
	OSeq        uint32 `json:"oseq"`
	Service     string `json:"service,omitempty"`
	Scoped      bool   `json:"scoped"` // carries an owner (everything except Status/Validate)
}

type vC09Rec struct {
	mu    sync.Mutex
	calls []vC09Call
}

func (r *vC09Rec) add(c vC09Call) {
	r.mu.Lock()
	r.calls = append(r.calls, c)
	r.mu.Unlock()
}

func (r *vC09Rec) lease(method string, id mtypes.LeaseID, svc string) {
	r.add(vC09Call{Method: method, Owner: id.Owner, Provider: id.Provider, HasProvider: true, DSeq: id.DSeq, GSeq: id.GSeq, OSeq: id.OSeq, Service: svc, Scoped: true})
}

func (r *vC09Rec) deployment(method string, id dtypes.DeploymentID) {
	r.add(vC09Call{Method: method, Owner: id.Owner, DSeq: id.DSeq, Scoped: true})
}

func (r *vC09Rec) drain() []vC09Call {
	r.mu.Lock()
	out := r.calls
	r.calls = nil
	r.mu.Unlock()
	return out
}

type vC09Provider struct {
	rec *vC09Rec
	m   *vC09Manifest
	c   *vC09Cluster
}

func (p *vC09Provider) Status(context.Context) (*provider.Status, error) {
	p.rec.add(vC09Call{Method: "Status"})
	return &provider.Status{ClusterPublicHostname: "verif"}, nil
}

func (p *vC09Provider) Validate(context.Context, dtypes.GroupSpec) (provider.ValidateGroupSpecResult, error) {
	p.rec.add(vC09Call{Method: "Validate"})
	return provider.ValidateGroupSpecResult{MinBidPrice: sdk.NewInt64Coin("uakt", 1)}, nil
}

func (p *vC09Provider) Manifest() pmanifest.Client { return p.m }
func (p *vC09Provider) Cluster() cluster.Client    { return p.c }

var _ provider.Client = (*vC09Provider)(nil)

type vC09Manifest struct{ rec *vC09Rec }

func (m *vC09Manifest) Submit(_ context.Context, id dtypes.DeploymentID, _ manifest.Manifest) error {
	m.rec.deployment("Submit", id)
	return nil
}

func (m *vC09Manifest) IsActive(_ context.Context, id dtypes.DeploymentID) (bool, error) {
	m.rec.deployment("IsActive", id)
	return true, nil
}

type vC09ExecResult struct{}

func (vC09ExecResult) ExitCode() int { return 0 }

type vC09Cluster struct{ rec *vC09Rec }

// vC09Tag marks everything a stub returns with the lease it was asked about,
// so that a client can tell whose lease its response was derived from.
func vC09Tag(id mtypes.LeaseID) string {
	return fmt.Sprintf("verif-lease-tag:%s/%d/%d/%d/%s;", id.Owner, id.DSeq, id.GSeq, id.OSeq, id.Provider)
}

func (c *vC09Cluster) LeaseStatus(_ context.Context, id mtypes.LeaseID) (*vclustertypes.LeaseStatus, error) {
	c.rec.lease("LeaseStatus", id, "")
	tag := vC09Tag(id)
	return &vclustertypes.LeaseStatus{Services: map[string]*vclustertypes.ServiceStatus{tag: {Name: tag}}}, nil
}

func (c *vC09Cluster) LeaseEvents(_ context.Context, id mtypes.LeaseID, svc string, _ bool) (vclustertypes.EventsWatcher, error) {
	c.rec.lease("LeaseEvents", id, svc)
	return nil, nil
}

func (c *vC09Cluster) LeaseLogs(_ context.Context, id mtypes.LeaseID, svc string, _ bool, _ *int64) ([]*vclustertypes.ServiceLog, error) {
	c.rec.lease("LeaseLogs", id, svc)
	stream := ioutil.NopCloser(strings.NewReader(vC09Tag(id) + "\n"))
	return []*vclustertypes.ServiceLog{{Name: "web", Stream: stream, Scanner: bufio.NewScanner(stream)}}, nil
}

func (c *vC09Cluster) ServiceStatus(_ context.Context, id mtypes.LeaseID, svc string) (*vclustertypes.ServiceStatus, error) {
	c.rec.lease("ServiceStatus", id, svc)
	return &vclustertypes.ServiceStatus{Name: vC09Tag(id)}, nil
}

func (c *vC09Cluster) Deploy(_ context.Context, id mtypes.LeaseID, _ *manifest.Group) error {
	c.rec.lease("Deploy", id, "")
	return nil
}

func (c *vC09Cluster) TeardownLease(_ context.Context, id mtypes.LeaseID) error {
	c.rec.lease("TeardownLease", id, "")
	return nil
}

func (c *vC09Cluster) Deployments(context.Context) ([]vclustertypes.Deployment, error) {
	c.rec.add(vC09Call{Method: "Deployments"})
	return nil, nil
}

func (c *vC09Cluster) Inventory(context.Context) ([]vclustertypes.Node, error) {
	c.rec.add(vC09Call{Method: "Inventory"})
	return nil, nil
}

func (c *vC09Cluster) Exec(_ context.Context, id mtypes.LeaseID, svc string, _ uint, _ []string, _ io.Reader, _ io.Writer, _ io.Writer, _ bool, _ remotecommand.TerminalSizeQueue) (vclustertypes.ExecResult, error) {
	c.rec.lease("Exec", id, svc)
	return vC09ExecResult{}, nil
}

var _ cluster.Client = (*vC09Cluster)(nil)

// ---------------------------------------------------------------------------
// the real gateway server

type vC09Server struct {
	srv  *http.Server
	addr string
	rec  *vC09Rec
}

func vC09StartServer(t *testing.T, reg *vC09Registry, certs []tls.Certificate) (*vC09Server, error) {
	rec := &vC09Rec{}
	pc := &vC09Provider{rec: rec, m: &vC09Manifest{rec: rec}, c: &vC09Cluster{rec: rec}}
	srv, err := NewServer(context.Background(), log.NewNopLogger(), pc, vC09Query{reg: reg}, "127.0.0.1:0", reg.Provider, certs)
	if err != nil {
		return nil, err
	}
	// handshake rejections are expected by the thousand; keep them out of the log
	srv.ErrorLog = stdlog.New(ioutil.Discard, "", 0)
	ln, err := net.Listen("tcp", "127.0.0.1:0")
	if err != nil {
		return nil, err
	}
	go func() { _ = srv.ServeTLS(ln, "", "") }()
	return &vC09Server{srv: srv, addr: ln.Addr().String(), rec: rec}, nil
}

func (s *vC09Server) close() { _ = s.srv.Close() }

// ---------------------------------------------------------------------------
// raw TLS 1.3 client

type vC09Req struct {
	Method  string      `json:"method"`
	Target  string      `json:"target"` // request-target exactly as put on the wire
	Headers [][2]string `json:"headers,omitempty"`
	Body    string      `json:"body,omitempty"`
	WS      bool        `json:"websocket_upgrade"`
}

func (r vC09Req) Line() string { return r.Method + " " + r.Target + " HTTP/1.1" }

type vC09Obs struct {
	Outcome string // tls-rejected | conn-closed | timeout | connect-error | http-<code>
	Status  int
	Err     string
	TLS13   bool
	Body    string // first 16 KiB of the response body / websocket stream
}

func vC09Do(addr string, chain [][]byte, key *ecdsa.PrivateKey, rq vC09Req) vC09Obs {
	cfg := &tls.Config{
		InsecureSkipVerify: true, // nolint: gosec // the server side is not what C09 is about
		MinVersion:         tls.VersionTLS13,
		MaxVersion:         tls.VersionTLS13,
		ServerName:         "localhost",
	}
	if len(chain) > 0 {
		crt := &tls.Certificate{Certificate: chain, PrivateKey: key}
		cfg.GetClientCertificate = func(*tls.CertificateRequestInfo) (*tls.Certificate, error) { return crt, nil }
	}
	conn, err := tls.DialWithDialer(&net.Dialer{Timeout: 20 * time.Second}, "tcp", addr, cfg)
	if err != nil {
		return vC09Obs{Outcome: "connect-error", Err: err.Error()}
	}
	defer conn.Close()
	obs := vC09Obs{TLS13: conn.ConnectionState().Version == tls.VersionTLS13}
	_ = conn.SetDeadline(time.Now().Add(20 * time.Second))

	var b bytes.Buffer
	fmt.Fprintf(&b, "%s %s HTTP/1.1\r\n", rq.Method, rq.Target)
	hasHost := false
	for _, h := range rq.Headers {
		if strings.EqualFold(h[0], "Host") {
			hasHost = true
		}
	}
	if !hasHost {
		fmt.Fprintf(&b, "Host: %s\r\n", addr)
	}
	for _, h := range rq.Headers {
		fmt.Fprintf(&b, "%s: %s\r\n", h[0], h[1])
	}
	if rq.WS {
		b.WriteString("Upgrade: websocket\r\nConnection: Upgrade\r\nSec-WebSocket-Version: 13\r\n")
		fmt.Fprintf(&b, "Sec-WebSocket-Key: %s\r\n", base64.StdEncoding.EncodeToString([]byte("verif-c09-ws-key")))
	} else {
		b.WriteString("Connection: close\r\n")
	}
	if rq.Body != "" || rq.Method == "PUT" || rq.Method == "POST" {
		fmt.Fprintf(&b, "Content-Length: %d\r\n", len(rq.Body))
	}
	b.WriteString("\r\n")
	b.WriteString(rq.Body)

	classify := func(err error) vC09Obs {
		obs.Err = err.Error()
		if ne, ok := err.(net.Error); ok && ne.Timeout() {
			obs.Outcome = "timeout"
		} else if strings.Contains(obs.Err, "tls:") {
			obs.Outcome = "tls-rejected"
		} else {
			obs.Outcome = "conn-closed"
		}
		return obs
	}

	_, werr := conn.Write(b.Bytes())
	br := bufio.NewReader(conn)
	resp, err := http.ReadResponse(br, &http.Request{Method: rq.Method})
	if err != nil {
		if werr != nil && !strings.Contains(err.Error(), "tls:") && strings.Contains(werr.Error(), "tls:") {
			return classify(werr)
		}
		return classify(err)
	}
	obs.Status = resp.StatusCode
	obs.Outcome = fmt.Sprintf("http-%d", resp.StatusCode)
	if resp.StatusCode == http.StatusSwitchingProtocols {
		// the handler calls its stub after the upgrade and closes the
		// connection when done: wait for that
		var keep bytes.Buffer
		if _, err := io.Copy(&vC09Head{b: &keep, max: 16 << 10}, br); err != nil {
			if ne, ok := err.(net.Error); ok && ne.Timeout() {
				obs.Outcome = "timeout"
				obs.Err = err.Error()
			}
		}
		obs.Body = keep.String()
		return obs
	}
	var keep bytes.Buffer
	_, err = io.Copy(&vC09Head{b: &keep, max: 16 << 10}, io.LimitReader(resp.Body, 1<<20))
	obs.Body = keep.String()
	_ = resp.Body.Close()
	if err != nil {
		if ne, ok := err.(net.Error); ok && ne.Timeout() {
			obs.Outcome = "timeout"
			obs.Err = err.Error()
		}
	}
	return obs
}

// vC09Head keeps the first max bytes written to it and discards the rest.
type vC09Head struct {
	b   *bytes.Buffer
	max int
}

func (h *vC09Head) Write(p []byte) (int, error) {
	if room := h.max - h.b.Len(); room > 0 {
		if len(p) <= room {
			h.b.Write(p)
		} else {
			h.b.Write(p[:room])
		}
	}
	return len(p), nil
}
