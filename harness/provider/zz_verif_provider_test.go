//go:build verif
// +build verif

package provider

// The whole provider, end to end (stage "provider" of C13, C14 and C20).
//
// provider.NewService wires the real cluster service (inventory, hostname
// service, deployment managers), the real bid engine and the real manifest
// service on one real bus.  The harness plays the rest of the world:
//
//   - the chain: queries are scripted calls answered by a responder; a
//     create-bid that has landed is followed - as the chain would - by a
//     lease-created event for this provider (won), for another provider
//     (lost) or by an order-closed event, per the order's plan;
//   - the tenants: after their lease is won they submit their manifest through
//     the provider's manifest client, perhaps a second version after an
//     update event, and close the lease (or the deployment) at a planned
//     point;
//   - the cluster: Deploy / TeardownLease are scripted calls (success, one
//     deploy failure, one teardown failure), Inventory reports two roomy nodes.
//
// Several orders are in flight at once.  At the end every component has
// settled; the call log, the replies and the inventory status are judged by
// clauses of three properties that only make sense end to end:
//
//   C13: at most one bid per order, not above the maximum; a bid that did not
//        win is closed; the inventory holds no reservation for an order that
//        was not won (or whose lease has been closed) - counted on the real
//        inventory, not on calls.
//   C14: cluster operations of one lease never overlap; a closed lease is torn
//        down after its last deploy; no deploy starts after the teardown.
//   C20: every submission returns; whatever is deployed for a lease is a
//        manifest whose submission was accepted for that deployment.

import (
	"bytes"
	"context"
	"errors"
	"fmt"
	"runtime"
	"sort"
	"strings"
	"sync"
	"sync/atomic"
	"testing"
	"time"

	sdkclient "github.com/cosmos/cosmos-sdk/client"
	sdk "github.com/cosmos/cosmos-sdk/types"

	"github.com/ovrclk/akash/manifest"
	"github.com/ovrclk/akash/provider/cluster"
	ctypes "github.com/ovrclk/akash/provider/cluster/types"
	"github.com/ovrclk/akash/pubsub"
	"github.com/ovrclk/akash/sdl"
	atypes "github.com/ovrclk/akash/types"
	vs "github.com/ovrclk/akash/verifsupport"
	"github.com/ovrclk/akash/verifsupport/venv"
	dtypes "github.com/ovrclk/akash/x/deployment/types"
	mtypes "github.com/ovrclk/akash/x/market/types"
	ptypes "github.com/ovrclk/akash/x/provider/types"
)

var vPStuckSeen int32

const (
	vPDeploy    = "deploy"
	vPTeardown  = "teardown"
	vPInventory = "inventory"
	vPPrice     = "price"
	vPCreateBid = venv.KBroadcast + ":" + mtypes.MsgTypeCreateBid
	vPCloseBid  = venv.KBroadcast + ":" + mtypes.MsgTypeCloseBid
	vPWithdraw  = venv.KBroadcast + ":" + mtypes.MsgTypeWithdrawLease
	vPTimeout   = 20 * time.Second
)

const vPSDL = `---
version: "2.0"
services:
  web:
    image: %s
    expose:
      - port: 80
        to:
          - global: true
        accept:
          - %s
profiles:
  compute:
    web:
      resources:
        cpu:
          units: "100m"
        memory:
          size: "128Mi"
        storage:
          size: "512Mi"
  placement:
    global:
      pricing:
        web:
          denom: uakt
          amount: 30
deployment:
  web:
    global:
      profile: web
      count: 1
`

type vPOrder struct {
	Idx              int    `json:"idx"`
	Owner            string `json:"owner"`
	DSeq             uint64 `json:"dseq"`
	Outcome          string `json:"outcome"`            // won | lost | order-closed | none
	Manifest         string `json:"manifest,omitempty"` // valid | wrong-version | none (won only)
	Update           bool   `json:"update,omitempty"`   // a second version after the first was accepted
	Close            string `json:"close,omitempty"`    // lease-closed | deployment-closed | none (won only)
	CloseAt          string `json:"close_at,omitempty"` // before-manifest | during-deploy | after-deploy
	DeployFail       bool   `json:"deploy_fails_once,omitempty"`
	TeardownFailOnce bool   `json:"teardown_fails_once,omitempty"`
}

func (o vPOrder) class() string {
	p := []string{o.Outcome}
	if o.Outcome == "won" {
		p = append(p, "manifest="+o.Manifest)
		if o.Update {
			p = append(p, "update")
		}
		p = append(p, "close="+o.Close)
		if o.Close != "none" {
			p = append(p, "at="+o.CloseAt)
		}
		if o.DeployFail {
			p = append(p, "deploy-fails")
		}
		if o.TeardownFailOnce {
			p = append(p, "teardown-fails-once")
		}
	}
	return strings.Join(p, ",")
}

type vPSub struct {
	Order   int    `json:"order"`
	Version int    `json:"version"`
	Reply   string `json:"reply"` // "" never returned
}

type vPRun struct {
	Index  int               `json:"index"`
	Orders []vPOrder         `json:"orders"`
	Subs   []*vPSub          `json:"submissions"`
	Calls  []vs.GateCallView `json:"calls,omitempty"`
	Notes  []string          `json:"notes,omitempty"`
	// inventory at the end
	Pending int    `json:"reservations_pending_at_end"`
	Active  int    `json:"reservations_active_at_end"`
	Leases  uint32 `json:"deployment_managers_at_end"`
}

type vPViolation struct{ Prop, Rule, Trigger, Detail string }

// per-order material
type vPKit struct {
	o      *vPOrder
	oid    mtypes.OrderID
	did    dtypes.DeploymentID
	group  dtypes.Group
	man    [3]manifest.Manifest // 1, 2
	ver    [3][]byte
	curVer int32
	// facts
	bidLanded   int32
	leaseWonPub int32
	closedPub   int64 // stamp
	accepted    [3]int32
}

type vPCluster struct {
	cluster.Client
	g *vs.Gates
}

type vPDeployArg struct {
	Lease mtypes.LeaseID
	Group *manifest.Group
}

func (c *vPCluster) Deploy(ctx context.Context, lid mtypes.LeaseID, mg *manifest.Group) error {
	_, err := c.g.Enter(vPDeploy, vPDeployArg{lid, mg})
	return err
}

func (c *vPCluster) TeardownLease(ctx context.Context, lid mtypes.LeaseID) error {
	_, err := c.g.Enter(vPTeardown, lid)
	return err
}

func (c *vPCluster) LeaseStatus(ctx context.Context, lid mtypes.LeaseID) (*ctypes.LeaseStatus, error) {
	return &ctypes.LeaseStatus{Services: map[string]*ctypes.ServiceStatus{}}, nil
}

func (c *vPCluster) Inventory(ctx context.Context) ([]ctypes.Node, error) {
	v, err := c.g.Enter(vPInventory, nil)
	if err != nil {
		return nil, err
	}
	return v.([]ctypes.Node), nil
}

type vPPricing struct{ g *vs.Gates }

func (p *vPPricing) CalculatePrice(ctx context.Context, owner string, gspec *dtypes.GroupSpec) (sdk.Coin, error) {
	v, err := p.g.Enter(vPPrice, owner)
	if err != nil {
		return sdk.Coin{}, err
	}
	return v.(sdk.Coin), nil
}

func vPPlan(r *vs.Rand, idx int) *vPRun {
	run := &vPRun{Index: idx}
	n := r.Range(2, 4)
	for i := 0; i < n; i++ {
		o := vPOrder{Idx: i, DSeq: []uint64{1, 12, 123, 7}[i],
			Owner: sdk.AccAddress([]byte(fmt.Sprintf("verif-tenant-%07d", i))).String()}
		o.Outcome = []string{"won", "won", "won", "lost", "order-closed", "none"}[r.Intn(6)]
		if o.Outcome == "won" {
			o.Manifest = []string{"valid", "valid", "valid", "wrong-version", "none"}[r.Intn(5)]
			o.Update = o.Manifest == "valid" && r.Chance(1, 3)
			o.Close = []string{"lease-closed", "lease-closed", "deployment-closed", "none"}[r.Intn(4)]
			o.CloseAt = []string{"before-manifest", "during-deploy", "after-deploy"}[r.Intn(3)]
			o.DeployFail = r.Chance(1, 6)
			o.TeardownFailOnce = r.Chance(1, 6)
		}
		run.Orders = append(run.Orders, o)
	}
	return run
}

func vPNodes() []ctypes.Node {
	ru := func(c, m, s uint64) atypes.ResourceUnits {
		return atypes.ResourceUnits{CPU: &atypes.CPU{Units: atypes.NewResourceValue(c)}, Memory: &atypes.Memory{Quantity: atypes.NewResourceValue(m)}, Storage: &atypes.Storage{Quantity: atypes.NewResourceValue(s)}}
	}
	return []ctypes.Node{cluster.NewNode("n0", ru(64000, 1<<40, 1<<42), ru(64000, 1<<40, 1<<42)), cluster.NewNode("n1", ru(64000, 1<<40, 1<<42), ru(64000, 1<<40, 1<<42))}
}

func vRunProvider(run *vPRun, seed int64) []vPViolation {
	var viol []vPViolation
	var mu sync.Mutex
	note := func(f string, a ...interface{}) {
		mu.Lock()
		run.Notes = append(run.Notes, fmt.Sprintf(f, a...))
		mu.Unlock()
	}
	_ = vs.NewRand
	g := vs.NewGates()
	bus := venv.QuietBus(pubsub.NewBus())
	prov := sdk.AccAddress([]byte("verif-provider-00000"))
	other := sdk.AccAddress([]byte("verif-provider-99999"))

	kits := make([]*vPKit, len(run.Orders))
	byOwner := map[string]*vPKit{}
	for i := range run.Orders {
		o := &run.Orders[i]
		k := &vPKit{o: o, curVer: 1}
		k.did = dtypes.DeploymentID{Owner: o.Owner, DSeq: o.DSeq}
		k.oid = mtypes.OrderID{Owner: o.Owner, DSeq: o.DSeq, GSeq: 1, OSeq: 1}
		for v := 1; v <= 2; v++ {
			s, err := sdl.Read([]byte(fmt.Sprintf(vPSDL, fmt.Sprintf("img-%d:%d", i, v), fmt.Sprintf("h%d.tenant%d.example.com", v, i))))
			if err != nil {
				note("sdl: %v", err)
				return nil
			}
			m, err := s.Manifest()
			if err != nil {
				note("manifest: %v", err)
				return nil
			}
			k.man[v] = m
			k.ver[v], _ = sdl.ManifestVersion(m)
			if v == 1 {
				gs, err := s.DeploymentGroups()
				if err != nil || len(gs) != 1 {
					note("groups: %v", err)
					return nil
				}
				k.group = dtypes.Group{GroupID: k.oid.GroupID(), State: dtypes.GroupOpen, GroupSpec: *gs[0]}
			}
		}
		kits[i] = k
		byOwner[o.Owner] = k
	}
	kitOf := func(owner string, dseq uint64) *vPKit {
		if k := byOwner[owner]; k != nil && k.o.DSeq == dseq {
			return k
		}
		return nil
	}

	g.Auto(vPInventory, func(interface{}) (interface{}, error) { return vPNodes(), nil })
	g.Auto(vPWithdraw, func(interface{}) (interface{}, error) { return nil, nil })
	g.Auto(vPCloseBid, func(interface{}) (interface{}, error) { return nil, nil })
	g.Auto(vPPrice, func(interface{}) (interface{}, error) { return sdk.NewInt64Coin("uakt", 20), nil })
	g.Auto(venv.KQueryBid, func(interface{}) (interface{}, error) {
		return nil, errors.New("rpc error: code = NotFound desc = bid not found: invalid request")
	})
	g.Auto(venv.KQueryGroup, func(arg interface{}) (interface{}, error) {
		id, _ := arg.(dtypes.GroupID)
		if k := kitOf(id.Owner, id.DSeq); k != nil {
			return &dtypes.QueryGroupResponse{Group: k.group}, nil
		}
		return nil, errors.New("scripted: unknown group")
	})
	g.Auto(venv.KQueryDeployment, func(arg interface{}) (interface{}, error) {
		id, _ := arg.(dtypes.DeploymentID)
		if k := kitOf(id.Owner, id.DSeq); k != nil {
			v := atomic.LoadInt32(&k.curVer)
			return &dtypes.QueryDeploymentResponse{
				Deployment: dtypes.Deployment{DeploymentID: k.did, State: dtypes.DeploymentActive, Version: append([]byte(nil), k.ver[v]...)},
				Groups:     []dtypes.Group{k.group},
			}, nil
		}
		return nil, errors.New("scripted: unknown deployment")
	})

	// the responder: bids, deploys, teardowns
	stop := make(chan struct{})
	var wg sync.WaitGroup
	var quick int32
	failedDeploy := map[string]bool{}
	failedTeardown := map[string]bool{}
	leaseOf := func(k *vPKit) mtypes.LeaseID { return mtypes.MakeLeaseID(mtypes.MakeBidID(k.oid, prov)) }
	wg.Add(1)
	go func() {
		defer wg.Done()
		rr := vs.NewRand(seed, uint64(run.Index)*11+1)
		for {
			select {
			case <-stop:
				return
			default:
			}
			for _, c := range g.AnyPending() {
				if atomic.LoadInt32(&quick) == 0 && rr.Chance(1, 3) {
					continue
				}
				switch c.Kind {
				case vPCreateBid:
					msgs, _ := c.Arg.([]sdk.Msg)
					var k *vPKit
					if len(msgs) == 1 {
						if m, ok := msgs[0].(*mtypes.MsgCreateBid); ok {
							k = kitOf(m.Order.Owner, m.Order.DSeq)
						}
					}
					g.Release(c, nil, nil)
					g.WaitEnded(c, vPTimeout)
					if k == nil || !atomic.CompareAndSwapInt32(&k.bidLanded, 0, 1) {
						continue
					}
					// the chain's answer to a landed bid
					switch k.o.Outcome {
					case "won":
						atomic.StoreInt32(&k.leaseWonPub, 1)
						_ = bus.Publish(mtypes.NewEventLeaseCreated(leaseOf(k), sdk.NewInt64Coin("uakt", 20)))
					case "lost":
						_ = bus.Publish(mtypes.NewEventLeaseCreated(mtypes.MakeLeaseID(mtypes.MakeBidID(k.oid, other)), sdk.NewInt64Coin("uakt", 19)))
					case "order-closed":
						_ = bus.Publish(mtypes.NewEventOrderClosed(k.oid))
					}
				case vPDeploy:
					a, _ := c.Arg.(vPDeployArg)
					k := kitOf(a.Lease.Owner, a.Lease.DSeq)
					key := fmt.Sprint(a.Lease.DSeq)
					if k != nil && k.o.DeployFail && !failedDeploy[key] {
						failedDeploy[key] = true
						g.Release(c, nil, errors.New("scripted deploy failure"))
						continue
					}
					g.Release(c, nil, nil)
				case vPTeardown:
					lid, _ := c.Arg.(mtypes.LeaseID)
					k := kitOf(lid.Owner, lid.DSeq)
					key := fmt.Sprint(lid.DSeq)
					if k != nil && k.o.TeardownFailOnce && !failedTeardown[key] {
						failedTeardown[key] = true
						g.Release(c, nil, errors.New("scripted teardown failure"))
						continue
					}
					g.Release(c, nil, nil)
				}
			}
			if rr.Bool() {
				runtime.Gosched()
			} else {
				time.Sleep(time.Duration(rr.Intn(80)) * time.Microsecond)
			}
		}
	}()

	ctx, cancel := context.WithCancel(context.Background())
	defer cancel()
	sess := venv.NewSession(g, &ptypes.Provider{Owner: prov.String(), Attributes: atypes.Attributes{{Key: "region", Value: "a"}}})
	cfg := NewDefaultConfig()
	cfg.BidPricingStrategy = &vPPricing{g: g}
	cfg.BidDeposit = sdk.NewInt64Coin("uakt", 5000000)
	cfg.ClusterWaitReadyDuration = vPTimeout
	cfg.ClusterExternalPortQuantity = 100
	cfg.InventoryResourcePollPeriod = time.Hour
	cfg.InventoryResourceDebugFrequency = 1 << 30
	cfg.CPUCommitLevel, cfg.MemoryCommitLevel, cfg.StorageCommitLevel = 1, 1, 1
	cfg.BalanceCheckerCfg = BalanceCheckerConfig{PollingPeriod: time.Hour, WithdrawalPeriod: time.Hour, MinimumBalanceThreshold: 1}
	svcI, err := NewService(ctx, sdkclient.Context{}, prov, sess, bus, &vPCluster{Client: cluster.NullClient(), g: g}, cfg)
	if err != nil {
		note("NewService: %v", err)
		close(stop)
		wg.Wait()
		return nil
	}
	svc := svcI.(*service)

	// the tenants
	// pto: the bound of a wait for the provider to answer.  Once one such wait
	// has run out in this process (a component is stuck: the verdict exists) the
	// later ones are short.
	pto := func() time.Duration {
		if atomic.LoadInt32(&vPStuckSeen) != 0 {
			return time.Second
		}
		return vPTimeout
	}
	stuck := func() { atomic.StoreInt32(&vPStuckSeen, 1) }
	// status with a bound: a dead-locked component never answers its status query
	statusOf := func() (*Status, error) {
		sctx, scancel := context.WithTimeout(ctx, 3*time.Second)
		defer scancel()
		return svc.Status(sctx)
	}
	wait := func(cond func() bool, d time.Duration) bool {
		dl := time.Now().Add(d)
		for !cond() {
			if time.Now().After(dl) {
				return false
			}
			time.Sleep(60 * time.Microsecond)
		}
		return true
	}
	deployCalls := func(k *vPKit, ended bool) int {
		n := 0
		for _, c := range g.Calls() {
			if a, ok := c.Arg.(vPDeployArg); ok && c.Kind == vPDeploy && a.Lease.DSeq == k.o.DSeq && a.Lease.Owner == k.o.Owner {
				if !ended || c.End != 0 {
					n++
				}
			}
		}
		return n
	}
	submit := func(k *vPKit, version int) *vPSub {
		sb := &vPSub{Order: k.o.Idx, Version: version}
		mu.Lock()
		run.Subs = append(run.Subs, sb)
		mu.Unlock()
		done := make(chan struct{})
		go func() {
			defer close(done)
			err := svc.Manifest().Submit(context.Background(), k.did, k.man[version])
			rep := "nil"
			if err != nil {
				rep = err.Error()
			} else {
				atomic.StoreInt32(&k.accepted[version], 1)
			}
			mu.Lock()
			sb.Reply = rep
			mu.Unlock()
		}()
		select {
		case <-done:
		case <-time.After(pto()):
			stuck()
		}
		return sb
	}
	closeLease := func(k *vPKit) {
		atomic.StoreInt64(&k.closedPub, g.Stamp())
		if k.o.Close == "deployment-closed" {
			_ = bus.Publish(dtypes.NewEventDeploymentClosed(k.did))
		}
		// the chain closes the lease in both cases
		_ = bus.Publish(mtypes.NewEventLeaseClosed(leaseOf(k), sdk.NewInt64Coin("uakt", 20)))
	}
	var twg sync.WaitGroup
	for _, k := range kits {
		k := k
		tr := vs.NewRand(seed, uint64(run.Index)*101+uint64(k.o.Idx))
		twg.Add(1)
		go func() {
			defer twg.Done()
			time.Sleep(time.Duration(tr.Intn(300)) * time.Microsecond)
			_ = bus.Publish(mtypes.NewEventOrderCreated(k.oid))
			if k.o.Outcome != "won" {
				return
			}
			if !wait(func() bool { return atomic.LoadInt32(&k.leaseWonPub) != 0 }, pto()) {
				note("order %d: no bid landed", k.o.Idx)
				return
			}
			if k.o.Close != "none" && k.o.CloseAt == "before-manifest" {
				closeLease(k)
			}
			time.Sleep(time.Duration(tr.Intn(300)) * time.Microsecond)
			switch k.o.Manifest {
			case "valid":
				submit(k, 1)
			case "wrong-version":
				submit(k, 2) // the chain says version 1
			}
			if k.o.Close != "none" && k.o.CloseAt == "during-deploy" {
				wait(func() bool { return deployCalls(k, false) > 0 }, 2*time.Second)
				closeLease(k)
			}
			if k.o.Update && atomic.LoadInt32(&k.accepted[1]) != 0 {
				wait(func() bool { return deployCalls(k, true) > 0 }, 2*time.Second)
				atomic.StoreInt32(&k.curVer, 2)
				_ = bus.Publish(dtypes.NewEventDeploymentUpdated(k.did, k.ver[2]))
				time.Sleep(time.Duration(tr.Intn(200)) * time.Microsecond)
				submit(k, 2)
			}
			if k.o.Close != "none" && k.o.CloseAt == "after-deploy" {
				wait(func() bool { return deployCalls(k, true) > 0 }, 2*time.Second)
				time.Sleep(time.Duration(tr.Intn(300)) * time.Microsecond)
				closeLease(k)
			}
		}()
	}
	tdone := make(chan struct{})
	go func() { twg.Wait(); close(tdone) }()
	tenantsDone := true
	select {
	case <-tdone:
	case <-time.After(3 * pto()):
		stuck()
		tenantsDone = false
		note("the tenants' scripts did not finish")
	}

	// quiescence: nothing scripted pending, the log stable, and the inventory
	// at its expected level
	atomic.StoreInt32(&quick, 1)
	// an order's reservation is outstanding iff its bid landed, the chain has
	// not decided against it, its lease has not been closed and no deploy of
	// it has failed (a failed deploy ends in a teardown, which releases it)
	expected := func() int {
		n := 0
		for _, k := range kits {
			if atomic.LoadInt32(&k.bidLanded) == 0 || k.o.Outcome == "lost" || k.o.Outcome == "order-closed" || atomic.LoadInt64(&k.closedPub) != 0 {
				continue
			}
			failed := false
			for _, c := range g.Calls() {
				if a, ok := c.Arg.(vPDeployArg); ok && c.Kind == vPDeploy && a.Lease.Owner == k.o.Owner && a.Lease.DSeq == k.o.DSeq && c.End != 0 && c.Err != "" {
					failed = true
				}
			}
			if !failed {
				n++
			}
		}
		return n
	}
	var status *Status
	last, stable := -1, 0
	wait(func() bool {
		n := len(g.Calls())
		if len(g.AnyPending()) == 0 && n == last {
			stable++
		} else {
			stable = 0
		}
		last = n
		if stable < 30 {
			return false
		}
		st, err := statusOf()
		if err != nil {
			return false
		}
		status = st
		return len(st.Cluster.Inventory.Pending)+len(st.Cluster.Inventory.Active) == expected()
	}, 8*time.Second)
	if st, err := statusOf(); err == nil {
		status = st
	}
	if status != nil {
		run.Pending, run.Active = len(status.Cluster.Inventory.Pending), len(status.Cluster.Inventory.Active)
		run.Leases = status.Cluster.Leases
	}
	expectOutstanding := expected()
	// hostnames of closed leases can be reserved by somebody else again
	hostFree := map[int]bool{}
	for _, k := range kits {
		if k.o.Outcome != "won" || atomic.LoadInt64(&k.closedPub) == 0 {
			continue
		}
		free := true
		for v := 1; v <= 2; v++ {
			if atomic.LoadInt32(&k.accepted[v]) == 0 {
				continue
			}
			host := fmt.Sprintf("h%d.tenant%d.example.com", v, k.o.Idx)
			select {
			case e := <-svc.cluster.HostnameService().CanReserveHostnames([]string{host}, dtypes.DeploymentID{Owner: k.o.Owner, DSeq: 9999}):
				if e != nil {
					free = false
				}
			case <-time.After(5 * time.Second):
			}
		}
		hostFree[k.o.Idx] = free
	}
	calls := g.Calls()
	run.Calls = g.Log()
	for i := range run.Calls {
		run.Calls[i].Arg = ""
	}

	// shut down
	go func() { _ = svc.Close() }()
	select {
	case <-svc.Done():
		bus.Close()
	case <-time.After(pto()):
		stuck()
		note("the provider service did not shut down")
	}
	close(stop)
	wg.Wait()
	g.ReleaseAll(func(c *vs.GateCall) (interface{}, error) { return nil, errors.New("scripted: run over") })

	if !tenantsDone || status == nil {
		return viol
	}
	bad := func(prop, rule, trig, detail string) {
		viol = append(viol, vPViolation{prop, rule, trig, detail})
	}
	// ---- C13
	for _, k := range kits {
		var creates, closes []*vs.GateCall
		for _, c := range calls {
			msgs, _ := c.Arg.([]sdk.Msg)
			if len(msgs) != 1 {
				continue
			}
			switch m := msgs[0].(type) {
			case *mtypes.MsgCreateBid:
				if m.Order.Equals(k.oid) {
					creates = append(creates, c)
					if m.Price.Denom != "uakt" || m.Price.Amount.GT(k.group.GroupSpec.Price().Amount) {
						bad("C13", "bid-never-above-order-maximum", k.o.class(), fmt.Sprintf("order %d: bid price %s above the maximum %s", k.o.Idx, m.Price, k.group.GroupSpec.Price()))
					}
				}
			case *mtypes.MsgCloseBid:
				if m.BidID.OrderID().Equals(k.oid) {
					closes = append(closes, c)
				}
			}
		}
		if len(creates) > 1 {
			bad("C13", "at-most-one-bid", k.o.class(), fmt.Sprintf("order %d: %d create-bid transactions", k.o.Idx, len(creates)))
		}
		if (k.o.Outcome == "lost" || k.o.Outcome == "order-closed") && atomic.LoadInt32(&k.bidLanded) != 0 && len(closes) == 0 {
			bad("C13", "bid-closed-when-not-won", k.o.class(), fmt.Sprintf("order %d (%s): a bid was placed, no close-bid was submitted", k.o.Idx, k.o.Outcome))
		}
	}
	if run.Pending+run.Active != expectOutstanding {
		var cl []string
		for _, k := range kits {
			cl = append(cl, k.o.class())
		}
		sort.Strings(cl)
		bad("C13", "reservations-equal-open-won-leases", strings.Join(cl, " | "), fmt.Sprintf("the inventory holds %d pending + %d active reservations; orders whose reservation should be outstanding (won and not closed, or bid still undecided): %d", run.Pending, run.Active, expectOutstanding))
	}
	// ---- C14
	for _, k := range kits {
		if k.o.Outcome != "won" {
			continue
		}
		var deploys, teardowns []*vs.GateCall
		for _, c := range calls {
			switch a := c.Arg.(type) {
			case vPDeployArg:
				if c.Kind == vPDeploy && a.Lease.Owner == k.o.Owner && a.Lease.DSeq == k.o.DSeq {
					deploys = append(deploys, c)
				}
			case mtypes.LeaseID:
				if c.Kind == vPTeardown && a.Owner == k.o.Owner && a.DSeq == k.o.DSeq {
					teardowns = append(teardowns, c)
				}
			}
		}
		ops := append(append([]*vs.GateCall(nil), deploys...), teardowns...)
		for i := range ops {
			for j := range ops {
				if i < j && ops[i].End != 0 && ops[j].End != 0 && ops[i].Start < ops[j].End && ops[j].Start < ops[i].End {
					bad("C14", "cluster-operations-never-overlap", k.o.class(), fmt.Sprintf("lease of order %d: %s@%d-%d overlaps %s@%d-%d", k.o.Idx, ops[i].Kind, ops[i].Start, ops[i].End, ops[j].Kind, ops[j].Start, ops[j].End))
				}
			}
		}
		closed := atomic.LoadInt64(&k.closedPub)
		if free, ok := hostFree[k.o.Idx]; ok && !free && run.Leases == 0 {
			bad("C14", "hostnames-released-after-close", k.o.class(), fmt.Sprintf("lease of order %d was closed and no deployment manager is left, but its hostname cannot be reserved by another deployment", k.o.Idx))
		}
		if closed != 0 && len(deploys) > 0 {
			if len(teardowns) == 0 {
				bad("C14", "closed-lease-is-torn-down", k.o.class(), fmt.Sprintf("lease of order %d was closed after %d deploy call(s); TeardownLease was never invoked", k.o.Idx, len(deploys)))
			} else {
				lastDeploy := deploys[len(deploys)-1]
				if teardowns[0].Start < lastDeploy.End {
					bad("C14", "teardown-after-last-deploy", k.o.class(), fmt.Sprintf("lease of order %d: teardown started at %d, the last deploy ended at %d", k.o.Idx, teardowns[0].Start, lastDeploy.End))
				}
				for _, d := range deploys {
					if d.Start > teardowns[0].Start {
						bad("C14", "no-deploy-after-teardown-requested", k.o.class(), fmt.Sprintf("lease of order %d: a deploy started at %d after the teardown had started at %d", k.o.Idx, d.Start, teardowns[0].Start))
					}
				}
			}
		}
		// ---- C20 / C10 end to end: what is deployed was accepted
		for _, d := range deploys {
			a := d.Arg.(vPDeployArg)
			which := 0
			for v := 1; v <= 2; v++ {
				for gi := range k.man[v] {
					if a.Group != nil && k.man[v][gi].Name == a.Group.Name && len(a.Group.Services) > 0 && len(k.man[v][gi].Services) > 0 && a.Group.Services[0].Image == k.man[v][gi].Services[0].Image {
						which = v
					}
				}
			}
			if which == 0 {
				bad("C20", "deployed-manifest-was-submitted", k.o.class(), fmt.Sprintf("lease of order %d: a manifest group was deployed that belongs to no submission of that deployment", k.o.Idx))
			} else if atomic.LoadInt32(&k.accepted[which]) == 0 {
				bad("C20", "deployed-manifest-was-accepted", k.o.class(), fmt.Sprintf("lease of order %d: version %d was deployed although its submission was not accepted", k.o.Idx, which))
			}
		}
	}
	// ---- C20: every submission returns; a valid one is accepted when the lease is held
	for _, sb := range run.Subs {
		k := kits[sb.Order]
		if sb.Reply == "" {
			bad("C20", "every-submission-answered", k.o.class(), fmt.Sprintf("submission of version %d for order %d never returned", sb.Version, sb.Order))
		}
		if sb.Reply == "nil" && !bytes.Equal(k.ver[sb.Version], k.ver[1]) && !(k.o.Update && sb.Version == 2) {
			bad("C20", "accept-only-valid-manifest", k.o.class(), fmt.Sprintf("submission of version %d for order %d was accepted although the chain never recorded that version", sb.Version, sb.Order))
		}
	}
	return viol
}

func vProviderStage(t *testing.T, prop string) {
	res := vs.NewResult(prop, "exploration",
		"the whole provider (provider.NewService: real cluster service with inventory, hostname service and deployment managers, real bid engine, real manifest service, one real bus) against a scripted chain, cluster and tenants: 2-4 orders in flight per run, each with a planned outcome (won / lost / order closed / undecided), manifest (valid / wrong version / none / second version after an update), close (lease closed / deployment closed / none; before the manifest / during the deploy / after it) and faults (one deploy failure, one teardown failure); judged at quiescence on the call log, the replies and the real inventory's status. distinct = multiset of order plans")
	res.Assume("the chain, the tenants and the cluster are scripted; the chain answers a landed bid with the planned market event; nothing is judged by time")
	defer func() {
		if err := res.Write(); err != nil {
			t.Fatalf("cannot write result: %v", err)
		}
		if n := res.Violations(); n > 0 {
			t.Errorf("%d violation(s) recorded", n)
		}
	}()
	for _, f := range []string{"provider_runs", "provider_orders_won", "provider_orders_lost", "provider_deploys", "provider_teardowns", "provider_submissions_accepted", "provider_leases_closed"} {
		res.Floor(f, 1)
	}
	seed := vs.Seed()
	one := func(run *vPRun) {
		viol := vRunProvider(run, seed)
		res.Eval(1)
		res.Count("provider_runs", 1)
		if len(run.Notes) > 0 {
			res.Count("provider_runs_with_notes", 1)
		}
		var shape []string
		for _, o := range run.Orders {
			shape = append(shape, o.class())
			switch o.Outcome {
			case "won":
				res.Count("provider_orders_won", 1)
				if o.Close != "none" {
					res.Count("provider_leases_closed", 1)
				}
			case "lost":
				res.Count("provider_orders_lost", 1)
			}
		}
		for _, c := range run.Calls {
			switch c.Kind {
			case vPDeploy:
				res.Count("provider_deploys", 1)
			case vPTeardown:
				res.Count("provider_teardowns", 1)
			}
		}
		for _, sb := range run.Subs {
			if sb.Reply == "nil" {
				res.Count("provider_submissions_accepted", 1)
			}
		}
		sort.Strings(shape)
		res.Distinct(strings.Join(shape, " | "))
		for _, v := range viol {
			if v.Prop != prop {
				res.Count("violations_of_other_properties_seen:"+v.Prop, 1)
				continue
			}
			res.AddViolation(v.Rule, prop+"/provider/"+v.Rule+"/"+v.Trigger, fmt.Sprintf("provider run %d: %s", run.Index, v.Detail), run)
		}
		if res.WantSample() {
			res.Sample(run)
		}
	}
	if rp := vs.ReplayFile(); rp != "" {
		var run vPRun
		if err := vs.LoadReplay(rp, &run); err == nil && len(run.Orders) > 0 {
			for i := 0; i < 10; i++ {
				cp := vPRun{Index: run.Index, Orders: append([]vPOrder(nil), run.Orders...)}
				one(&cp)
			}
		}
		return
	}
	n := vs.Scale(120, 5000)
	vs.Parallel(n, runtime.NumCPU(), func(i int) {
		r := vs.NewRand(seed, uint64(i)+0x99C0)
		one(vPPlan(r, i))
	})
}

func TestVerif_C13(t *testing.T) { vProviderStage(t, "C13") }
func TestVerif_C14(t *testing.T) { vProviderStage(t, "C14") }
func TestVerif_C20(t *testing.T) { vProviderStage(t, "C20") }
