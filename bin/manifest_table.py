# Table of claimed checks; exec'd by bin/mkmanifest.
CHAIN_NOTE = ("Trusted base: the Go toolchain, cosmos-sdk BaseApp/bank/auth as shipped, the harness generator and the oracle code in /verif/harness/app. "
              "The chain is driven at the ABCI boundary without Tendermint; histories are bounded (<=~120 tx, 9 accounts); only executions produced are judged.")

claim("C01", "chainmon", "exploration",
      "After every transaction of seeded histories against the real app (real bank keeper, signed txs, gaps 0..20 blocks, overdrafts) the escrow module balance equals the sum of recorded balances and every actor's bank delta equals what the escrow record deltas explain; inflow only by the declared deposit into the named account. Exploration is the right level: the property quantifies over unbounded histories, the monitor judges each produced prefix exactly.",
      CHAIN_NOTE, "runtime monitor: conservation + flow-attribution oracle over store/bank snapshots after every DeliverTx", "DESIGN.md §5 C01")
