# Table of claimed checks; exec'd by bin/mkmanifest.
CHAIN_NOTE = ("Trusted base: the Go toolchain, cosmos-sdk BaseApp/bank/auth as shipped, the harness generator and the oracle code in /verif/harness/app. "
              "The chain is driven at the ABCI boundary without Tendermint; histories are bounded (<=~120 tx, 9 accounts); only executions produced are judged.")

claim("C01", "chainmon", "exploration",
      "After every transaction of seeded histories against the real app (real bank keeper, signed txs, gaps 0..20 blocks, overdrafts) the escrow module balance equals the sum of recorded balances and every actor's bank delta equals what the escrow record deltas explain; inflow only by the declared deposit into the named account. Exploration is the right level: the property quantifies over unbounded histories, the monitor judges each produced prefix exactly.",
      CHAIN_NOTE, "runtime monitor: conservation + flow-attribution oracle over store/bank snapshots after every DeliverTx", "DESIGN.md §5 C01")

claim("C02", "chainmon", "exploration",
      "Shadow monitor over full-application histories (exact accrual rate x (settled_at - created), upper bound rate x blocks-open, transferred == credited <= deposited, overdraft split within the stated bounds, frozen after close) plus a small-scope sweep calling the real escrow keeper with the real bank keeper on cache branches at arbitrary heights next to a per-block reference model (complete for <=2 concurrent payments in quick, <=3 in thorough: balances 0..12, rates 1..4, offsets 0..2, gaps 0..6, 5 triggers, settle once / every height).",
      CHAIN_NOTE + " The reference model is 60 lines written from the statement; the overdraft remainder split is only bounded, not prescribed.",
      "runtime monitor with shadow state + reference-model comparison (small scope exhaustive) on the real keeper", "DESIGN.md §5 C02")
claim("C03", "chainmon", "exploration",
      "After every tx of seeded histories (zero-gap / zero-balance closes weighted up): open payment => open account, closed/overdrawn => zero balance and raw record frozen, successful close message => named payment/account not open, the chain's own escrow.ValidateGenesis on the exported state, nothing open => module empty; plus all direct-keeper operation sequences up to length 3 (quick) / 4 (thorough) over 24 operations x 2 initial balances compared with the reference model.",
      CHAIN_NOTE, "runtime invariant monitor on store snapshots + reference-model comparison of enumerated keeper call sequences", "DESIGN.md §5 C03")
claim("C04", "chainmon", "exploration",
      "Full scan of the decoded deployment and market stores after every tx of seeded histories (several tenants/providers/groups/bidders, overdraft at any phase) against the nine named invariants I1..I9 taken from the statement.",
      CHAIN_NOTE, "runtime invariant monitor (structural invariants at quiescent points = after every DeliverTx)", "DESIGN.md §5 C04")
claim("C05", "chainmon", "exploration",
      "Join of market/deployment records with escrow records through id mappings re-stated in the monitor, after every tx: lease active <=> payment open, bid live <=> deposit account open, deployment active <=> account open, no orphans; deposits whole while live and returned in the tx that ends the bid/deployment; ended leases earn nothing.",
      CHAIN_NOTE, "runtime invariant monitor joining two stores + bank-flow check", "DESIGN.md §5 C05")
claim("C06", "chainmon", "exploration",
      "Every message's required signer is compared with the statement's signer table; every tx signed by another party (own key, or forged signature under the right public key) must be rejected by the real ante handler with stores and balances unchanged; for every successful tx each raw store key written or deleted is decoded by the monitor's own decoder and must lie in the scope the message names. dseqs come from a pool colliding as decimal and binary prefixes and are shared by all tenants.",
      CHAIN_NOTE, "runtime monitor over raw store diffs with independent key decoder; negative (wrong-signer) workload", "DESIGN.md §5 C06")
claim("C07", "chainmon", "exploration",
      "Each tx is delivered as identical bytes to three replicas of the app; result (code, data, gas, ordered events, log of successful txs) and each block's app hash must be byte-identical; a second OS process with different GOGC/GOMAXPROCS/environment replays the same seed and the per-history digests must agree. Map-order bugs show with probability >= 1/2 per occurrence per replica pair; >=50 attestation merges with >=3 keys per run is a floor.",
      "Trusted base as for the chain engine; replicas share one Go runtime per process; Tendermint itself is not run.",
      "N-version (replica) divergence monitor + cross-process digest comparison", "DESIGN.md §5 C07")
claim("C08", "chainmon", "exploration",
      "For every create-bid tx the admission predicate is evaluated on the pre-state in set algebra; alarm only when a bid is accepted although the predicate is false, and when a provider update leaves an active (non auditor-gated) lease uncovered. Directed negatives make every conjunct the single false one; MatchRequirements is compared with the oracle on a complete small universe (342 225 cases).",
      CHAIN_NOTE, "runtime monitor: independent admission predicate on pre-state snapshots + exhaustive small-universe function oracle", "DESIGN.md §5 C08")

claim("C16", "chainmon", "exploration",
      "For every successful tx the ordered akash.v1 events of ResponseDeliverTx are decoded with the provider's own parser chain and walked, per object, through the object's lifecycle state machine from its pre-state to its post-state (decoded snapshots): every event must be enabled where it occurs and every change must have its event; action events exactly once per successful message; every event re-encodes to itself; failed txs carry none; plus a codec round-trip sweep (extreme ids/prices).",
      CHAIN_NOTE + " Events are read at the ABCI boundary (the list events/publish.go consumes); RPC delivery is not exercised.",
      "runtime monitor: trace (event sequence) checked against a per-object state machine between observed pre/post states", "DESIGN.md §5 C16")
claim("C17", "chainmon", "exploration",
      "Append-only reference model of (owner, serial) -> {state, pem} compared after every tx with keeper lookups for every pair ever named and with the real gRPC querier for every filter shape x page sizes {0,1,2,3} x key/offset pagination followed to the end; serials 0..2^159 with prefix-colliding encodings; duplicate, foreign-CN, foreign-signer and forged-signer attempts.",
      CHAIN_NOTE + " The querier is called in-process with the deliver-state context.",
      "runtime monitor: reference-model comparison of store and query results after every DeliverTx", "DESIGN.md §5 C17")
claim("C19", "chainmon", "exploration",
      "Boundary sweep (every single {min-1,min,max,max+1} choice of each bound, totals reached with counts 1/2/50, unit/group counts, names, nil / >2^64 / negative values, prices, deposits, version lengths, and all unordered pairs: ~4 000 signed create-deployment txs) judged by a big-integer limits table: alarm when admitted although outside the limits or when a rejection leaves an effect; plus a stored-state check of every deployment/group after every tx of random histories.",
      CHAIN_NOTE + " The limits table is transcribed from the documented constants.",
      "runtime monitor: boundary-value workload with independent big-integer oracle + stored-state invariant", "DESIGN.md §5 C19")

INPUT_NOTE = "Trusted base: the Go toolchain, the generator and the oracle code of the check; only generated inputs are judged (sampled, plus the explicitly enumerated small scopes)."

claim("C09", "inputs", "exploration",
      "The real gateway (rest.NewServer TLS config + router) is served on loopback; certificate lookups are answered by the real x/cert keeper querier over an in-memory store; 22 classes of client credentials (genuine, forged with copied CN+serial, upper-case CN, revoked, unknown, expired, not yet valid, wrong usage, chains, X-as-CA leaves, foreign account...) are presented in real TLS 1.3 handshakes and 12 routes are requested with 73 hostile path/query variants; alarm when a request is served as account X without a DER-identical valid on-chain certificate of X, or when a cluster/manifest stub receives a lease/deployment id whose owner or provider is not the authenticated tenant / this provider.",
      INPUT_NOTE + " provider.Client, cluster and manifest clients are recording stubs; TLS is the Go standard library's.",
      "runtime monitor at the stub boundary behind real TLS handshakes with a hostile credential/path generator", "DESIGN.md §5 C09")
claim("C10", "inputs", "exploration",
      "ValidateManifest + ValidateManifestWithDeployment/GroupSpecs judged in BOTH directions against a multiset oracle (per group: {canonical unit -> total count}, endpoint counts by kind, same group names) on generated equal pairs (split/merge/permute) and 11 near-miss classes, plus a complete small-scope enumeration (130 032 pairs); sdl.ManifestVersion checked for independence of JSON key order and sensitivity to every field found by reflection (33 field paths x scalar change / remove / duplicate / swap / nil->value).",
      INPUT_NOTE, "differential oracle (independent multiset model) over generated and enumerated inputs; metamorphic hash checks", "DESIGN.md §5 C10")
claim("C11", "inputs", "exploration",
      "The real kube client Deploy() runs against fake clientsets (create path, then update path, next to a bystander tenant); every object in every namespace is read back and judged: namespace confinement and selector confinement, security context, limits == leased and requests per commit level, namespace name validity and injectivity over all generated lease ids (collision families), and an independent NetworkPolicy evaluator probing ingress from other tenants / external IPs and egress to private ranges.",
      INPUT_NOTE + " The Kubernetes API is client-go's fake object tracker (plus a delete-collection reactor); policy semantics are those of the monitor's evaluator.",
      "runtime monitor over generated objects recorded by a fake clientset, with an independent policy evaluator", "DESIGN.md §5 C11")
claim("C15", "buslog", "exploration",
      "Concurrent runs of the real bus (1/2/4 publishers, subscribers and clones of clones created at random points, fast/yielding/sleeping/stalled readers, closes after k events, bus closed after draining or mid-run, random delays at the loop hook; also under -race) are logged at the caller boundary with stamps from one clock and judged offline: exactly-once, per-publisher and real-time order, completeness, every subscriber a contiguous segment of the first subscriber's order within the bounds implied by the stamps, clone bounds from what the original had handed out, bounded-progress non-blocking; plus exact single-threaded publish-n/read-k/clone variants.",
      "Trusted base: the harness's stamping and the offline checker. Interleavings are sampled, not enumerated; a hang is 'no progress in the run for 15 s while nothing else is pending'.",
      "recorded-history checker (order / exactly-once / segment) over stress runs with hook-injected delays; race detector as auxiliary", "DESIGN.md §5 C15")
claim("C18", "inputs", "exploration",
      "A structural generator produces SDL v2 descriptions D (services x profiles x placements x exposes, all unit suffixes, decimal quantities), renders them to YAML with its own emitter and 4 mapping-key permutations each; expected groups and manifest are computed from D with exact rational arithmetic and compared field by field with the parser's outputs; Read twice and on every permutation must give deep-equal groups/manifest and the same version hash; the manifest must validate against its own groups.",
      INPUT_NOTE, "differential oracle (expectation computed from the generator's description) + metamorphic key-permutation check", "DESIGN.md §5 C18")

EVLOOP_NOTE = ("Trusted base: the tag-guarded loop-top hook (one line per loop), the Stepper/Gates harness and the scripted collaborators (cluster client, hostname service, chain query/tx client), which are the environment, never the component under observation. "
               "Stepping makes exactly one loop input ready at a time; simultaneous readiness and Go's random select choice are only sampled by the free-running runs (also under -race).")

claim("C14", "evloop", "exploration",
      "All enabled sequences over {manifest update, lease closed, hostnames reserved/refused, deploy ok/error, teardown ok/fails-once, shutdown} up to length 4 (quick) / 6 (thorough) are executed, each on a fresh real deploymentManager stepped one message at a time, and the scripted-collaborator call log is judged: cluster operations never overlap, no deploy starts after teardown() was accepted, a closed lease is torn down after its last deploy and its hostnames are released, the last deploy carries the latest manifest. Bounded-exhaustive over message orders; plus randomized free-running schedules.",
      EVLOOP_NOTE, "systematic schedule enumeration of the real event loop via loop-top hook + scripted collaborators; call-log (trace) monitor; race detector auxiliary", "DESIGN.md §5 C14")

claim("C13", "evloop", "fault_enumeration",
      "For every pipeline point (existing-bid query, group fetch, attribute-signature check, reservation, pricing, bid broadcast) in flight and for the waiting state, each of {order closed, lease won, lease lost, shutdown, bid timeout, unrelated event} is injected as the stepped loop's only ready input and the in-flight step is then released with success or failure; plus every single step failure, ineligibility, price at/above the maximum and existing bid found / not found (170 deterministic scenarios, each on a fresh real order), plus free-running randomized schedules. The scripted call log is judged at termination: <=1 create-bid, price <= order maximum, bid only after a successful reservation; if not won, every successful reservation released and a close-bid submitted for any placed or pre-existing bid; the order terminates.",
      EVLOOP_NOTE, "fault/event injection at every pipeline point of the stepped real loop; call-log monitor; race detector auxiliary", "DESIGN.md §5 C13")

claim("C20", "evloop", "exploration",
      "All enabled sequences over {lease won, lease removed, submit a manifest matching the on-chain version / another version / other resources, version update, chain fetch ok / error, deployment closed} up to length 4 (quick: 3 510 sequences) / 5 (thorough), plus longer random sequences, each on a fresh real manifest.manager stepped one message at a time with a scripted chain fetch. Replies are collected on reply channels of capacity 4 (a second reply is observable), ManifestReceived events by an independent bus subscriber flushed with a marker after every step; judged against a reference model: exactly one reply per submission, none outstanding when idle, announcements only with a lease, after the fetch, of a validated manifest and the latest one, acceptance implies the announcement of that hash.",
      EVLOOP_NOTE, "systematic schedule enumeration of the real event loop via loop-top hook; reply/announcement trace checked against a reference model", "DESIGN.md §5 C20")

claim("C12", "evloop", "exploration",
      "Operation sequences {reserve (groups with 1 or 2 resource entries, endpoints), unreserve, status, lookup, deployment-status events, inventory refresh} run on the real inventoryService (real bus, scripted Client.Inventory, loop stepped through its hook) next to a reference model: a grant is an alarm unless an exact backtracking bin-packer places all not-yet-deployed reservations plus the new one on the last reported available capacity and the endpoints fit the free ports; status must list one entry per outstanding reservation in the right class, identically on consecutive calls; every sequence is run with and without interleaved status queries and must give identical outcomes and final status (reads are pure); unreserve removes exactly one. Complete up to length 2 (quick) / 3 (thorough) over a 2-order alphabet, random sequences of length 8..20 over 3 commit-level sets; plus a porcupine linearizability check of concurrent reserve/unreserve/status histories.",
      EVLOOP_NOTE + " Node capacities and group sizes are small so that the exact packer terminates; porcupine v1.3.0 judges the concurrent history (timeout => inconclusive).",
      "reference-model monitor with exact bin-packing oracle + metamorphic read-purity check + porcupine linearizability of a recorded concurrent history", "DESIGN.md §5 C12")
